#!/bin/sh
# Offline setup: third-party helpers into .deps (from the local wheelhouse), then
# the two extension-module flavours built from /repo's working tree.
cd "$(dirname "$0")" || exit 2
set -e
if [ ! -d .deps/jsonschema ]; then
  PIP_NO_INDEX=1 /venv/bin/python -m pip install --quiet --no-index \
    --find-links /opt/veriftools/wheels --target .deps \
    jsonschema icontract deal mpmath >/dev/null 2>&1 || \
  PIP_NO_INDEX=1 /venv/bin/python -m pip install --no-index \
    --find-links /opt/veriftools/wheels --target .deps jsonschema icontract mpmath
fi
[ "$1" = "deps-only" ] && exit 0
export PYTHONPATH="$PWD:$PWD/.deps"
/venv/bin/python -m hyverif.build plain san
