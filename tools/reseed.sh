#!/bin/sh
# reseed.sh: re-confirm every kept seeded change against the current checks (quick tier, or the
# tier named in its meta.json),
# on scratch copies of /repo; prints the ones that are not caught.
cd "$(dirname "$0")/.."
mkdir -p /tmp/reseed
ls seeded | while read d; do grep -q '"superseded": true' seeded/$d/meta.json || echo "$d ${d%%-*}"; done | xargs -P ${JOBS:-6} -L 1 sh -c 'SEED_SKIP_TESTS=1 MUT_TIER=$(python3 -c "import json,sys;print(json.load(open(sys.argv[1])).get(\"tier\",\"quick\"))" /verif/seeded/$0/meta.json) python3 tools/seedcheck.py /verif/seeded/$0 $1 > /tmp/reseed/$0.json 2>/tmp/reseed/$0.err'
python3 - <<'PY'
import json,glob
bad=[]
fs=sorted(glob.glob('/tmp/reseed/*.json'))
for f in fs:
    try: d=json.load(open(f))
    except Exception: bad.append((f,'unreadable')); continue
    c=list(d.get('checks',{}).values())
    if not c or c[0]['rc']!=1 or d.get('demo_clean_rc')!=0 or d.get('demo_patched_rc') in (0,None):
        bad.append((f.split('/')[-1], d.get('patch_applied'), d.get('demo_clean_rc'), d.get('demo_patched_rc'), c))
print(len(fs), "checked;", len(bad), "not caught / not confirmed")
for b in bad: print(b)
PY
