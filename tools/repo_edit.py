#!/usr/bin/env python3
"""repo_edit.py <file> <old> <new>: exact, newline-preserving single replacement."""
import sys
p, old, new = sys.argv[1:4]
b = open(p, 'rb').read()
crlf = b'\r\n' in b
o = old.encode(); n = new.encode()
if crlf:
    o = o.replace(b'\n', b'\r\n'); n = n.replace(b'\n', b'\r\n')
assert b.count(o) == 1, f"occurrences: {b.count(o)}"
open(p, 'wb').write(b.replace(o, n))
