#!/bin/sh
# tools/mutsed.sh <relative file> <python-regex-or-literal old> <new> <ID> [...]
# one-line literal replacement mutant on a scratch copy (exactly one occurrence
# must be replaced).
F="$1"; OLD="$2"; NEW="$3"; shift 3
D=$(mktemp -d /tmp/hyd-mut-XXXXXX)
rsync -a --exclude .git --exclude examples /repo/ "$D/" || exit 3
python3 - "$D/$F" "$OLD" "$NEW" <<'PY' || { rm -rf "$D"; exit 3; }
import sys
p, old, new = sys.argv[1:4]
s = open(p).read()
n = s.count(old)
if n < 1:
    print("mutation target not found"); sys.exit(1)
s = s.replace(old, new, 1)
open(p, "w").write(s)
PY
cd "$(dirname "$0")/.."
for id in "$@"; do
  VERIF_REPO="$D" VERIF_NO_EVIDENCE=1 ./check "$id" --tier "${MUT_TIER:-quick}" 2>&1 | grep -E "^(VIOLATION|KNOWN|INCONC|\[C|violation)" | cut -c1-260 | head -${MUT_LINES:-8}
done
rm -rf "$D"
