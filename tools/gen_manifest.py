#!/venv/bin/python
"""Regenerate MANIFEST.json from the property modules that exist."""
import importlib, json, sys
from pathlib import Path
V = Path(__file__).resolve().parent.parent
sys.path.insert(0, str(V)); sys.path.insert(0, str(V / ".deps"))
from tools.manifest_texts import TEXTS, COMMON
props = [json.loads(l) for l in (V / "properties.jsonl").read_text().splitlines() if l.strip()]
BASE = ("cd /repo && /venv/bin/python -m pytest -ra -q -p no:cacheprovider --timeout=900 "
        "--continue-on-collection-errors")
checks, na = [], []
for p in props:
    pid = p["id"]
    f = V / "hyverif" / "props" / (pid.lower() + ".py")
    if not f.exists():
        na.append({"property_id": pid, "reason": "check not built yet (build-out in progress; see DESIGN.md section 5 %s)" % pid})
        continue
    m = importlib.import_module("hyverif.props." + pid.lower())
    src = f.read_text()
    extra = ""
    if "ctx.presentations(" in src:
        extra += (" Each judged call is also repeated with value-identical presentations of "
                  "its inputs (strided, negatively strided, Fortran-ordered, read-only, "
                  "other-byte-order, ndarray-subclass and memory-mapped arrays must be "
                  "accepted and give the same result; lists, pandas objects incl. a "
                  "non-default index, exact int64 and narrow-integer copies may be refused "
                  "but not answered differently; DESIGN 12.7).")
    if "ctx.reuse(" in src or "reuse" in src:
        extra += (" Reuse step: the same argument objects are passed again, results kept "
                  "by the caller must not be overwritten by later calls, and a call made "
                  "after the caller edited its results must still give the first answer "
                  "(DESIGN 12.8); the call is repeated once more in a process left in an "
                  "unusual state - errno set, FP flags raised, fd 1 unwritable, terse print "
                  "options - and must answer the same (DESIGN 12.9).")
    if "ctx.concurrent(" in src:
        extra += (" The call is also made from four threads at once, each on its own data, "
                  "and every answer compared with the one obtained alone (DESIGN 12.10).")
    if "ctx.small_stack(" in src:
        extra += (" The call is repeated in a child interpreter on a thread with a 192 KiB "
                  "stack: it must neither die nor answer differently (DESIGN 12.6 round 11).")
    if "stdout_is_a_terminal" in src:
        extra += (" The call is repeated with file descriptor 1 on a pseudo-terminal.")
    checks.append({
        "property_id": pid,
        "quick_cmd": f"./check {pid} --tier quick",
        "thorough_cmd": f"./check {pid} --tier thorough",
        "evidence_file": f"/verif/evidence/{pid}.json",
        "replay_cmd_template": f"./check {pid} --replay {{path}}",
        "engine": getattr(m, "ENGINE", "reference-model monitors"),
        "level_claimed": {"category": "exploration",
                          "text": TEXTS[pid][1] + COMMON + extra + " Workload: " + m.RULE,
                          "design_ref": f"DESIGN.md section 5 {pid}"},
        "level_note": getattr(m, "LEVEL_NOTE", "; ".join(getattr(m, "ASSUMPTIONS", [])) or "oracle written from the property text; finite executions only"),
        "technique": TEXTS[pid][0],
    })
man = {
    "version": 1,
    "setup_cmd": "./setup.sh",
    "hooks": {"guard": "HYDRODIY_VERIF",
              "enable": "none - every monitor attaches from outside (PYTHONPATH shadowing of the rebuilt extension modules, LD_PRELOAD of the ASan runtime, wrappers installed by the harness); no source hook exists in /repo",
              "baseline_off_cmd": BASE, "source_commits": [], "add_only": True},
    "engines": [
        {"name": "reference-model monitors", "path": "hyverif/props", "serves_properties": [c["property_id"] for c in checks if c["engine"] == "reference-model monitors"], "kind_free_text": "oracles (exact-rational / graph / definitional models) evaluated on every observed call of the real code, rebuilt from the working tree"},
        {"name": "sanitizer", "path": "hyverif/props/c05.py", "serves_properties": ["C05"], "kind_free_text": "clang ASan+UBSan build of the C kernels loaded into CPython via LD_PRELOAD; report blocks parsed and attributed to API calls"},
        {"name": "purity monitor", "path": "hyverif/props/c18.py", "serves_properties": ["C18"], "kind_free_text": "argument snapshot/compare wrappers + repeat-call monitor"},
    ],
    "checks": checks,
    "not_applicable": na,
    "notes": "Checks exit 0 (held on everything observed), 1 (VIOLATION line) or 2 (inconclusive: coverage obligation unmet / harness failure; never expected on the unchanged tree). Known findings: /verif/known_findings.json.",
}
(V / "MANIFEST.json").write_text(json.dumps(man, indent=1) + "\n")
import jsonschema
jsonschema.validate(man, json.loads(Path("/root/.vp/MANIFEST.schema.json").read_text()))
print("MANIFEST ok:", len(checks), "checks,", len(na), "not yet claimed")
