#!/venv/bin/python
"""seedcheck.py <seed dir with patch.diff + demo.py> <property id> [more ids...]

Confirms a seeded change end to end on a scratch copy of /repo (never /repo itself):
demo passes on the clean copy, patch applies and builds, pinned tests give the baseline
outcome, demo fails with the patch, and runs the given checks (quick, or MUT_TIER)
against the patched copy. Prints a JSON summary."""
import json, os, shutil, subprocess, sys, tempfile, xml.etree.ElementTree as ET
from pathlib import Path
VERIF = Path(__file__).resolve().parent.parent
seed = Path(sys.argv[1]).resolve()
ids = sys.argv[2:]
skip_tests = bool(os.environ.get("SEED_SKIP_TESTS"))
D = Path(tempfile.mkdtemp(prefix="hyd-seed-", dir="/tmp"))
out = {"seed": str(seed), "scratch": str(D)}
try:
    subprocess.run(["rsync", "-a", "--exclude", ".git", "--exclude", "examples", "/repo/", str(D) + "/"], check=True)
    env = dict(os.environ, PYTHONPATH=str(D / "src"), MPLBACKEND="Agg")
    def demo():
        r = subprocess.run(["/venv/bin/python", str(seed / "demo.py")], env=env, cwd=str(D), capture_output=True, text=True, timeout=900)
        return r.returncode, (r.stdout + r.stderr)[-600:]
    rc0, o0 = demo()
    out["demo_clean_rc"] = rc0
    r = subprocess.run(["patch", "-p1", "--no-backup-if-mismatch", "-i", str(seed / "patch.diff")], cwd=str(D), capture_output=True, text=True)
    out["patch_applied"] = r.returncode == 0
    if r.returncode != 0:
        out["patch_err"] = (r.stdout + r.stderr)[-500:]
        print(json.dumps(out, indent=1)); sys.exit(1)
    touched_c = any(l.startswith("+++") and (l.strip().endswith(".c") or l.strip().endswith(".h")) for l in open(seed / "patch.diff"))
    out["touches_c"] = touched_c
    if touched_c:
        b = subprocess.run(["/tmp/hyd-tools/build_ext.sh", str(D)], capture_output=True, text=True)
        out["build_ok"] = b.returncode == 0
        if b.returncode != 0:
            out["build_err"] = b.stderr[-800:]
    rc1, o1 = demo()
    out["demo_patched_rc"] = rc1
    out["demo_patched_out"] = o1[-300:]
    if not skip_tests:
        jx = D / "junit.xml"
        subprocess.run(["/venv/bin/python", "-m", "pytest", "-q", "-p", "no:cacheprovider", "--timeout=900",
                        "--continue-on-collection-errors", f"--junitxml={jx}"], env=env, cwd=str(D),
                       capture_output=True, text=True, timeout=3000)
        base = set(json.load(open("/root/.vp/BASELINE.json"))["stable_pass"])
        res = {}
        for tc in ET.parse(jx).iter("testcase"):
            res[tc.get("classname") + "::" + tc.get("name")] = not any(ch.tag in ("failure", "error", "skipped") for ch in tc)
        broken = sorted(s for s in base if not res.get(s, False))
        # a test that compares wall-clock times (test_violin_large) fails now and then on a
        # loaded machine: anything broken is re-run on its own before it counts
        retried = []
        for s in list(broken):
            cls, nm = s.rsplit("::", 1)
            node = cls.replace(".", "/") + ".py::" + nm
            for _ in range(2):
                r2 = subprocess.run(["/venv/bin/python", "-m", "pytest", "-q", "-p", "no:cacheprovider",
                                     "--timeout=900", node], env=env, cwd=str(D), capture_output=True, text=True, timeout=1800)
                if r2.returncode == 0:
                    broken.remove(s)
                    retried.append(s)
                    break
        out["baseline_tests_broken"] = broken
        out["passed_when_rerun_alone"] = retried
    checks = {}
    for pid in ids:
        e = dict(os.environ, VERIF_REPO=str(D), VERIF_NO_EVIDENCE="1")
        r = subprocess.run([str(VERIF / "check"), pid, "--tier", os.environ.get("MUT_TIER", "quick")], env=e, cwd=str(VERIF),
                           capture_output=True, text=True, timeout=7200)
        keys = [l.split("key=")[1].split(" count=")[0] for l in r.stdout.splitlines() if l.startswith("violation key=")]
        checks[pid] = {"rc": r.returncode, "keys": keys[:12]}
    out["checks"] = checks
finally:
    shutil.rmtree(D, ignore_errors=True)
print(json.dumps(out, indent=1))
