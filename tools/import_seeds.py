#!/usr/bin/env python3
"""import_seeds.py: copy confirmed seeded changes (/tmp/seed-Cnn/mK + /tmp/seedres/Cnn-mK.json)
into /verif/seeded/Cnn-mK/ with a meta.json"""
import json, shutil, sys, glob, os, re
from pathlib import Path
V = Path(__file__).resolve().parent.parent
for rf in sorted(glob.glob('/tmp/seedres/C*-*m*.json')):
    name = Path(rf).stem            # C01-m1
    pid, mk = name.split('-')
    mm = re.match(r'^r(\d+)(m\d+)$', mk)
    if mm:
        src = Path(f'/tmp/seed{mm.group(1)}-{pid}/{mm.group(2)}')
    else:
        src = Path(f'/tmp/seed-{pid}/{mk}')
    if not src.exists():
        continue
    try:
        res = json.load(open(rf))
    except Exception:
        print('skip (no result)', name); continue
    ok = res.get('demo_clean_rc') == 0 and res.get('demo_patched_rc') not in (0, None) and \
        res.get('patch_applied') and res.get('baseline_tests_broken') == [] and res.get('build_ok') in (None, True)
    if not ok:
        print('NOT CONFIRMED', name, {k: res.get(k) for k in ('demo_clean_rc','demo_patched_rc','patch_applied','build_ok','baseline_tests_broken')}); continue
    dst = V / 'seeded' / name
    if (dst / 'meta.json').exists() and not os.environ.get('REIMPORT'):
        continue            # already imported (its meta.json may carry later annotations)
    if (dst / 'patch.as-delivered.diff').exists():
        # the patch kept here was re-applied by hand to a later tree: never overwrite it
        # with the delivered one
        continue
    dst.mkdir(parents=True, exist_ok=True)
    for f in ('patch.diff', 'demo.py', 'notes.md'):
        if (src / f).exists():
            shutil.copy(src / f, dst / f)
    notes = (src / 'notes.md').read_text(errors='replace') if (src / 'notes.md').exists() else ''
    files = sorted(set(re.findall(r'^\+\+\+ b/(\S+)', (src / 'patch.diff').read_text(), re.M)))
    caught = {k: {'exit': v['rc'], 'violation_keys': v['keys']} for k, v in res.get('checks', {}).items()}
    meta = {
        'property': pid, 'origin': 'independent sub-agent given only the property record and a scratch worktree',
        'files_changed': files,
        'needs_to_manifest': notes.strip()[:2500] if notes else '',
        'confirmed_by': 'tools/seedcheck.py on a scratch copy of /repo (never applied to /repo): demo exit 0 on the clean copy, '
                        'patch applies (C rebuilt when touched), pinned test suite keeps all 183 baseline tests passing, demo exits non-zero with the patch',
        'demo_clean_rc': res['demo_clean_rc'], 'demo_patched_rc': res['demo_patched_rc'],
        'baseline_tests_broken': res['baseline_tests_broken'],
        'checks_run': f"./check {pid} --tier quick with VERIF_REPO=<patched scratch copy>",
        'caught_by': caught,
    }
    (dst / 'meta.json').write_text(json.dumps(meta, indent=1))
    print('imported', name, 'caught' if any(v['exit'] == 1 for v in caught.values()) else 'MISSED')
