#!/venv/bin/python
"""Rebuild /repo/src/c_hydrodiy_*.so (git-ignored build products) from the current
kernels + generated wrappers with the flags setuptools would use, so that the
repository's own test-suite runs the fixed kernels."""
import subprocess, sys, sysconfig, os
from pathlib import Path
sys.path.insert(0, str(Path(__file__).resolve().parent.parent))
from hyverif import build as hb
import numpy
cc = ["gcc", "-fno-strict-overflow", "-Wsign-compare", "-DNDEBUG", "-g", "-O3", "-w", "-fPIC"]
for mod, (sub, srcs) in hb.MODULES.items():
    d = hb.REPO / "src" / "hydrodiy" / sub
    out = hb.REPO / "src" / (mod + hb.EXT)
    cmd = cc + ["-shared", "-I", str(d), "-I", hb.PYINC, "-I", numpy.get_include()] + [str(d / s) for s in srcs] + ["-lm", "-o", str(out) + ".tmp"]
    subprocess.run(cmd, check=True)
    os.replace(str(out) + ".tmp", out)
    print("rebuilt", out)
