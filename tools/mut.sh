#!/bin/sh
# tools/mut.sh <patch.diff> <ID> [<ID>...]  - run quick checks against a scratch copy
# of /repo with the patch applied (self-validation of the monitors).
# env MUT_TIER=thorough to use the thorough tier.
P="$(realpath "$1")"; shift
D=$(mktemp -d /tmp/hyd-mut-XXXXXX)
rsync -a --exclude .git --exclude examples /repo/ "$D/" || exit 3
( cd "$D" && patch -p1 --no-backup-if-mismatch < "$P" >/dev/null ) || { echo "patch failed"; rm -rf "$D"; exit 3; }
cd "$(dirname "$0")/.."
rc=0
for id in "$@"; do
  VERIF_REPO="$D" VERIF_NO_EVIDENCE=1 ./check "$id" --tier "${MUT_TIER:-quick}" 2>&1 | grep -E "^(VIOLATION|KNOWN|INCONC|\[C)" | cut -c1-220
done
rm -rf "$D"
