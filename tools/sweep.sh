#!/bin/sh
# sweep.sh <tier> <seed>...: run every check against /repo for several VERIF_SEED values
# without touching the committed evidence; prints one line per (check, seed) that is not
# a clean pass, and a final count.
tier="$1"; shift
cd "$(dirname "$0")/.."
bad=0
for s in "$@"; do
  for n in 01 02 03 04 05 06 07 08 09 10 11 12 13 14 15 16 17 18 19 20; do
    out=$(VERIF_SEED=$s VERIF_NO_EVIDENCE=1 PYTHONHASHSEED=0 ./check C$n --tier "$tier" 2>&1); rc=$?
    if [ $rc -ne 0 ] || echo "$out" | grep -q "^VIOLATION\|^KNOWN-FINDING"; then
      bad=$((bad+1)); echo "seed=$s C$n rc=$rc"; echo "$out" | grep -E "^(violation|VIOLATION|INCON|KNOWN|obligation)" | cut -c1-300 | head -8
    fi
  done
  echo "seed $s done"
done
echo "not-clean: $bad"
