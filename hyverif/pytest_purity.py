"""pytest plugin: run the repository's own tests under the M-PURE monitor and dump
what it observed to $HYVERIF_PURITY_OUT."""
import json
import os


def pytest_configure(config):
    from hyverif.monitors import purity
    purity.STATE.repeat = False
    config._hyverif_wrapped = purity.install()


def pytest_sessionfinish(session, exitstatus):
    from hyverif.monitors import purity
    out = os.environ.get("HYVERIF_PURITY_OUT")
    if not out:
        return
    st = purity.STATE
    with open(out, "w") as f:
        json.dump({"calls": dict(st.calls), "args_checked": dict(st.args_checked),
                   "violations": st.violations[:2000], "exitstatus": int(exitstatus),
                   "wrapped": len(session.config._hyverif_wrapped)}, f)
