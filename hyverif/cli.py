"""Driver: ./check <ID> --tier quick|thorough | --replay <file>

exit 0  every predicate held on everything observed and all coverage obligations met
exit 1  VIOLATION property=<ID> replay=<path>   (violation key not in known_findings)
exit 2  inconclusive (obligation unmet, harness error, watchdog) - never expected on
        the unchanged tree
"""
import argparse
import importlib
import json
import os
import re
import shutil
import signal
import subprocess
import sys
import time
from collections import Counter
from concurrent.futures import ThreadPoolExecutor
from pathlib import Path

import numpy as np

from hyverif import build as hb

VERIF = Path(__file__).resolve().parent.parent
PY = sys.executable
# self-validation runs against a scratch copy must not touch the real evidence
SCRATCH = bool(os.environ.get("VERIF_NO_EVIDENCE"))
OUTROOT = (VERIF / ".work" / "scratch-out") if SCRATCH else VERIF


def load_findings():
    p = VERIF / "known_findings.json"
    if not p.exists():
        return {"known": [], "fixed": []}
    return json.loads(p.read_text())


def worker_env(builddir, flavour, workdir):
    env = dict(os.environ)
    pp = [str(builddir), str(hb.REPO / "src"), str(VERIF), str(VERIF / ".deps")]
    env["PYTHONPATH"] = os.pathsep.join(pp)
    env["MPLBACKEND"] = "Agg"
    env["MPLCONFIGDIR"] = str(workdir / "mpl")
    env["PYTHONHASHSEED"] = "0"
    env["PYTHONDONTWRITEBYTECODE"] = "1"
    for k in ("OMP_NUM_THREADS", "OPENBLAS_NUM_THREADS", "MKL_NUM_THREADS",
              "NUMEXPR_NUM_THREADS"):
        env[k] = "1"
    env["HYVERIF_WORK"] = str(workdir)
    if flavour == "san":
        env["LD_PRELOAD"] = hb.asan_runtime()
        env["ASAN_OPTIONS"] = ("detect_leaks=0:halt_on_error=0:max_redzone=2048:"
                               "allocator_may_return_null=1:handle_segv=1:"
                               "detect_stack_use_after_return=0:symbolize=1:"
                               "abort_on_error=0")
        env["UBSAN_OPTIONS"] = "print_stacktrace=1:halt_on_error=0:symbolize=1"
        env["ASAN_SYMBOLIZER_PATH"] = shutil.which("llvm-symbolizer") or \
            "/usr/bin/llvm-symbolizer-14"
        env["PYTHONMALLOC"] = "malloc"
    return env


def run_workers(specs, builddir, flavour, workdir, timeout, maxpar=16):
    """Run worker specs in parallel; returns list of (spec, result|None, meta)."""
    env = worker_env(builddir, flavour, workdir)
    (workdir / "mpl").mkdir(parents=True, exist_ok=True)
    cwd = workdir / "cwd"
    cwd.mkdir(exist_ok=True)

    def one(spec):
        sp = workdir / f"spec-{spec['name']}.json"
        spec["out"] = str(workdir / f"res-{spec['name']}.json")
        sp.write_text(json.dumps(spec))
        errp = workdir / f"err-{spec['name']}.txt"
        t0 = time.time()
        meta = {"rc": None, "timeout": False, "stderr": str(errp)}
        with open(errp, "wb") as ef:
            p = subprocess.Popen([PY, "-X", "faulthandler", "-m", "hyverif.worker",
                                  str(sp)], env=env, cwd=str(cwd),
                                 stdout=subprocess.DEVNULL, stderr=ef,
                                 start_new_session=True)
            try:
                p.wait(timeout=spec.get("timeout", timeout))
            except subprocess.TimeoutExpired:
                meta["timeout"] = True
                try:
                    os.killpg(p.pid, signal.SIGKILL)
                except ProcessLookupError:
                    pass
                p.wait()
            meta["rc"] = p.returncode
        meta["wall_s"] = time.time() - t0
        meta["t_end"] = time.time()
        res = None
        if os.path.exists(spec["out"]):
            try:
                res = json.load(open(spec["out"]))
                res["_digests"] = np.load(spec["out"] + ".dig.npy")
            except Exception as e:  # pragma: no cover
                meta["load_error"] = repr(e)
        return spec, res, meta

    with ThreadPoolExecutor(maxpar) as ex:
        return list(ex.map(one, specs))


def tail(path, n=3000):
    try:
        b = Path(path).read_bytes()
        return b[-n:].decode(errors="replace")
    except OSError:
        return ""


def safe(s):
    import hashlib
    h = hashlib.sha1(s.encode()).hexdigest()[:6]
    return re.sub(r"[^A-Za-z0-9_.=-]+", "_", s)[:120] + "-" + h


def main(argv=None):
    ap = argparse.ArgumentParser()
    ap.add_argument("prop")
    ap.add_argument("--tier", default=os.environ.get("VERIF_TIER", "quick"),
                    choices=["quick", "thorough"])
    ap.add_argument("--replay")
    ap.add_argument("--seed", type=int,
                    default=int(os.environ.get("VERIF_SEED", "0") or 0))
    ap.add_argument("--keep", action="store_true")
    a = ap.parse_args(argv)
    pid = a.prop.upper()
    modname = pid.lower()
    t0 = time.time()
    sys.path.insert(0, str(VERIF / ".deps"))
    mod = importlib.import_module("hyverif.props." + modname)
    workdir = VERIF / ".work" / f"{pid}-{os.getpid()}"
    shutil.rmtree(workdir, ignore_errors=True)
    workdir.mkdir(parents=True)
    rc = 2
    try:
        rc = drive(a, pid, mod, modname, workdir, t0)
    finally:
        if not a.keep:
            shutil.rmtree(workdir, ignore_errors=True)
    return rc


def drive(a, pid, mod, modname, workdir, t0):
    flavour = getattr(mod, "FLAVOUR", "plain")
    inconclusive = []
    try:
        builddir = hb.build(flavour)
    except Exception as e:
        print(f"INCONCLUSIVE property={pid} build failed: {e}")
        write_evidence(pid, a, mod, None, [], ["build failed: %s" % e], t0, {})
        return 2

    if hasattr(mod, "drive"):
        # property with its own orchestration (C05, C18)
        return mod.drive(a, pid, workdir, t0, sys.modules[__name__])

    if a.replay:
        case = json.loads(Path(a.replay).read_text())
        spec = {"name": "replay", "prop": pid, "module": modname, "tier": a.tier,
                "seed": case.get("seed", a.seed), "shard": case.get("shard", 0),
                "nshards": case.get("nshards", 1), "replay": case["case"]}
        out = run_workers([spec], builddir, flavour, workdir, 1800)
        spec, res, meta = out[0]
        if res is None:
            print(f"replay: worker died rc={meta['rc']}\n{tail(meta['stderr'])}")
            print(f"VIOLATION property={pid} replay={a.replay}")
            return 1
        if res["status"] != "ok":
            print("replay harness error:\n" + (res["error"] or ""))
            return 2
        if res["violations"]:
            for k, v in res["violations"].items():
                print(f"reproduced: {k}: {json.dumps(v['first'][0]['detail'])[:1500]}")
            print(f"VIOLATION property={pid} replay={a.replay}")
            return 1
        print(f"replay: no violation reproduced for property={pid}")
        return 0

    nsh = mod.SHARDS[a.tier]
    budget = mod.BUDGET[a.tier]
    specs = [{"name": f"s{i}", "prop": pid, "module": modname, "tier": a.tier,
              "seed": a.seed, "shard": i, "nshards": nsh, "budget_s": budget}
             for i in range(nsh)]
    outs = run_workers(specs, builddir, flavour, workdir,
                       timeout=budget * 4 + 300)
    merged = merge(outs, pid, inconclusive, mod)
    return finish(a, pid, mod, merged, inconclusive, t0, builddir)


def merge(outs, pid, inconclusive, mod):
    m = {"evaluations": 0, "predicates": Counter(), "classes": Counter(),
         "apis": Counter(), "extra": Counter(), "samples": [], "violations": {},
         "digests": [], "capped": False, "notes": [], "info": {}, "workers": 0,
         "ext_path": None, "py_path": None}
    for spec, res, meta in outs:
        m["workers"] += 1
        if res is None:
            if meta["timeout"]:
                hb = None
                try:
                    raw = open(spec["out"] + ".hb", "rb").read().decode(
                        errors="replace").strip()
                    hb = json.loads(raw)
                except Exception:
                    hb = None
                stuck = hb is not None and (meta["t_end"] - hb["t"]) > 120
                if getattr(mod, "HANG_IS_VIOLATION", False) and stuck:
                    # one single case has been running for > 120 s (normal cost:
                    # microseconds): reported as a hang, with that case as witness
                    v = m["violations"].setdefault("hang|case-did-not-terminate",
                                                   {"count": 0, "first": []})
                    v["count"] += 1
                    v["first"].append({"pred": "terminates", "case": hb["case"],
                                       "detail": {"running_for_s":
                                                  meta["t_end"] - hb["t"]}})
                else:
                    inconclusive.append(f"worker {spec['name']} watchdog fired")
            else:
                sig = -meta["rc"] if (meta["rc"] or 0) < 0 else meta["rc"]
                key = f"crash|worker-rc={sig}"
                v = m["violations"].setdefault(key, {"count": 0, "first": []})
                v["count"] += 1
                v["first"].append({"pred": "no-crash",
                                   "case": {"crash_shard": spec["shard"],
                                            "nshards": spec["nshards"]},
                                   "detail": tail(meta["stderr"])})
            continue
        if res["status"] != "ok":
            inconclusive.append(f"worker {spec['name']} harness error: "
                                f"{(res['error'] or '')[-1500:]}")
        m["evaluations"] += res["evaluations"]
        for k in ("predicates", "classes", "apis", "extra"):
            m[k].update(res[k])
        for s in res["samples"]:
            if len(m["samples"]) < 6:
                m["samples"].append(s)
        for k, v in res["violations"].items():
            d = m["violations"].setdefault(k, {"count": 0, "first": []})
            d["count"] += v["count"]
            for f in v["first"]:
                f["shard"] = spec["shard"]
                f["nshards"] = spec["nshards"]
                if len(d["first"]) < 3:
                    d["first"].append(f)
        m["digests"].append(res["_digests"])
        m["capped"] |= res["digests_capped"]
        m["notes"] += res["notes"]
        for k, v in res["info"].items():
            if k == "exhaustive_complete":
                m["info"][k] = bool(m["info"].get(k, True) and v)
            else:
                m["info"].setdefault(k, v)
        m["ext_path"] = res["ext_path"]
        m["py_path"] = res["py_path"]
    return m


def finish(a, pid, mod, m, inconclusive, t0, builddir, extra_cov=None):
    findings = load_findings()
    known = {k["key"]: k for k in findings["known"] if k["property"] == pid}
    # sanity: the workers really ran the freshly built modules / working tree
    if m["ext_path"] and Path(m["ext_path"]).resolve() != Path(builddir).resolve():
        inconclusive.append(f"workers imported extension modules from "
                            f"{m['ext_path']} not {builddir}")
    exp_py = (hb.REPO / "src" / "hydrodiy").resolve()
    if m["py_path"] and Path(m["py_path"]).resolve() != exp_py:
        inconclusive.append(f"workers imported hydrodiy from {m['py_path']}")
    # obligations
    obl = getattr(mod, "OBLIGATIONS", {})
    if callable(obl):
        obl = obl(a.tier)
    unmet = {}
    for cls, need in obl.items():
        have = m["classes"].get(cls, 0) + m["predicates"].get(cls, 0)
        if cls in m["classes"]:
            have = m["classes"][cls]
        elif cls in m["predicates"]:
            have = m["predicates"][cls]
        if have < need:
            unmet[cls] = (have, need)
    if unmet:
        inconclusive.append("coverage obligations unmet: " + json.dumps(unmet))
    if m["evaluations"] == 0:
        inconclusive.append("no case evaluated")
    digs = np.unique(np.concatenate(m["digests"])) if m["digests"] else np.array([])
    nd = int(digs.size)

    newviol = 0
    seen_known = []
    lines = []
    rdir = OUTROOT / "replays" / pid
    for key, v in sorted(m["violations"].items()):
        if key in known:
            seen_known.append(key)
            lines.append(f"KNOWN-FINDING: property={pid} {key} :: "
                         f"{known[key]['what']} (seen {v['count']}x)")
            continue
        newviol += 1
        rdir.mkdir(parents=True, exist_ok=True)
        rp = rdir / (safe(key) + ".json")
        f0 = v["first"][0] if v["first"] else {"pred": "?", "case": None, "detail": None}
        rp.write_text(json.dumps({"property": pid, "key": key, "pred": f0["pred"],
                                  "count": v["count"], "seed": a.seed,
                                  "tier": a.tier,
                                  "shard": f0.get("shard", 0),
                                  "nshards": f0.get("nshards", 1),
                                  "case": f0["case"], "detail": f0["detail"],
                                  "more": v["first"][1:]}, indent=1))
        det = json.dumps(f0["detail"])[:600]
        lines.append(f"violation key={key} count={v['count']} detail={det}")
        lines.append(f"VIOLATION property={pid} replay={rp}")
    for ln in lines:
        print(ln)
    cov = {
        "evaluations": int(m["evaluations"]),
        "distinct_nontrivial": nd,
        "distinct_capped_per_worker": bool(m["capped"]),
        "rule": mod.RULE,
        "samples": m["samples"],
        "exhaustive": (bool(getattr(mod, "EXHAUSTIVE", {}).get(a.tier, False))
                       if isinstance(getattr(mod, "EXHAUSTIVE", False), dict)
                       else bool(getattr(mod, "EXHAUSTIVE", False)))
        and bool(m["info"].get("exhaustive_complete", True)) and not inconclusive,
        "predicate_evaluations": dict(m["predicates"]),
        "input_classes": dict(m["classes"]),
        "events_by_api": dict(m["apis"]),
        "counters": dict(m["extra"]),
        "coverage_obligations": {k: int(v) for k, v in obl.items()},
        "workers": m["workers"],
        "known_findings_seen": seen_known,
        "violation_keys": sorted(m["violations"].keys()),
        "inconclusive": inconclusive,
        "notes": m["notes"][:20],
        "info": m["info"],
        "repo": str(hb.REPO),
        "source_digest": hb.source_digest(),
        "pyx_stale": hb.pyx_stale(),
        "extension_build": str(builddir),
    }
    if extra_cov:
        cov.update(extra_cov)
    ok = write_evidence(pid, a, mod, cov, [], inconclusive, t0,
                        {"violations": newviol})
    print(f"[{pid}] tier={a.tier} seed={a.seed} evaluations={m['evaluations']} "
          f"distinct_nontrivial={nd} predicates={sum(m['predicates'].values())} "
          f"violation_keys={len(m['violations'])} new={newviol} "
          f"known_seen={len(seen_known)} wall={time.time()-t0:.1f}s")
    if newviol:
        return 1
    if inconclusive or not ok:
        for i in inconclusive[:5]:
            print(f"INCONCLUSIVE property={pid} {i[-1200:]}")
        return 2
    return 0


def strict(o):
    """NaN / inf are not JSON: write them as strings in evidence files."""
    if isinstance(o, float):
        if o != o or o in (float("inf"), float("-inf")):
            return repr(o)
        return o
    if isinstance(o, dict):
        return {str(k): strict(v) for k, v in o.items()}
    if isinstance(o, (list, tuple)):
        return [strict(v) for v in o]
    return o


def write_evidence(pid, a, mod, cov, _unused, inconclusive, t0, extra):
    ev = {
        "property_id": pid,
        "tier": a.tier,
        "seed": int(a.seed),
        "level": "exploration",
        "coverage": cov or {"evaluations": 0, "distinct_nontrivial": 0,
                            "rule": getattr(mod, "RULE", ""), "samples": [],
                            "inconclusive": inconclusive},
        "assumptions": list(getattr(mod, "ASSUMPTIONS", [])),
        "wall_s": round(time.time() - t0, 2),
        "violations": int(extra.get("violations", 0)),
    }
    p = OUTROOT / "evidence" / f"{pid}.json"
    p.parent.mkdir(parents=True, exist_ok=True)
    p.write_text(json.dumps(strict(ev), indent=1, default=str, allow_nan=False))
    try:
        import jsonschema
        schema = json.loads((VERIF / "hyverif" / "EVIDENCE.schema.json").read_text())
        jsonschema.validate(json.loads(p.read_text()), schema)
        return True
    except ImportError:
        inconclusive.append("jsonschema not importable; evidence not validated")
        return True
    except Exception as e:
        inconclusive.append("evidence does not validate: " + str(e)[:300])
        return False


if __name__ == "__main__":
    sys.exit(main())
