"""Graph model of a flow-direction grid, written from the ESRI convention
   32 64 128
   16  0   1
    8  4   2
with its own direction table (independent of grid.FLOWDIRCODE)."""
import math

DIRS = {1: (0, 1), 2: (1, 1), 4: (1, 0), 8: (1, -1), 16: (0, -1), 32: (-1, -1),
        64: (-1, 0), 128: (-1, 1)}      # code -> (drow, dcol), rows count downwards
SQRT2 = math.sqrt(2.0)


def code_for_step(drow, dcol):
    """the code of the direction (drow, dcol), components in {-1, 0, 1}; 0 for no move"""
    for code, d in DIRS.items():
        if d == (drow, dcol):
            return code
    return 0


class FlowGraph:
    def __init__(self, codes):
        """codes: 2-D list / array of integer codes"""
        self.nrows = len(codes)
        self.ncols = len(codes[0])
        self.codes = [[int(v) for v in row] for row in codes]
        n = self.nrows * self.ncols
        self.n = n
        self.down = [self._down(c) for c in range(n)]
        self.up = [[] for _ in range(n)]
        for c, d in enumerate(self.down):
            if d >= 0:
                self.up[d].append(c)

    def _down(self, c):
        r, k = divmod(c, self.ncols)
        code = self.codes[r][k]
        if code == 0:
            return -2                      # sink
        if code not in DIRS:
            return -3                      # invalid code: any negative accepted
        dr, dk = DIRS[code]
        r2, k2 = r + dr, k + dk
        if 0 <= r2 < self.nrows and 0 <= k2 < self.ncols:
            return r2 * self.ncols + k2
        return -1                          # leaves the grid

    def step_length(self, c):
        code = self.codes[c // self.ncols][c % self.ncols]
        dr, dk = DIRS[code]
        return SQRT2 if dr != 0 and dk != 0 else 1.0

    def has_cycle(self):
        state = [0] * self.n
        for s in range(self.n):
            c = s
            path = []
            while c >= 0 and state[c] == 0:
                state[c] = 1
                path.append(c)
                c = self.down[c]
            cyc = c >= 0 and state[c] == 1
            for p in path:
                state[p] = 2
            if cyc:
                return True
        return False

    def on_cycle(self, c0):
        c = self.down[c0]
        seen = 0
        while c >= 0 and seen <= self.n:
            if c == c0:
                return True
            c = self.down[c]
            seen += 1
        return False

    def chain(self, c, limit=None):
        """downstream chain starting at c (inclusive) until a terminal or a repeat"""
        out = [c]
        seen = {c}
        limit = limit or self.n + 1
        while len(out) < limit:
            d = self.down[out[-1]]
            if d < 0 or d in seen:
                break
            out.append(d)
            seen.add(d)
        return out

    def area(self, outlet, inlets=()):
        """{outlet} + every non-inlet cell whose chain reaches the outlet with no
        inlet on it; empty when no such cell exists"""
        inl = set(int(i) for i in inlets)
        res = []
        for c in range(self.n):
            if c == outlet or c in inl:
                continue
            cur = c
            seen = set()
            ok = False
            while True:
                d = self.down[cur]
                if d < 0 or d in seen:
                    break
                if d == outlet:
                    ok = True
                    break
                if d in inl:
                    break
                seen.add(d)
                cur = d
            if ok:
                res.append(c)
        if not res:
            return set()
        return set(res) | {outlet}

    def pathlength(self, c, outlet):
        """sum of step lengths from c down to the outlet (None if not reached)"""
        total = 0.0
        cur = c
        seen = set()
        while cur != outlet:
            d = self.down[cur]
            if d < 0 or d in seen:
                return None
            total += self.step_length(cur)
            seen.add(d)
            cur = d
        return total

    def upstream_sets(self):
        """for an acyclic grid: cell -> set of all cells draining through it
        (including itself)"""
        res = [None] * self.n
        order = []
        indeg = [len(u) for u in self.up]
        stack = [c for c in range(self.n) if indeg[c] == 0]
        # process leaves first
        cnt = [0] * self.n
        while stack:
            c = stack.pop()
            order.append(c)
            d = self.down[c]
            if d >= 0:
                cnt[d] += 1
                if cnt[d] == indeg[d]:
                    stack.append(d)
        for c in order:
            s = {c}
            for u in self.up[c]:
                s |= res[u]
            res[c] = s
        return res
