"""Independent description of the 13 transforms (written from their published
formulas, not from the implementation): domains, analytic derivative, natural scale,
magnitude of the y-scale intermediates and distance to the nearest singularity or
branch switch. Used only to *filter* (conditioning) and to *generate* points; the
judged quantities always come from observed executions of the real code."""
import math

import numpy as np

EPSB = 1e-10          # branch / domain constants quoted in the property text
CLASSES = ["Identity", "Logit", "Log", "BoxCox2", "BoxCox1lam", "BoxCox1nu",
           "BoxCox2sym", "YeoJohnson", "Reciprocal", "Softmax", "Sinh", "LogSinh",
           "Manly"]
POWER_FAMILY = ["BoxCox2", "BoxCox1lam", "BoxCox1nu", "BoxCox2sym"]
# (the last entries of the branch lists are the smallest non-zero doubles: exponents a
# caller gets from an underflowing computation - non-zero, yet closer to 0 than any
# product with them can express)
LAM_BRANCH = [5e-324, -1e-319, 0.0, 1e-10, -1e-10, 1e-10 * (1 + 1e-7), 1e-10 * (1 - 1e-7),
              -1e-10 * (1 + 1e-7), 1.5e-10, -1.5e-10, 2e-10, 5e-10, 1e-9, -1e-9,
              1e-8, 1e-6, -1e-6, 1e-3, -1e-3]
LAM_REG = [0.2, 0.5, 1.0, 2.0, 3.0, -0.5, -1.0, -2.5, 0.01, 1.3,
           # simple fractions a caller types as such (roots: 1/3, 1/4 ...)
           1.0 / 3, 2.0 / 3, 0.25, 0.75, 1.0 / 6, 0.1, -1.0 / 3, 1.5, 1.0 / 7, 0.3, 0.125]
YJ_LAM = [1e-320, -5e-324, 0.0, 1e-9, -1e-9, 0.9e-8, 1.1e-8, 1e-7, -1e-7, 2.0, 2.0 + 1e-9, 2.0 - 1e-9,
          2.0 + 1e-7, 2.0 - 1e-7, 2.0 - 1.9e-5, 2.0 - 2.1e-5, 2.0 + 2.1e-5,
          1.0, 0.5, 1.5, -1.0, 3.0, 0.2, 2.5, -0.3, 1.0 / 3, 2.0 / 3, 0.25, 5.0 / 3]
MANLY_LAM = [0.0, 1e-10, 1e-3, -1e-3, 5.0, -5.0, 0.1, 1.0, -1.0, 2.5, -0.02, 0.3,
             1e-319, -3e-321, 5e-324, 1e-300, -1e-200]
BASES = [None, 2.0, 10.0, math.e, 1.5,
         # bases close to 1 (growth factors: 1 % per step), and large ones
         1.01, 1.001, 1.1, 100.0, 1e6]


def make(name, ctor, params):
    """build the real transform; returns (transform, actual parameter dict)"""
    from hydrodiy.stat import transform
    kw = dict(ctor)
    kw.update(params)
    t = transform.get_transform(name, **kw)
    actual = {str(n): float(v) for n, v in zip(t.params.names, t.params.values)}
    actual.update({str(n): float(v) for n, v in zip(t.constants.names,
                                                   t.constants.values)})
    return t, actual


def make_direct(name, ctor, params):
    """same, through the class constructor and item assignment"""
    from hydrodiy.stat import transform
    cls = getattr(transform, name)
    t = cls(**ctor)
    for k, v in params.items():
        t[k] = v
    actual = {str(n): float(v) for n, v in zip(t.params.names, t.params.values)}
    actual.update({str(n): float(v) for n, v in zip(t.constants.names,
                                                   t.constants.values)})
    return t, actual


def gen_config(rng, name, it):
    """(ctor options, parameter dict, branch tag)"""
    ctor, par, tag = {}, {}, "regular"
    if name in ("Log", "Reciprocal") or name in POWER_FAMILY:
        # (the lower limit of the shift is a constructor option: the default, larger
        # ones, and smaller ones down to none at all)
        mininu = [1e-10, 1e-10, 1e-3, 1.0, 0.0, 1e-14][int(rng.integers(0, 6))]
        if mininu == 0.0 and name in POWER_FAMILY:
            mininu = 1e-14
        ctor["mininu"] = mininu
        par["nu"] = float(max(mininu, 10.0 ** rng.uniform(-10, 3))) \
            if it % 5 else mininu
    if name in ("Log", "Reciprocal") or name in POWER_FAMILY:
        if it % 11 == 4:
            # round shift values a caller types in: exactly 1, 2, 0.5, 10
            par["nu"] = float(max(ctor["mininu"], [1.0, 2.0, 0.5, 10.0][(it // 11) % 4]))
    if name == "Log":
        ctor["base"] = BASES[it % len(BASES)]
        tag = "base=%s" % ("None" if ctor["base"] is None else "%g" % ctor["base"])
    if name in POWER_FAMILY:
        minilam = [0.0, -1.0, -3.0][int(rng.integers(0, 3))]
        ctor["minilam"] = minilam
        if it % 2 == 0:
            lam = LAM_BRANCH[(it // 2) % len(LAM_BRANCH)]
            tag = "lam-branch"
        else:
            lam = LAM_REG[(it // 2) % len(LAM_REG)]
        if lam < minilam:
            ctor["minilam"] = -3.0
        par["lam"] = float(lam)
    if name == "Logit":
        par["lower"] = float([0.0, -1.0, 5.0, rng.normal() * 100][it % 4])
        par["logdelta"] = float([0.0, -10.0, 10.0, rng.uniform(-10, 10)][it % 4])
        if it % 6 == 5:
            # a narrow interval far from the origin (a level above a distant datum): the
            # upper bound lower + exp(logdelta) is rounded to the spacing of lower
            par["lower"], par["logdelta"] = [(1e9, -10.0), (2.0 ** 36, -6.0), (-3e11, -4.0),
                                             (5e14, 3.0), (1e6, -8.0)][(it // 6) % 5]
    if name == "YeoJohnson":
        lam = YJ_LAM[it % len(YJ_LAM)]
        par["lam"] = float(lam)
        par["nu"] = float([0.0, 0.5, -2.0, rng.normal() * 10][(it // 3) % 4])
        par["scale"] = float([1.0, 1e-5, 100.0, 10 ** rng.uniform(-5, 3)][(it // 5) % 4])
        if abs(lam) <= 1e-8 or abs(lam - 2) <= 2.0001e-5:
            tag = "lam-branch"
        if lam in (0.9e-8, 1.1e-8, 2.0 - 1.9e-5, 2.0 - 2.1e-5, 2.0 + 2.1e-5):
            tag = "lam-branch"
    if name == "Sinh":
        par["nu"] = float([0.0, 1.0, -50.0, rng.normal()][it % 4])
        par["scale"] = float([1.0, 1e-10, 1e4, 10 ** rng.uniform(-6, 4)][(it // 2) % 4])
    if name == "LogSinh":
        par["loga"] = float([-1.0, -20.0, 0.0, rng.uniform(-20, 0)][it % 4])
        par["logb"] = float([0.0, -5.0, 5.0, rng.uniform(-5, 5)][(it // 2) % 4])
        par["xmax"] = float(10.0 ** rng.integers(-3, 5))
    if name == "Manly":
        lam = MANLY_LAM[it % len(MANLY_LAM)]
        par["lam"] = float(lam)
        par["xmax"] = float(10.0 ** rng.integers(-3, 5))
        if abs(lam) <= 1e-9:
            tag = "lam-branch"
    return ctor, par, tag


# arrays assigned to a transform's parameter vector by make_values, by id of the
# transform: the caller goes on using (overwriting) them between forward and backward
CALLER_ARRAYS = {}


def make_values(name, ctor, params):
    """constructor, then whole-vector assignment of params / constants"""
    from hydrodiy.stat import transform
    cls = getattr(transform, name)
    t = cls(**ctor)
    for vec in (t.params, t.constants):
        if vec.nval == 0:
            continue
        vals = [params.get(str(n), float(v)) for n, v in zip(vec.names, vec.values)]
        if not any(v != v for v in vals):          # NaN constants stay unset
            # handed over as a float64 array that the caller keeps (see CALLER_ARRAYS)
            arr = np.array(vals, dtype=np.float64)
            vec.values = arr
            CALLER_ARRAYS.setdefault(id(t), []).append(arr)
        else:
            for n, v in zip(vec.names, vals):
                if v == v:
                    vec[str(n)] = v
    actual = {str(n): float(v) for n, v in zip(t.params.names, t.params.values)}
    actual.update({str(n): float(v) for n, v in zip(t.constants.names,
                                                   t.constants.values)})
    return t, actual


class Ref:
    """reference description of one configured transform"""

    def __init__(self, name, ctor, actual):
        self.name = name
        self.ctor = dict(ctor)
        self.p = dict(actual)
        p = self.p
        if name == "Log":
            self.bf = 1.0 if ctor.get("base") is None else math.log(ctor["base"])
        if name == "Logit":
            self.lower = p["lower"]
            self.delta = math.exp(p["logdelta"])
        if name == "LogSinh":
            self.a = math.exp(p["loga"])
            self.b = math.exp(p["logb"])

    # ---- natural scale of x --------------------------------------------------
    def scale_x(self):
        n, p = self.name, self.p
        if n in ("Log", "Reciprocal") or n in POWER_FAMILY:
            return p["nu"]
        if n == "Logit":
            return max(self.delta, abs(self.lower))
        if n == "YeoJohnson":
            return max(1.0, abs(p["nu"])) / p["scale"]
        if n == "Sinh":
            return max(abs(p["nu"]), 1.0 / p["scale"])
        if n in ("LogSinh", "Manly"):
            return p["xmax"]
        return 1.0

    def power_lam(self):
        return self.p["lam"]

    # ---- point generation ------------------------------------------------------
    def sample(self, rng, n, whole_domain=False):
        """_sample_base plus tight clusters (a few units in the last place apart) around
        the points where the *internal* variable of the formula takes a round value
        (0.01, 0.1, 1, 10 ...): the places where an implementation switches between an
        expansion and the closed form"""
        x = self._sample_base(rng, n, whole_domain)
        if x is None or self.name in ("Identity", "Softmax"):
            return x
        try:
            extra = self._round_clusters()
        except Exception:
            extra = None
        if extra is None or not len(extra):
            return x
        extra = extra[np.isfinite(extra)]
        k = max(1, len(extra) // 40)
        pick = extra[int(rng.integers(0, k))::k][:60]     # a manageable share per call
        return np.concatenate([x, pick])

    def _round_clusters(self):
        nm, p = self.name, self.p
        near = 1.0 + np.arange(-6, 7) * 2.0 ** -50
        pos = np.array([1e-3, 1e-2, 0.1, 0.25, 0.5, 1.0, 2.0, 5.0, 10.0, 20.0, 100.0])
        both = np.concatenate([pos, -pos])
        if nm == "LogSinh":
            w = np.outer(pos, near).ravel()
            x = (w - self.a) / self.b * p["xmax"]
            wa = self.a + self.b * (x / p["xmax"])
            return x[(wa >= 1e-4) & (wa <= 300) & (x / p["xmax"] > -self.a / self.b + EPSB)]
        if nm == "Logit":
            v = np.outer(np.array([1e-3, 1e-2, 0.1, 0.25, 0.5, 0.75, 0.9, 0.99]), near).ravel()
            x = self.lower + v * self.delta
            va = (x - self.lower) / ((self.lower + self.delta) - self.lower)
            return x[(va > 0) & (va < 1)]
        if nm in ("Log", "Reciprocal", "BoxCox2", "BoxCox1lam", "BoxCox1nu"):
            nu, lam = p["nu"], p.get("lam", 0.0)
            z = np.outer(pos, near).ravel()
            x = z - nu
            ok = x + nu > max(self.ctor.get("mininu", EPSB), 0) * (1 + 1e-9)
            if nm not in ("Log", "Reciprocal") and lam != 0:
                with np.errstate(all="ignore"):
                    ok &= np.abs(lam * np.log(np.where(ok, x + nu, 1.0))) <= 12.0
            return x[ok]
        if nm == "BoxCox2sym":
            nu, lam = p["nu"], p["lam"]
            z = np.outer(pos, near).ravel()
            x = np.concatenate([z - nu, -(z - nu)])
            # ... and both sides of 0 at distances down to the smallest doubles
            tiny = nu * 10.0 ** -np.arange(6.0, 40.0, 2.0)
            x = np.concatenate([x, tiny, -tiny, [5e-324, -5e-324, 1e-300, -1e-300]])
            x = x[np.abs(x) > 0]
            # (the domain of the Jacobian, as computed: |x| + nu above the mininu option)
            x = x[np.abs(x) + nu > max(self.ctor.get("mininu", EPSB), 0) * (1 + 1e-9)]
            with np.errstate(all="ignore"):
                ok = np.abs(lam * np.log(np.abs(x) + nu)) <= 12.0
            if abs(lam * math.log(nu)) > 13.8:
                return x[:0]
            return x[ok]
        if nm == "YeoJohnson":
            nu, sc, lam = p["nu"], p["scale"], p["lam"]
            w = np.outer(both, near).ravel()
            x = (w - nu) / sc
            wa = nu + x * sc
            ok = np.where(wa >= EPSB, np.abs(lam * np.log1p(np.abs(wa))) <= 12.0,
                          np.abs((2 - lam) * np.log1p(np.abs(wa))) <= 12.0)
            return x[ok]
        if nm == "Sinh":
            u = np.outer(both, near).ravel()
            return u / p["scale"] + p["nu"]
        if nm == "Manly":
            lam, xmax = p["lam"], p["xmax"]
            u = np.outer(both[np.abs(both) <= 20], near).ravel()
            x = u * xmax
            return x[np.abs(lam * u) <= 12.0]
        return None

    def _sample_base(self, rng, n, whole_domain=False):
        """x points inside the domain and the stated conditioning region. With
        whole_domain the shifted argument may lie anywhere in (0, inf), otherwise
        only where the Jacobian is defined (x + nu > mininu)"""
        nm, p = self.name, self.p
        if nm == "Identity":
            return rng.normal(size=n) * 10.0 ** rng.integers(-8, 9, size=n)
        if nm == "Logit":
            v = np.concatenate([rng.uniform(0, 1, size=n // 2),
                                10.0 ** rng.uniform(-12, 0, size=n // 4),
                                1 - 10.0 ** rng.uniform(-12, 0, size=n - n // 2 - n // 4)])
            x = self.lower + v * self.delta
            va = (x - self.lower) / ((self.lower + self.delta) - self.lower)
            return x[(va > 0) & (va < 1)]
        if nm in ("Log", "Reciprocal", "BoxCox2", "BoxCox1lam", "BoxCox1nu"):
            nu = p["nu"]
            lam = p.get("lam", 0.0)
            if nm == "Log":
                lz = rng.uniform(-100, 100, size=n)
            elif nm == "Reciprocal":
                lz = rng.uniform(-23, 23, size=n)
            else:
                lim = 13.8 / max(abs(lam), 13.8 / 100)
                lz = rng.uniform(-lim, lim, size=n)
            z = np.exp(lz)
            x = z - nu
            # mix in points near x = 0 and neighbours of representable values
            x[: n // 8] = nu * 10.0 ** rng.uniform(-8, 3, size=n // 8)
            if nm == "Reciprocal":
                # ... and far out, where the square of the shifted argument is no longer
                # a double while the derivative 1 / z^2 still is (z up to 1e158)
                x = np.concatenate([x, 10.0 ** rng.uniform(154.2, 158.0, size=max(2, n // 10))
                                    - nu])
            if whole_domain or nm == "Reciprocal":
                # (Reciprocal: forward and Jacobian share the domain x + nu > 0, whatever
                # the mininu option)
                lowz = np.exp(rng.uniform(math.log(1e-12), 0.0, size=n // 6)) * \
                    max(self.ctor.get("mininu", EPSB), 1e-12)
                x = np.concatenate([x, lowz - nu])
                x = x[x + nu > 0]
            else:
                x = x[x + nu > max(self.ctor.get("mininu", EPSB), 0) * (1 + 1e-9)]
            if nm != "Log" and nm != "Reciprocal" and lam != 0:
                x = x[np.abs(lam * np.log(x + nu)) <= 13.8]
            return x
        if nm == "BoxCox2sym":
            nu, lam = p["nu"], p["lam"]
            lim = 13.8 / max(abs(lam), 13.8 / 100)
            z = np.exp(rng.uniform(-lim, lim, size=n))
            x = (z - nu)
            x = np.where(x > 0, x, nu * 10.0 ** rng.uniform(-6, 3, size=n))
            x = x * rng.choice([-1.0, 1.0], size=n)
            ok = np.abs(lam * np.log(np.abs(x) + nu)) <= 13.8
            if abs(lam * math.log(nu)) > 13.8:
                return x[:0]
            return x[ok]
        if nm == "YeoJohnson":
            nu, sc, lam = p["nu"], p["scale"], p["lam"]
            lim1 = 13.8 / max(abs(lam), 13.8 / 50)
            lim2 = 13.8 / max(abs(2 - lam), 13.8 / 50)
            wp = np.expm1(rng.uniform(1e-6, lim1, size=n // 2))
            wn = -np.expm1(rng.uniform(1e-6, lim2, size=n - n // 2))
            w = np.concatenate([wp, wn, [0.0, 1e-10, 2e-10, -1e-10, 1e-9, -1e-9]])
            x = (w - nu) / sc
            wa = nu + x * sc
            ok = np.where(wa >= EPSB, np.abs(lam * np.log1p(np.abs(wa))) <= 13.8,
                          np.abs((2 - lam) * np.log1p(np.abs(wa))) <= 13.8)
            return x[ok]
        if nm == "Softmax":
            return None
        if nm == "Sinh":
            nu, sc = p["nu"], p["scale"]
            u = rng.choice([-1.0, 1.0], size=n) * 10.0 ** rng.uniform(-6, 8, size=n)
            # ... and both far tails, up to where u * u is still a finite double
            k = max(2, n // 10)
            u[:k] = rng.choice([-1.0, 1.0], size=k) * 10.0 ** rng.uniform(100, 153, size=k)
            # ... and beyond, to the last decades of the number line
            u[k:k + 3] = rng.choice([-1.0, 1.0], size=3) * 10.0 ** rng.uniform(155, 307.9,
                                                                               size=3)
            u[k + 3] = 1.7e308 * rng.choice([-1.0, 1.0])
            with np.errstate(all="ignore"):
                x = u / sc + nu
            return x[np.isfinite(x)]
        if nm == "LogSinh":
            # (w beyond 710 is where sinh itself overflows: the transform is linear
            # there and must stay finite)
            w = np.concatenate([10.0 ** rng.uniform(-4, 4, size=n // 2),
                                rng.uniform(1e-4, 30, size=n - n // 2)])
            x = (w - self.a) / self.b * p["xmax"]
            wa = self.a + self.b * (x / p["xmax"])
            ok = (wa >= 1e-4) & (x / p["xmax"] > -self.a / self.b + EPSB)
            return x[ok]
        if nm == "Manly":
            lam, xmax = p["lam"], p["xmax"]
            lim = 13.8 / max(abs(lam), 13.8 / 50)
            u = rng.uniform(-lim, lim, size=n)
            u[: n // 6] = rng.choice([-1, 1], size=n // 6) * \
                10.0 ** rng.uniform(-6, 0, size=n // 6)
            return u * xmax
        raise ValueError(nm)

    def in_region(self):
        """is this parameter vector inside the stated conditioning region?"""
        if self.name == "Manly":
            lam = self.p["lam"]
            return lam == 0 or abs(lam) >= 1e-3
        return True

    # ---- analytic derivative and magnitudes (own formulas) ---------------------
    def deriv(self, x):
        nm, p = self.name, self.p
        x = np.asarray(x, dtype=float)
        with np.errstate(all="ignore"):
            if nm == "Identity":
                return np.ones_like(x)
            if nm == "Logit":
                v = (x - self.lower) / self.delta
                return 1.0 / (self.delta * v * (1 - v))
            if nm == "Log":
                return 1.0 / ((x + p["nu"]) * self.bf)
            if nm in ("BoxCox2", "BoxCox1lam", "BoxCox1nu"):
                return np.exp((p["lam"] - 1) * np.log(x + p["nu"]))
            if nm == "BoxCox2sym":
                return np.exp((p["lam"] - 1) * np.log(np.abs(x) + p["nu"]))
            if nm == "YeoJohnson":
                w = p["nu"] + x * p["scale"]
                lam = p["lam"]
                return p["scale"] * np.where(w >= EPSB,
                                             np.exp((lam - 1) * np.log1p(np.abs(w))),
                                             np.exp((1 - lam) * np.log1p(np.abs(w))))
            if nm == "Reciprocal":
                return 1.0 / (x + p["nu"]) / (x + p["nu"])     # (no overflow of z * z)
            if nm == "Sinh":
                u = (x - p["nu"]) * p["scale"]
                return p["scale"] / np.hypot(1.0, u)        # (no overflow of u * u)
            if nm == "LogSinh":
                w = self.a + self.b * x / p["xmax"]
                return 1.0 / (np.tanh(w) * p["xmax"])
            if nm == "Manly":
                return np.exp(p["lam"] * x / p["xmax"]) / p["xmax"]
        raise ValueError(nm)

    def ymag(self, x, y):
        """magnitude of the largest y-scale intermediate of a textbook evaluation"""
        nm, p = self.name, self.p
        x = np.asarray(x, dtype=float)
        ay = np.abs(np.asarray(y, dtype=float))
        with np.errstate(all="ignore"):
            if nm == "BoxCox2sym":
                lam, nu = p["lam"], p["nu"]
                if abs(lam) > EPSB:
                    y0 = abs((nu ** lam - 1) / lam)
                else:
                    y0 = abs(math.log(nu))
                return ay + 2 * y0
            if nm == "LogSinh":
                w = self.a + self.b * x / p["xmax"]
                return (np.abs(w) + np.abs(np.log(-np.expm1(-2 * w) / 2))) / self.b
            if nm == "Logit":
                return np.maximum(ay, 1.0)
        return ay

    def fmag(self, x, y):
        """absolute rounding error of a careful float64 evaluation of forward(x),
        in units of eps (used to decide whether a finite-difference stencil can
        be trusted; depends on forward's formula only)"""
        nm, p = self.name, self.p
        x = np.asarray(x, dtype=float)
        ay = np.abs(np.asarray(y, dtype=float))
        with np.errstate(all="ignore"):
            if nm == "Logit":
                v = (x - self.lower) / self.delta
                mx = np.maximum(np.abs(x), abs(self.lower))
                # (x - lower is exact when the two lie within a factor 2 of each other -
                # Sterbenz: only its result is then subject to later rounding)
                st = (x * self.lower > 0) & (np.abs(x) <= 2 * abs(self.lower)) & \
                    (abs(self.lower) <= 2 * np.abs(x))
                mx = np.where(st, np.abs(x - self.lower), mx)
                return ay + 1.0 / v + 1.0 / (1 - v) + mx / (self.delta * v * (1 - v))
            if nm == "Log":
                z = x + p["nu"]
                return ay + np.maximum(np.abs(x), p["nu"]) / (z * abs(self.bf))
            if nm in ("BoxCox2", "BoxCox1lam", "BoxCox1nu", "BoxCox2sym"):
                nu, lam = p["nu"], p["lam"]
                xa = np.abs(x) if nm == "BoxCox2sym" else x
                z = xa + nu
                zl = np.exp(lam * np.log(z))
                m = ay + zl * (np.maximum(np.abs(xa), nu) / z + np.abs(np.log(z)))
                if nm == "BoxCox2sym":
                    y0 = abs(math.expm1(lam * math.log(nu)) / lam) if abs(lam) > EPSB \
                        else abs(math.log(nu))
                    m = m + 2 * y0 + nu ** lam * (1 + abs(math.log(nu)))
                return m
            if nm == "YeoJohnson":
                nu, sc, lam = p["nu"], p["scale"], p["lam"]
                w = nu + x * sc
                mw = np.maximum(abs(nu), np.abs(x * sc))
                aw = np.abs(w)
                pos = w >= EPSB
                lp = np.where(pos, lam, 2 - lam)
                close = np.where(pos, abs(lam) <= 1e-8, abs(lam - 2) <= 2.0001e-5)
                pw = np.exp(lp * np.log1p(aw))
                m_pow = np.maximum(pw, 1.0) / np.maximum(np.abs(lp), 1e-300) + \
                    pw / (1 + aw) * mw
                m_log = 1.0 + mw / (1 + aw)
                return ay + np.where(close, m_log, m_pow)
            if nm == "Reciprocal":
                z = x + p["nu"]
                return ay + np.maximum(np.abs(x), p["nu"]) / z ** 2
            if nm == "Sinh":
                u = (x - p["nu"]) * p["scale"]
                return ay + np.maximum(np.abs(x), abs(p["nu"])) * p["scale"] / \
                    np.sqrt(1 + u * u)
            if nm == "LogSinh":
                w = self.a + self.b * x / p["xmax"]
                e = -np.expm1(-2 * w)
                return (np.abs(w) + np.abs(np.log(e / 2)) + 1.0 / e +
                        np.maximum(self.a, self.b * np.abs(x) / p["xmax"]) /
                        np.tanh(w)) / self.b
            if nm == "Manly":
                lam = p["lam"]
                if abs(lam) > EPSB:
                    return ay + np.maximum(np.exp(lam * x / p["xmax"]), 1.0) / abs(lam)
                return ay
        return ay

    def branch_distance(self, x):
        """distance (in x units) to the nearest singularity / branch switch"""
        nm, p = self.name, self.p
        x = np.asarray(x, dtype=float)
        if nm == "Reciprocal":
            return x + p["nu"]
        if nm in ("Log", "BoxCox2", "BoxCox1lam", "BoxCox1nu"):
            return x + p["nu"] - self.ctor.get("mininu", EPSB)
        if nm == "BoxCox2sym":
            return np.abs(x)
        if nm == "Logit":
            # the Jacobian is only defined EPS inside the bounds
            return np.minimum(x - self.lower, self.lower + self.delta - x) - EPSB
        if nm == "YeoJohnson":
            w = p["nu"] + x * p["scale"]
            return np.abs(w - EPSB) / p["scale"]
        if nm == "LogSinh":
            w = self.a + self.b * x / p["xmax"]
            return (w - self.b * EPSB) * p["xmax"] / self.b
        if nm == "Sinh":
            return np.maximum(np.abs(x - p["nu"]), 1.0 / p["scale"])
        if nm == "Manly":
            lam = abs(p["lam"])
            return np.maximum(np.abs(x), p["xmax"] / max(lam, 1e-3))
        return np.maximum(np.abs(x), 1.0)
