"""Exact (rational) grid geometry reference written from the property text:
cells are numbered row by row from the top-left corner; cell2coord is the centre."""
import math
from fractions import Fraction


class Geom:
    def __init__(self, nrows, ncols, xll, yll, csz):
        self.nrows, self.ncols = int(nrows), int(ncols)
        self.xll, self.yll, self.csz = float(xll), float(yll), float(csz)
        self.fx, self.fy, self.fc = Fraction(self.xll), Fraction(self.yll), \
            Fraction(self.csz)

    @property
    def ncells(self):
        return self.nrows * self.ncols

    def rowcol(self, c):
        return c // self.ncols, c % self.ncols

    def cell(self, row, col):
        if 0 <= row < self.nrows and 0 <= col < self.ncols:
            return row * self.ncols + col
        return -1

    def centre(self, c):
        """exact centre as Fractions"""
        r, k = self.rowcol(c)
        x = self.fx + self.fc * (Fraction(k) + Fraction(1, 2))
        y = self.fy + self.fc * (Fraction(self.nrows - 1 - r) + Fraction(1, 2))
        return x, y

    def locate(self, x, y):
        """exact cell of a point (Fractions or floats): (cell or -1, distance to the
        nearest cell edge / extent edge in units of the cell size)"""
        tx = (Fraction(x) - self.fx) / self.fc
        ty = (Fraction(y) - self.fy) / self.fc
        kx, ky = math.floor(tx), math.floor(ty)
        # distance to the nearest grid line
        dx = min(tx - kx, kx + 1 - tx)
        dy = min(ty - ky, ky + 1 - ty)
        inside = 0 <= kx < self.ncols and 0 <= ky < self.nrows
        if inside:
            return (self.nrows - 1 - ky) * self.ncols + kx, float(min(dx, dy))
        # outside: distance to the extent
        ox = max(-tx, tx - self.ncols, 0)
        oy = max(-ty, ty - self.nrows, 0)
        return -1, float(max(ox, oy))

    def neighbours(self, c):
        """3x3 neighbourhood, centre = -1"""
        r, k = self.rowcol(c)
        out = []
        for dr in (-1, 0, 1):
            for dk in (-1, 0, 1):
                if dr == 0 and dk == 0:
                    out.append(-1)
                else:
                    out.append(self.cell(r + dr, k + dk))
        return out
