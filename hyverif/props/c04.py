"""C04 - deterministic and categorical skill scores equal their definitions.

Monitor: definitional oracle (fsum / exact rationals) on every observed return value
of metrics.bias / nse / kge / corr / confusion_matrix / binary, plus metamorphic
relations between observed executions."""
import itertools
import math
import warnings
from fractions import Fraction

import numpy as np

from hyverif.core import digest, same_result, size_edges

ID = "C04"
SHARDS = {"quick": 8, "thorough": 16}
BUDGET = {"quick": 300, "thorough": 1800}
RULE = ("series of length 2..500 (random, lognormal / normal / lattice values), "
        "x bias types x corr types x stat x transforms {Identity, Log, BoxCox2, "
        "Reciprocal, Sinh} at random admissible parameters x excludenull with "
        "NaN / +-inf scattered in either series and values the transform maps to "
        "NaN; category series over 2..6 categories (ncat inferred / given); ALL "
        "2x2 tables with counts 1..7 (2401, exhaustive) plus random large counts. "
        "Cases whose transformed observations have |mean| or std within 1e-6 "
        "(relative) of zero are executed but not judged. Non-trivial: finite score "
        "not in {0, 1}; distinct by digest of inputs and options.")
ASSUMPTIONS = [
    "trans.forward is taken as given (C01/C02 judge it); the oracle evaluates the "
    "textbook formula on trans.forward(obs), trans.forward(sim) with math.fsum",
    "tolerance 1e-9 x conditioning factor (1 + |mean|/std of the transformed "
    "observations)",
    "inferred ncat is only judged when every category 0..K-1 occurs in at least one "
    "series (a category absent from both is passed explicitly via ncat)",
    "KGE uses the 2009 formulation (ratio of standard deviations, any common ddof)",
]
OBLIGATIONS = {"size-edge": 20, "order:obs-sorted": 10, "order:opposite": 10, "order:constant-sim": 10, "order:sim-high-level": 10, "order:sim-mean-zero": 5,
               "bias:standard": 50, "bias:normalised": 50, "bias:log": 50,
               "nse": 50, "kge": 50, "corr:Pearson:mean": 30,
               "corr:Pearson:median": 30, "corr:Spearman:mean": 30,
               "corr:Spearman:median": 30, "excludenull:nan": 30, "corr:some-members-missing": 20, "corr:one-member-infinite": 20, "excludenull:huge-complete-pair": 30,
               "excludenull:inf": 30, "excludenull:transform-nan": 20, "excludenull:corr": 10,
               "trans:Log": 20, "trans:BoxCox2": 20, "trans:Reciprocal": 20,
               "trans:Sinh": 20, "perfect": 30, "meansim": 20,
               "cm:inferred": 30, "cm:given": 30, "cm:absent-category": 20,
               "binary:theta<1": 20, "binary:theta=1": 20, "binary:theta>1": 20,
               "binary:large": 20}


def M():
    from hydrodiy.stat import metrics
    return metrics


def T():
    from hydrodiy.stat import transform
    return transform


# ----------------------------------------------------------------- oracles ----
def fmean(a):
    return math.fsum(a) / len(a)


def ref_bias(to, ts, typ):
    mo, ms = fmean(to), fmean(ts)
    if typ == "standard":
        return (ms - mo) / mo
    if typ == "normalised":
        return (ms - mo) / (ms + mo)
    if ms > 1e-10 and mo > 1e-10:
        return math.log(ms) - math.log(mo)
    return float("nan")


def ref_nse(to, ts):
    mo = fmean(to)
    errs = math.fsum((s - o) ** 2 for s, o in zip(ts, to))
    erro = math.fsum((o - mo) ** 2 for o in to)
    return 1 - errs / erro


def ref_pearson(a, b):
    ma, mb = fmean(a), fmean(b)
    sab = math.fsum((x - ma) * (y - mb) for x, y in zip(a, b))
    saa = math.fsum((x - ma) ** 2 for x in a)
    sbb = math.fsum((y - mb) ** 2 for y in b)
    return sab / math.sqrt(saa * sbb)


def midranks(a):
    a = np.asarray(a, dtype=float)
    order = np.argsort(a, kind="mergesort")
    r = np.empty(len(a))
    i = 0
    s = a[order]
    while i < len(a):
        j = i
        while j + 1 < len(a) and s[j + 1] == s[i]:
            j += 1
        r[order[i:j + 1]] = (i + j) / 2 + 1
        i = j + 1
    return r


def ref_kge(to, ts):
    mo, ms = fmean(to), fmean(ts)
    so = math.sqrt(math.fsum((o - mo) ** 2 for o in to) / len(to))
    ss = math.sqrt(math.fsum((s - ms) ** 2 for s in ts) / len(ts))
    r = ref_pearson(to, ts)
    return 1 - math.sqrt((1 - ms / mo) ** 2 + (1 - ss / so) ** 2 + (1 - r) ** 2)


def cond(to):
    """conditioning factor of mean/variance based scores"""
    to = np.asarray(to, dtype=float)
    mo = abs(fmean(to.tolist()))
    so = float(np.std(to))
    scale = float(np.max(np.abs(to))) if len(to) else 0.0
    if not (math.isfinite(mo) and math.isfinite(so)) or scale == 0:
        return None
    if mo < 1e-6 * scale or so < 1e-6 * scale:
        return None
    return 1 + mo / so + scale / mo


def eq(a, b, tol):
    if a is None or b is None or isinstance(a, Exception) or isinstance(b, Exception):
        return False
    a, b = float(a), float(b)
    if math.isnan(a) or math.isnan(b):
        return math.isnan(a) and math.isnan(b)
    if math.isinf(a) or math.isinf(b):
        return a == b
    return abs(a - b) <= tol * max(1.0, abs(a), abs(b))


# -------------------------------------------------------------- generators ----
def gen_transform(rng, positive):
    tr = T()
    names = ["Identity", "Log", "BoxCox2", "Reciprocal", "Sinh"]
    if not positive:
        names = ["Identity", "Sinh"]
    nm = names[int(rng.integers(0, len(names)))]
    kw = {}
    if nm == "Log":
        kw = {"nu": float(10 ** rng.uniform(-3, 1))}
    elif nm == "BoxCox2":
        lam = [0.0, 0.2, 0.5, 1.0, float(rng.uniform(0.05, 1.5))][int(rng.integers(0, 5))]
        kw = {"nu": float(10 ** rng.uniform(-3, 1)), "lam": lam}
    elif nm == "Reciprocal":
        kw = {"nu": float(10 ** rng.uniform(-2, 1))}
    elif nm == "Sinh":
        kw = {"nu": float(rng.normal()), "scale": float(10 ** rng.uniform(-2, 1))}
    return nm, kw


def make_trans(nm, kw):
    return T().get_transform(nm, **kw)


def gen_series(rng, n, positive):
    k = int(rng.integers(0, 4))
    if positive:
        if k == 0:
            obs = np.exp(rng.normal(size=n) * rng.uniform(0.2, 1.5))
        elif k == 1:
            obs = rng.integers(1, 40, size=n) / 4.0
        elif k == 2:
            obs = rng.gamma(2.0, 3.0, size=n) + 0.01
        else:
            obs = np.abs(rng.normal(size=n)) * 10 ** rng.uniform(-2, 3) + 1e-3
        sim = obs * np.exp(rng.normal(size=n) * rng.uniform(0.01, 0.8)) * \
            rng.uniform(0.5, 1.5)
    elif k == 3:
        # a high level with a small spread (stage heights above a datum, reservoir
        # levels): std / |mean| between 3e-6 and 1e-4
        loc = float(2.0 ** rng.integers(10, 23)) * float(rng.choice([-1, 1]))
        sd = abs(loc) * 10 ** rng.uniform(-5.5, -4)
        obs = loc + rng.normal(size=n) * sd
        sim = obs + rng.normal(size=n) * sd * rng.uniform(0.05, 1.0)
        return obs.astype(np.float64), sim.astype(np.float64)
    else:
        loc = rng.normal() * 5
        obs = rng.normal(size=n) * rng.uniform(0.5, 5) + loc
        if k == 1:
            obs = np.round(obs * 4) / 4
        sim = obs + rng.normal(size=n) * rng.uniform(0.01, 3) + rng.normal() * 0.5
    if n >= 2 and np.std(obs) == 0:
        obs[0] += 1.0
    return obs.astype(np.float64), sim.astype(np.float64)


# ------------------------------------------------------------ score checks ----
def call(fn, *a, **k):
    with warnings.catch_warnings():
        warnings.simplefilter("ignore")
        try:
            with np.errstate(all="ignore"):
                return fn(*a, **k)
        except Exception as e:  # noqa
            return e


def run_scores_case(ctx, case):
    m = M()
    obs = np.asarray(case["obs"], dtype=np.float64)
    sim = np.asarray(case["sim"], dtype=np.float64)
    tnm, tkw = case["trans"]
    trans = make_trans(tnm, tkw)
    ctx.tag("trans:" + tnm)
    ctx.evaluated()
    with np.errstate(all="ignore"):
        to = np.asarray(trans.forward(obs), dtype=float)
        ts = np.asarray(trans.forward(sim), dtype=float)
    ok = np.isfinite(to) & np.isfinite(ts)
    excl = case.get("excludenull", False)
    if excl and len(obs) % 2:
        excl = np.bool_(True)            # the flag as numpy hands it out
    if excl:
        cls = case.get("nullclass")
        if cls:
            ctx.tag("excludenull:" + cls)
        tov, tsv = to[ok], ts[ok]
    else:
        if not ok.all():
            # without excludenull a missing value in either transformed series makes
            # every mean / sum of the definitions missing: the scores are NaN, never a
            # number computed from part of the data
            if not (np.isinf(to).any() or np.isinf(ts).any()) and len(obs) >= 2 \
                    and cond(to[np.isfinite(to)]) is not None:
                ctx.tag("nan-without-excludenull")
                outs = {"nse": call(m.nse, obs, sim, trans, False),
                        "kge": call(m.kge, obs, sim, trans, False)}
                for typ in ("standard", "normalised", "log"):
                    outs["bias-" + typ] = call(m.bias, obs, sim, trans, False, typ)
                ctx.api("scores", 5)
                bad = {k: repr(v) for k, v in outs.items()
                       if not (isinstance(v, float) and math.isnan(v))}
                ctx.check("scores.nan-propagates", not bad,
                          "scores|number-returned-for-series-with-missing-values", case,
                          lambda: {"not_nan": bad,
                                   "nan_in_obs": bool(np.isnan(to).any()),
                                   "nan_in_sim": bool(np.isnan(ts).any())})
            return
        tov, tsv = to, ts
    if len(tov) < 2:
        return
    c = cond(tov)
    if c is None:
        ctx.extra["scores.skipped-degenerate"] += 1
        return
    # a two-pass evaluation of the definitions loses about eps x c (c = conditioning of
    # the centred sums); 1e-12 x c leaves a factor of several thousand for the order of
    # summation while exposing one-pass formulas, whose error grows like eps x c^2
    tol = 1e-12 * c
    tl, sl = tov.tolist(), tsv.tolist()
    base = {k: case[k] for k in ("trans", "excludenull")}
    nontriv = False

    # ---- bias
    for typ in ("standard", "normalised", "log"):
        ctx.tag("bias:" + typ)
        ctx.api("bias")
        from hyverif.core import runtime_str as _rs
        got = call(m.bias, obs, sim, trans, excl, _rs(typ, len(obs)) if len(obs) % 2 else typ)
        ref = ref_bias(tl, sl, typ)
        if typ == "normalised" and abs(fmean(sl) + fmean(tl)) < 1e-6 * c:
            continue
        ctx.check("bias." + typ, eq(got, ref, tol * (1 + abs(ref))),
                  f"bias|{typ}|definition" + ("|excludenull" if excl else ""), case,
                  lambda: {"got": repr(got), "ref": ref, **base})
        nontriv |= isinstance(got, float) and math.isfinite(got) and got not in (0, 1)
    # ---- nse
    ctx.tag("nse")
    ctx.api("nse")
    got = call(m.nse, obs, sim, trans, excl)
    ref = ref_nse(tl, sl)
    ctx.check("nse.definition", eq(got, ref, tol * (1 + abs(ref))),
              "nse|definition" + ("|excludenull" if excl else ""), case,
              lambda: {"got": repr(got), "ref": ref, **base})
    ctx.check("nse.le1", not isinstance(got, Exception) and
              (math.isnan(got) or got <= 1 + 1e-12), "nse|exceeds-1", case,
              lambda: {"got": repr(got)})
    # ---- kge
    ctx.tag("kge")
    ctx.api("kge")
    got = call(m.kge, obs, sim, trans, excl)
    ss = float(np.std(tsv))
    ms_ = abs(fmean(sl))
    # judged whenever the spread of the simulation is well above its rounding level
    # (mean / std up to 1e11), with a tolerance that follows that conditioning
    if ss > 1e-11 * max(1e-300, float(np.max(np.abs(tsv)))) and ss > 1e-9:
        ref = ref_kge(tl, sl)
        cs = cond(tsv) or (1 + ms_ / ss)
        ctx.check("kge.definition", eq(got, ref, 1e-12 * (c + cs) * (1 + abs(ref))),
                  "kge|definition" + ("|excludenull" if excl else ""), case,
                  lambda: {"got": repr(got), "ref": ref, **base})
        ctx.check("kge.le1", not isinstance(got, Exception) and
                  (math.isnan(got) or got <= 1 + 1e-12), "kge|exceeds-1", case,
                  lambda: {"got": repr(got)})
        nontriv |= isinstance(got, float) and math.isfinite(got) and got not in (0, 1)
    # ---- score(obs, sim, trans) == score(forward(obs), forward(sim), Identity)
    if not excl:
        ident = T().Identity()
        for nm_, fn in (("nse", m.nse), ("kge", m.kge), ("bias", m.bias)):
            a = call(fn, obs, sim, trans)
            b = call(fn, to, ts, ident)
            ctx.check(f"{nm_}.transform-commutes", eq(a, b, 1e-12),
                      f"{nm_}|transform-commutes", case,
                      lambda: {"with_trans": repr(a), "on_transformed": repr(b)})
    if nontriv:
        ctx.nontrivial("scores", obs, sim, repr(case["trans"]), excl)
    # ---- the same numbers in another memory layout / container / exact dtype
    prng = np.random.default_rng(digest(obs, sim) % 2 ** 32)

    # (a simulation whose spread is at its rounding level has no correlation: KGE is then
    # NaN or a number according to the order in which the values are summed - not judged)
    ss_ = float(np.std(tsv))
    kge_defined = ss_ > 1e-11 * max(1e-300, float(np.max(np.abs(tsv)))) and ss_ > 1e-9

    def allscores(o, s_):
        out = [call(m.nse, o, s_, trans, excl),
               call(m.kge, o, s_, trans, excl) if kge_defined else 0.0] + \
            [call(m.bias, o, s_, trans, excl, t_) for t_ in ("standard", "log")]
        for v in out:
            if isinstance(v, Exception):
                raise v
        return out
    try:
        basev = allscores(obs.copy(), sim.copy())
    except Exception:
        basev = None
    if basev is not None:
        # the documented shapes of a series: [n] vector or [n, 1] column, in any mix,
        # and single-column data frames. A shape may be refused; a number, if given, is
        # the score
        import pandas as _pd
        forms = {"col-col": (obs[:, None], sim[:, None]), "vec-col": (obs, sim[:, None]),
                 "col-vec": (obs[:, None], sim),
                 "frame-frame": (_pd.DataFrame({"obs": obs}), _pd.DataFrame({"sim": sim})),
                 "series-frame": (_pd.Series(obs), _pd.DataFrame({"sim": sim}))}
        fnm = list(forms)[(len(obs) + int(excl)) % len(forms)]
        fo, fs_ = forms[fnm]
        atol_ = 1e-10 * c * (1 + float(np.max(np.abs(tov))) + float(np.max(np.abs(tsv))))
        for j_, (nm_, f_) in enumerate((("nse", lambda o, s_: m.nse(o, s_, trans, excl)),
                                        ("kge", lambda o, s_: m.kge(o, s_, trans, excl)),
                                        ("bias", lambda o, s_: m.bias(o, s_, trans, excl,
                                                                      "standard")))):
            if nm_ == "kge" and not kge_defined:
                continue
            ctx.tag("documented-shape:" + fnm)
            ctx.api(nm_)
            got_ = call(f_, fo.copy(), fs_.copy())
            if isinstance(got_, Exception):
                ctx.extra[f"shape-refused:{nm_}:{fnm}"] += 1
                continue
            ctx.check("scores.documented-shape", same_result(got_, basev[j_], 1e-9, atol_),
                      f"{nm_}|result-depends-on-documented-shape|{fnm}", case,
                      lambda: {"as_vectors": repr(basev[j_]), "this_shape": repr(got_)})
    if basev is not None and len(obs) <= 60 and not excl:
        ctx.reuse("scores", allscores, [obs, sim], basev, case, rtol=1e-9,
                  atol=1e-10 * c * (1 + float(np.max(np.abs(tov))) +
                                    float(np.max(np.abs(tsv)))))
    if basev is not None:
        # (numpy sums strided data in another order: tolerance follows the magnitudes)
        ctx.presentations("scores", allscores, [obs, sim], basev, case, prng, rtol=1e-9,
                          n=1, atol=1e-10 * c * (1 + float(np.max(np.abs(tov))) +
                                                 float(np.max(np.abs(tsv)))))


def run_corr_case(ctx, case):
    m = M()
    obs = np.asarray(case["obs"], dtype=np.float64)
    ens = np.asarray(case["ens"], dtype=np.float64)
    tnm, tkw = case["trans"]
    trans = make_trans(tnm, tkw)
    ctx.evaluated()
    with np.errstate(all="ignore"):
        to = np.asarray(trans.forward(obs), dtype=float)
        te = np.asarray(trans.forward(ens), dtype=float)
    if not (np.isfinite(to).all() and np.isfinite(te).all()):
        return
    from hyverif.core import runtime_str
    for typ in ("Pearson", "Spearman"):
        # (the option as a string built at run time every other case)
        typ_arg = runtime_str(typ, len(obs)) if len(obs) % 2 else typ
        for stat in ("mean", "median"):
            ctx.evaluated()
            ctx.tag(f"corr:{typ}:{stat}")
            ctx.api("corr")
            got = call(m.corr, obs, ens, trans, False,
                       runtime_str(stat, len(obs) + 1) if len(obs) % 3 == 0 else stat,
                       typ_arg)
            tsim = te.mean(axis=1) if stat == "mean" else np.median(te, axis=1)
            c = cond(to)
            cs = cond(tsim) if np.std(tsim) > 0 else None
            if c is None or cs is None:
                ctx.extra["corr.skipped-degenerate"] += 1
                continue
            if typ == "Pearson":
                ref = ref_pearson(to.tolist(), tsim.tolist())
                tol = 1e-9 * (c + cs)
            else:
                # exact ties in the ensemble statistic are a rounding matter for
                # float means: only judge Spearman when ranks are unambiguous
                srt = np.sort(tsim)
                gaps = np.diff(srt)
                amb = np.any((gaps > 0) & (gaps < 1e-9 * max(1e-300, np.abs(srt).max())))
                if amb:
                    ctx.extra["corr.spearman-skipped-near-ties"] += 1
                    continue
                ref = ref_pearson(midranks(to).tolist(), midranks(tsim).tolist())
                tol = 1e-10
            ctx.check(f"corr.{typ}.{stat}", eq(got, ref, tol),
                      f"corr|{typ}|{stat}|definition", case,
                      lambda: {"got": repr(got), "ref": ref, "trans": case["trans"]})
            if isinstance(got, float) and math.isfinite(got) and got not in (0., 1.):
                ctx.nontrivial("corr", obs, ens, typ, stat, repr(case["trans"]))
    # excludenull: rows whose ensemble statistic is not finite after the transform
    if case.get("nullrows") is not None and len(obs) >= 6:
        ens2 = ens.copy()
        rows = np.asarray(case["nullrows"], dtype=int)
        ens2[rows, :] = case.get("nullvalue", np.nan)
        with np.errstate(all="ignore"):
            te2 = np.asarray(trans.forward(ens2), dtype=float)
        ts2 = np.nanmean(te2, axis=1) if np.isfinite(te2).any() else te2[:, 0]
        with warnings.catch_warnings():
            warnings.simplefilter("ignore")
            ts2 = np.array([np.nanmean(r) if np.isfinite(r).any() else np.nan
                            for r in te2])
        okr = np.isfinite(to) & np.isfinite(ts2)
        if okr.sum() >= 4 and (~okr).any() and np.std(ts2[okr]) > 0:
            ctx.tag("excludenull:corr")
            got = call(m.corr, obs, ens2, trans, True, "mean", "Pearson")
            ref = ref_pearson(to[okr].tolist(), ts2[okr].tolist())
            c = cond(to[okr])
            cs = cond(ts2[okr])
            if c is not None and cs is not None:
                ctx.check("corr.excludenull", eq(got, ref, 1e-9 * (c + cs)),
                          "corr|excludenull", case,
                          lambda: {"got": repr(got), "ref": ref,
                                   "rows_removed": int((~okr).sum())})
    # forecasts with *some* members missing or infinite: the ensemble statistic is that of
    # the members present (a mean with an infinite member is infinite: an incomplete
    # pair; a median may well be finite)
    if ens.shape[1] >= 2 and len(obs) >= 8 and case.get("nullrows") is not None and \
            (ctx.tier == "quick" or digest(obs) % 3 == 0):
        prs = np.random.default_rng(digest(obs, ens) % 2 ** 31 + 9)
        for what in ("some-members-missing", "one-member-infinite"):
            ens3 = ens.copy()
            rows3 = prs.choice(len(obs), size=max(2, len(obs) // 5), replace=False)
            for r_ in rows3:
                k_ = int(prs.integers(1, ens.shape[1]))
                cols_ = prs.choice(ens.shape[1], size=k_ if what.startswith("some") else 1,
                                   replace=False)
                ens3[r_, cols_] = np.nan if what.startswith("some") else \
                    [np.inf, -np.inf][int(prs.integers(0, 2))]
            with np.errstate(all="ignore"), warnings.catch_warnings():
                warnings.simplefilter("ignore")
                te3 = np.asarray(trans.forward(ens3), dtype=float)
                stats3 = {"mean": np.array([np.nanmean(r) if (~np.isnan(r)).any() else np.nan
                                            for r in te3]),
                          "median": np.array([np.nanmedian(r) if (~np.isnan(r)).any()
                                              else np.nan for r in te3])}
            if np.isnan(te3[~np.isnan(ens3)]).any():
                continue                    # (the transform itself made other gaps)
            for stat in ("mean", "median"):
                ts3 = stats3[stat]
                ok3 = np.isfinite(to) & np.isfinite(ts3)
                if ok3.sum() < 4 or np.std(ts3[ok3]) == 0:
                    continue
                c3, cs3 = cond(to[ok3]), cond(ts3[ok3])
                if c3 is None or cs3 is None:
                    continue
                ctx.tag("corr:" + what)
                ctx.api("corr")
                got3 = call(m.corr, obs, ens3, trans, True, stat, "Pearson")
                ref3 = ref_pearson(to[ok3].tolist(), ts3[ok3].tolist())
                ctx.check("corr.partial-rows", eq(got3, ref3, 1e-9 * (c3 + cs3)),
                          f"corr|excludenull|{what}|{stat}", case,
                          lambda: {"got": repr(got3), "ref": ref3,
                                   "rows_with_gaps": int(len(rows3)),
                                   "rows_kept": int(ok3.sum())})
                if not ok3.all():
                    # without the switch an incomplete pair makes the score missing
                    gotn = call(m.corr, obs, ens3, trans, False, stat, "Pearson")
                    ctx.check("corr.partial-rows-nan", isinstance(gotn, float) and
                              math.isnan(gotn),
                              f"corr|number-returned-with-an-incomplete-pair|{what}|{stat}",
                              case, lambda: {"got": repr(gotn),
                                             "incomplete_pairs": int((~ok3).sum())})
    # the same numbers in another memory layout / container / exact dtype
    prng = np.random.default_rng(digest(obs, ens) % 2 ** 32)

    def allcorr(o, e_):
        out = [call(m.corr, o, e_, trans, False, st_, ty_)
               for st_ in ("mean", "median") for ty_ in ("Pearson", "Spearman")]
        for v in out:
            if isinstance(v, Exception):
                raise v
        return out
    try:
        basev = allcorr(obs.copy(), ens.copy())
    except Exception:
        basev = None
    if basev is not None:
        ctx.presentations("corr", allcorr, [obs, ens], basev, case, prng, rtol=1e-9, n=1,
                          atol=1e-9 * ((cond(to) or 1e3) + 1))
    # commutes with the transform
    ident = T().Identity()
    a = call(m.corr, obs, ens, trans, False, "mean", "Pearson")
    b = call(m.corr, to, te, ident, False, "mean", "Pearson")
    ctx.check("corr.transform-commutes", eq(a, b, 1e-12), "corr|transform-commutes",
              case, lambda: {"with_trans": repr(a), "on_transformed": repr(b)})


def run_identities_case(ctx, case):
    """perfect simulation, mean simulation, invariances (Identity transform)"""
    m = M()
    obs = np.asarray(case["obs"], dtype=np.float64)
    sim = np.asarray(case["sim"], dtype=np.float64)
    tnm, tkw = case["trans"]
    trans = make_trans(tnm, tkw)
    ctx.evaluated()
    with np.errstate(all="ignore"):
        to = np.asarray(trans.forward(obs), dtype=float)
    if not np.isfinite(to).all():
        return
    c = cond(to)
    if c is None:
        return
    ctx.tag("perfect")
    for typ in ("standard", "normalised", "log"):
        got = call(m.bias, obs, obs.copy(), trans, False, typ)
        okv = isinstance(got, float) and (got == 0 or (typ == "log" and math.isnan(got)
                                                       and fmean(to.tolist()) <= 1e-10))
        ctx.check("perfect.bias", okv, f"bias|{typ}|perfect", case,
                  lambda: {"got": repr(got), "trans": case["trans"]})
    # the log bias is a difference of logarithms: observed and simulated series in very
    # different units (a small mean against a huge one) shift it by log(s2) - log(s1)
    if bool(np.all(obs > 0)) and bool(np.all(sim > 0)) and float(np.max(sim)) < 1e6 \
            and float(np.mean(obs)) > 1e-3 and float(np.mean(sim)) > 1e-3:
        ident_ = T().Identity()
        b0 = call(m.bias, obs, sim, ident_, False, "log")
        # (scales chosen so that no sum overflows - the largest simulated value times n
        # stays below 1e306 - and the observed mean stays above the library's own 1e-10
        # guard, while the quotient of the two means is beyond the largest double)
        s2a = 2.0 ** math.floor(math.log2(1e306 / (len(sim) * float(np.max(sim)))))
        s1a = 2.0 ** math.ceil(math.log2(4e-10 / float(np.mean(obs))))
        for s1, s2 in ((s1a, s2a), (2.0 ** -20, 2.0 ** 900), (2.0 ** 900, 2.0 ** -20)):
            ctx.tag("bias-log:units-far-apart")
            ctx.api("bias")
            got = call(m.bias, obs * s1, sim * s2, ident_, False, "log")
            exp = b0 + math.log(s2) - math.log(s1) if isinstance(b0, float) else None
            ctx.check("bias.log-separate-units", exp is not None and isinstance(got, float)
                      and abs(got - exp) <= 1e-9 * max(1.0, abs(exp)),
                      "bias|log|series-in-very-different-units", case,
                      lambda: {"got": repr(got), "expected": exp, "scales": [s1, s2]})
    got = call(m.nse, obs, obs.copy(), trans)
    ctx.check("perfect.nse", eq(got, 1.0, 1e-12), "nse|perfect", case,
              lambda: {"got": repr(got)})
    got = call(m.kge, obs, obs.copy(), trans)
    ctx.check("perfect.kge", eq(got, 1.0, 1e-12), "kge|perfect", case,
              lambda: {"got": repr(got)})
    got = call(m.corr, obs, obs.copy(), trans, False, "mean", "Pearson")
    ctx.check("perfect.corr", eq(got, 1.0, 1e-12), "corr|perfect", case,
              lambda: {"got": repr(got)})
    got = call(m.corr, obs, obs.copy(), trans, False, "median", "Spearman")
    ctx.check("perfect.corr-spearman", eq(got, 1.0, 1e-12), "corr|perfect-spearman",
              case, lambda: {"got": repr(got)})
    # simulating the observed mean scores NSE 0 (in transformed space)
    ident = T().Identity()
    ctx.tag("meansim")
    msim = np.full_like(to, fmean(to.tolist()))
    got = call(m.nse, to, msim, ident)
    ctx.check("meansim.nse0", isinstance(got, float) and abs(got) <= 1e-10 * c * c,
              "nse|mean-simulation", case, lambda: {"got": repr(got), "cond": c})
    # invariances under common maps (Identity transform; obs/sim as given)
    co = cond(obs)
    if co is None:
        return
    a = float(case["affine"][0])
    b = float(case["affine"][1])
    n0 = call(m.nse, obs, sim)
    n1 = call(m.nse, a * obs + b, a * sim + b)
    mag = 1 + abs(b) / (abs(a) * float(np.std(obs)))
    ctx.check("nse.affine-invariant", eq(n0, n1, 1e-12 * (co + mag) * (1 + abs(n0))),
              "nse|affine-invariance", case,
              lambda: {"base": repr(n0), "mapped": repr(n1), "a": a, "b": b})
    s = abs(a) if a != 0 else 2.0
    for nm_, fn, kw in (("bias", m.bias, {}), ("bias-normalised", m.bias,
                                               {"type": "normalised"}),
                        ("kge", m.kge, {})):
        if nm_ == "kge" and not float(np.std(sim)) > 1e-6 * float(np.max(np.abs(sim))):
            # a constant simulation has no correlation with anything: whether the
            # library's "standard deviation below 1e-10" guard fires is a rounding matter
            ctx.extra["kge.scale-invariance-skipped-constant-sim"] += 1
            continue
        k0 = call(fn, obs, sim, **kw)
        k1 = call(fn, s * obs, s * sim, **kw)
        ctx.check(f"{nm_}.scale-invariant", eq(k0, k1, 1e-11 * co),
                  f"{nm_}|scale-invariance", case,
                  lambda: {"base": repr(k0), "scaled": repr(k1), "factor": s})
    ctx.nontrivial("ident", obs, sim, a, b, repr(case["trans"]))


# --------------------------------------------------------- confusion matrix ----
def run_cm_case(ctx, case):
    m = M()
    obs = np.asarray(case["obs"], dtype=np.int64)
    sim = np.asarray(case["sim"], dtype=np.int64)
    ncat = case["ncat"]
    K = case["K"]
    ctx.evaluated()
    ctx.tag("cm:given" if ncat is not None else "cm:inferred")
    if case.get("absent"):
        ctx.tag("cm:absent-category")
    ctx.api("confusion_matrix")
    got = call(m.confusion_matrix, obs, sim, ncat)
    want = np.zeros((K, K), dtype=np.int64)
    for o, s in zip(obs, sim):
        want[o, s] += 1
    if isinstance(got, Exception):
        ctx.check("cm.counts", False, "confusion_matrix|raises", case,
                  {"exception": repr(got)})
        return
    arr = np.asarray(got)
    ok = arr.shape == (K, K) and np.array_equal(arr.astype(np.int64), want) and \
        arr.sum() == len(obs)
    ctx.check("cm.counts", bool(ok), "confusion_matrix|counts", case,
              lambda: {"got": arr.tolist(), "want": want.tolist()})
    try:
        lab = list(got.index) == list(range(K)) and list(got.columns) == list(range(K))
    except Exception:
        lab = True
    ctx.check("cm.labels", lab, "confusion_matrix|labels", case,
              lambda: {"index": list(got.index), "columns": list(got.columns)})
    if len(obs) >= 2:
        ctx.nontrivial("cm", obs, sim, ncat)
    if K == 2 and want.min() > 0:
        ctx.evaluated()
        check_binary(ctx, want, {"kind": "binary", "table": want.tolist()})


def run_cm_gap_case(ctx, case):
    """ncat inferred while a category (not the last one) occurs in neither series: the
    size of the table is then the library's choice, but every pair is still counted
    exactly once, at the row and column carrying its labels"""
    m = M()
    obs = np.asarray(case["obs"], dtype=np.int64)
    sim = np.asarray(case["sim"], dtype=np.int64)
    ctx.evaluated()
    ctx.tag("cm:inferred-with-a-gap-in-the-labels")
    ctx.api("confusion_matrix")
    got = call(m.confusion_matrix, obs, sim, None)
    if isinstance(got, Exception):
        ctx.check("cm.gap", False, "confusion_matrix|raises|gap-in-labels", case,
                  {"exception": repr(got)})
        return
    tot = float(np.asarray(got).sum())
    bad = None
    pairs = {}
    for o, s in zip(obs.tolist(), sim.tolist()):
        pairs[(o, s)] = pairs.get((o, s), 0) + 1
    for (o, s), k in pairs.items():
        try:
            v = float(got.loc[o, s])
        except Exception:
            v = None
        if v != k and bad is None:
            bad = (o, s, k, v)
    ctx.check("cm.gap", bad is None and tot == len(obs),
              "confusion_matrix|pairs-lost-when-a-category-is-absent-from-both-series",
              case, lambda: {"pair(obs,sim,count,in_table)": bad, "table_total": tot,
                             "n": int(len(obs)), "labels": [list(got.index),
                                                            list(got.columns)]})
    ctx.nontrivial("cmgap", obs, sim)


def check_binary(ctx, table, case):
    m = M()
    (TN, FP), (FN, TP) = [[int(v) for v in r] for r in np.asarray(table).tolist()]
    n = TN + FP + FN + TP
    ctx.api("binary")
    got = call(m.binary, np.array([[TN, FP], [FN, TP]]))
    if isinstance(got, Exception):
        ctx.check("binary.runs", False, "binary|raises", case, {"exc": repr(got)})
        return
    sc, _ = got
    F_ = Fraction
    theta = F_(TP * TN, FP * FN)
    cls = "binary:theta<1" if theta < 1 else ("binary:theta=1" if theta == 1
                                              else "binary:theta>1")
    ctx.tag(cls)
    want = {
        "truepos": TP, "falsepos": FP, "trueneg": TN, "falseneg": FN,
        "hitrate": float(F_(TP, TP + FN)),
        "falsealarm": float(F_(FP, FP + TN)),
        "precision": float(F_(TP, TP + FP)),
        "accuracy": float(F_(TP + TN, n)),
        "bias": float(F_(TP + FP, TP + FN)),
        "F1": float(F_(2 * TP, 2 * TP + FP + FN)),
        "MCC": (TP * TN - FP * FN) / math.sqrt((TP + FP) * (TP + FN) * (TN + FP)
                                               * (TN + FN)),
        "LOR": math.log(TP) + math.log(TN) - math.log(FP) - math.log(FN),
        "ORSS": float(F_(TP * TN - FP * FN, TP * TN + FP * FN)),
    }
    for k, w in want.items():
        g = sc.get(k)
        tol = 1e-12 if k != "LOR" else 1e-10
        okk = g is not None and eq(g, w, tol) if not (k == "LOR" and abs(w) < 1e-12) \
            else (g is not None and abs(float(g)) < 1e-9)
        ctx.check("binary." + k, bool(okk), f"binary|{k}|{cls.split(':')[1]}", case,
                  lambda: {"score": k, "got": repr(g), "want": w,
                           "table": [[TN, FP], [FN, TP]]})
    ctx.nontrivial("bin", TN, FP, FN, TP)
    # the table as a labelled data frame (what confusion_matrix and pandas.crosstab
    # return): the cells are taken by position, whatever the labels say
    import pandas as _pd
    labs = [["no flood", "flood"], ["below", "above"], [1, 0], [False, True], ["b", "a"],
            ["dry", "wet"], [0, 1], ["yes", "no"]][(TN + 3 * FP + 5 * FN + 7 * TP) % 8]
    ctx.tag("binary:labelled-frame")
    ctx.api("binary")
    gotf = call(m.binary, _pd.DataFrame([[TN, FP], [FN, TP]], index=labs, columns=labs))
    if isinstance(gotf, Exception):
        ctx.extra["binary-labelled-frame-refused"] += 1
    else:
        scf, _ = gotf
        badf = [k for k in want if not (scf.get(k) is not None and sc.get(k) is not None and
                                        (scf.get(k) == sc.get(k) or
                                         (scf.get(k) != scf.get(k) and sc.get(k) != sc.get(k))))]
        ctx.check("binary.labelled-frame", not badf,
                  "binary|result-depends-on-the-labels-of-the-table", case,
                  lambda: {"labels": labs, "scores_that_differ": badf[:5],
                           "table": [[TN, FP], [FN, TP]]})


# ------------------------------------------------------------------ driver ----
def run(ctx):
    rng = ctx.rng(1)
    nrep = 150 if ctx.tier == "quick" else 5000
    for it in range(nrep):
        if ctx.out_of_time():
            ctx.notes.append(f"score loop stopped at {it}")
            break
        positive = rng.random() < 0.7
        n = int(rng.integers(2, 30)) if rng.random() < 0.6 else int(rng.integers(2, 501))
        if it % 6 == 4:
            n = [2, 3, 4, 2][(it // 6) % 4]          # the smallest series
        elif it % 6 == 1:
            ed = size_edges(5, 20001 if ctx.tier == "quick" else 100001)
            n = ed[((it // 6) * ctx.nshards + ctx.shard) % len(ed)]
            ctx.tag("size-edge")
        obs, sim = gen_series(rng, n, positive)
        # special orders: sorted observations, simulation in the same / opposite order,
        # constant simulation
        sp = (it // 2) % 6
        if sp == 1:
            o_ = np.argsort(obs, kind="stable")
            obs, sim = obs[o_], sim[o_]
            ctx.tag("order:obs-sorted")
        elif sp == 2:
            obs, sim = np.sort(obs), np.sort(sim)[::-1].copy()
            ctx.tag("order:opposite")
        elif sp == 3:
            sim = np.full_like(sim, float(sim[0]))
            ctx.tag("order:constant-sim")
        elif sp == 5 and not positive:
            # a simulation whose mean is zero: a "dry" model (all zeros), or anomalies
            # centred on zero - the observations are what must be non-degenerate
            if (it // 12) % 2:
                sim = np.zeros_like(sim)
            else:
                sim = sim - sim.mean()
                sim[0] -= sim.sum()
            ctx.tag("order:sim-mean-zero")
        elif sp == 4:
            # a simulation sitting at a high level with a spread far below 1e-10 of
            # that level, yet far above rounding (a storage volume in m3, say)
            lev = float(10.0 ** rng.integers(6, 9))
            sim = lev + (sim - sim.mean()) / max(float(np.std(sim)), 1e-300) * \
                lev * 10 ** rng.uniform(-10.8, -10.1)
            positive = positive and bool(np.all(sim > 0))
            ctx.tag("order:sim-high-level")
        tnm, tkw = gen_transform(rng, positive)
        case = {"kind": "scores", "obs": obs, "sim": sim, "trans": [tnm, tkw],
                "excludenull": False}
        run_scores_case(ctx, case)
        if it % 60 == 0 and n <= 12:
            ctx.sample(case)
        # excludenull variants
        o2, s2 = obs.copy(), sim.copy()
        cls = ["nan", "inf", "transform-nan"][it % 3]
        k = max(1, n // 6)
        idx = rng.choice(n, size=min(k, n - 2) if n > 2 else 0, replace=False)
        if len(idx):
            if cls == "nan":
                o2[idx[: len(idx) // 2 + 1]] = np.nan
                s2[idx[len(idx) // 2:]] = np.nan
            elif cls == "inf":
                o2[idx[: len(idx) // 2 + 1]] = [np.inf, -np.inf][it % 2]
                s2[idx[len(idx) // 2:]] = [np.inf, -np.inf][(it // 2) % 2]
            else:
                if tnm in ("Log", "BoxCox2", "Reciprocal"):
                    s2[idx] = -abs(tkw.get("nu", 1.0)) - 1.0 - rng.random(len(idx))
                else:
                    s2[idx] = np.nan
                    cls = "nan"
            case2 = {"kind": "scores", "obs": o2, "sim": s2, "trans": [tnm, tkw],
                     "excludenull": True, "nullclass": cls}
            run_scores_case(ctx, case2)
            # the same gaps with the switch off, and gaps in one series only
            if cls != "inf":
                run_scores_case(ctx, dict(case2, excludenull=False))
            s3, o3 = sim.copy(), obs.copy()
            if it % 2:
                s3[idx] = np.nan
            else:
                o3[idx] = np.nan
            run_scores_case(ctx, {"kind": "scores", "obs": o3, "sim": s3,
                                  "trans": [tnm, tkw], "excludenull": False,
                                  "nullclass": "nan-one-series"})
            # "the score of the series with incomplete pairs removed", literally: the
            # same call on the complete pairs only gives the same answer - also when a
            # complete pair holds values near the top of the double range (one record
            # in tiny units), whose sum or product is not a double
            o4, s4 = o2.copy(), s2.copy()
            full = np.where(np.isfinite(o4) & np.isfinite(s4))[0]
            if cls != "transform-nan" and len(full) >= 3:
                jb = int(full[it % len(full)])
                sg = [1.0, -1.0][(it // 3) % 2] if not positive else 1.0
                o4[jb], s4[jb] = sg * [1.2e308, 0.95e308, 8e307][it % 3], \
                    sg * [0.9e308, 1.1e308, 1.7e308][it % 3]
                okp = np.isfinite(o4) & np.isfinite(s4)
                ctx.tag("excludenull:huge-complete-pair")
                m_ = M()
                idt = make_trans("Identity", {})
                pairs = []
                for typ in ("standard", "normalised", "log"):
                    pairs.append(("bias-" + typ,
                                  call(m_.bias, o4, s4, idt, True, typ),
                                  call(m_.bias, o4[okp], s4[okp], idt, False, typ)))
                pairs.append(("nse", call(m_.nse, o4, s4, idt, True),
                              call(m_.nse, o4[okp], s4[okp], idt, False)))
                pairs.append(("kge", call(m_.kge, o4, s4, idt, True),
                              call(m_.kge, o4[okp], s4[okp], idt, False)))
                pairs.append(("corr-Spearman", call(m_.corr, o4, s4[:, None], idt, True,
                                                    "mean", "Spearman"),
                              call(m_.corr, o4[okp], s4[okp][:, None], idt, False, "mean",
                                   "Spearman")))
                ctx.api("scores", 6)
                from hyverif.core import same_result as _same
                badp = {k: [repr(a), repr(b)] for k, a, b in pairs
                        if isinstance(a, Exception) or isinstance(b, Exception) or
                        not _same(a, b, 1e-12, 0.0)}
                ctx.check("scores.excludenull-equals-pairs-removed", not badp,
                          "scores|excludenull-differs-from-the-series-with-incomplete-pairs-removed",
                          {"kind": "scores", "obs": o4, "sim": s4, "trans": ["Identity", {}],
                           "excludenull": True, "nullclass": "huge-complete-pair"},
                          lambda: {"score: [with excludenull, on complete pairs]": badp})
        # clean data: excludenull must not change anything
        case3 = dict(case, excludenull=True)
        run_scores_case(ctx, case3)
        # corr
        p = int(rng.integers(1, 8))
        if positive:
            ens = obs[:, None] * np.exp(rng.normal(size=(n, p)) * 0.3)
        else:
            ens = obs[:, None] + rng.normal(size=(n, p)) * 1.5
        nullrows = rng.choice(n, size=max(1, n // 8), replace=False) if n >= 8 else None
        run_corr_case(ctx, {"kind": "corr", "obs": obs, "ens": ens,
                            "trans": [tnm, tkw], "nullrows": nullrows,
                            "nullvalue": [float("nan"), float("inf"),
                                          -1e6][it % 3]})
        # identities / invariances
        a = float(rng.choice([-3.0, -0.5, 0.25, 2.0, 7.5]))
        b = float(rng.normal() * 10)
        run_identities_case(ctx, {"kind": "ident", "obs": obs, "sim": sim,
                                  "trans": [tnm, tkw], "affine": [a, b]})
    # confusion matrices
    ncm = 150 if ctx.tier == "quick" else 5000
    for it in range(ncm):
        K = int(rng.integers(2, 7))
        n = int(rng.integers(1, 60))
        mode = it % 3
        po = rng.dirichlet(np.ones(K) * 0.6)
        ps = rng.dirichlet(np.ones(K) * 0.6)
        obs = rng.choice(K, size=n, p=po)
        sim = rng.choice(K, size=n, p=ps)
        absent = False
        if mode == 0:
            # inferred: every category must occur in at least one series
            present = set(obs.tolist()) | set(sim.tolist())
            K = max(present) + 1
            if present != set(range(K)) or K < 2:
                obs = np.concatenate([obs, np.arange(max(K, 2))])
                sim = np.concatenate([sim, np.arange(max(K, 2))[::-1]])
                K = max(K, 2)
            ncat = None
        else:
            ncat = K
            present = set(obs.tolist()) | set(sim.tolist())
            absent = present != set(range(K))
            if mode == 2 and K >= 3:
                # force a category absent from both series
                drop = int(rng.integers(0, K))
                obs = np.where(obs == drop, (drop + 1) % K, obs)
                sim = np.where(sim == drop, (drop + 1) % K, sim)
                absent = True
        run_cm_case(ctx, {"kind": "cm", "obs": obs, "sim": sim, "ncat": ncat, "K": K,
                          "absent": absent})
        if K >= 3 and it % 2:
            drop = int(rng.integers(0, K - 1))          # never the last category
            og = np.where(obs == drop, K - 1, obs)
            sg = np.where(sim == drop, (drop + 1) % K, sim)
            sg = np.where(sg == drop, K - 1, sg)
            og = np.concatenate([og, [K - 1]])
            sg = np.concatenate([sg, [K - 1 if drop != K - 2 else 0]])
            run_cm_gap_case(ctx, {"kind": "cmgap", "obs": og, "sim": sg})
    # binary: exhaustive 1..7 (sharded) + large random
    tables = list(itertools.product(range(1, 8), repeat=4))
    for i, t in enumerate(tables):
        if i % ctx.nshards != ctx.shard:
            continue
        ctx.evaluated()
        tb = [[t[0], t[1]], [t[2], t[3]]]
        check_binary(ctx, tb, {"kind": "binary", "table": tb})
    for it in range(40 if ctx.tier == "quick" else 2000):
        ctx.evaluated()
        ctx.tag("binary:large")
        mx = int(10 ** rng.uniform(1, 6.5))
        if it % 6 == 2:
            # tables of billions of pairs (pixels of a satellite record): products of
            # two totals do not fit 64-bit integers
            mx = int(10 ** rng.uniform(9, 12))
            ctx.tag("binary:billions-of-pairs")
        t = [int(v_) for v_ in rng.integers(1, mx + 1, size=4)]
        if it % 5 == 0:
            t[3] = min(t[1] * t[2] // max(1, t[0]) or 1, 10 ** 15)
        tb = [[int(t[0]), int(t[1])], [int(t[2]), int(t[3])]]
        if it % 7 == 0:
            tb = [[int(t[0]), int(t[0])], [int(t[2]), int(t[2])]]   # theta == 1
        check_binary(ctx, tb, {"kind": "binary", "table": tb})
        if it % 4 == 1:
            # large tables one count away from independence: the odds ratio differs from
            # 1 by a few millionths, on one side or the other
            p_, q_ = int(rng.integers(2, 10)), int(rng.integers(2, 10))
            k_, m_ = int(10 ** rng.uniform(4, 6)), int(10 ** rng.uniform(4, 6))
            dl = [1, -1, 2, -3][it // 4 % 4]
            tn = [[k_ * p_, k_ * q_], [m_ * p_, m_ * q_ + dl]]
            ctx.evaluated()
            ctx.tag("binary:near-independence")
            check_binary(ctx, tn, {"kind": "binary", "table": tn})


def replay(ctx, case):
    k = case["kind"]
    if k == "scores":
        run_scores_case(ctx, case)
    elif k == "corr":
        run_corr_case(ctx, case)
    elif k == "ident":
        run_identities_case(ctx, case)
    elif k == "cm":
        run_cm_case(ctx, case)
    elif k == "binary":
        ctx.evaluated()
        check_binary(ctx, case["table"], case)
