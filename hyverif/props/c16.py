"""C16 - catchment-grid intersection and Voronoi weights conserve area.

Monitor: exact rational location of every catchment-cell centre in the coarse grid
(oracles/gridgeom.py) -> expected cell counts; conservation and placement
post-conditions on every observed (area_grid, idxcells, weights); exact nearest-point
reference for Voronoi weights."""
import math
import warnings
from collections import Counter
from fractions import Fraction

import numpy as np

from hyverif.core import digest

from hyverif.oracles.gridgeom import Geom
from hyverif.props.c06 import gen_forest
from hyverif.oracles.flowgraph import FlowGraph

ID = "C16"
SHARDS = {"quick": 8, "thorough": 16}
BUDGET = {"quick": 300, "thorough": 1800}
RULE = ("catchment cell sets on fine grids up to 12x12 (random subsets via "
        "Catchment.from_dict and real delineations of random forests) x coarse "
        "grids with cell-size ratio 1..4 (incl. non-integer), dyadic and random "
        "offsets (centres exactly on coarse edges, partial overlap on each side, "
        "no overlap) x filled / unfilled; Voronoi: 1..6 points on the k/2 lattice "
        "(exact equidistance), inside / outside / on cell centres, more cells than "
        "points and the converse. Non-trivial: >= 2 catchment cells inside the "
        "coarse grid / >= 2 Voronoi points; distinct by digest of the inputs.")
ASSUMPTIONS = [
    "a cell centre closer than 1e-9 coarse cells to a coarse grid line may be "
    "counted in either adjacent cell (or outside, on the outer boundary)",
    "when no catchment cell falls inside the coarse grid an exception is accepted",
    "Voronoi distances are compared exactly (k/2- and k/8-lattice points, "
    "half-integer centres); ties go to the lowest point index",
]
OBLIGATIONS = {"intersect": 100, "intersect:partial-left": 5,
               "intersect:partial-bottom": 5, "intersect:partial-right": 5,
               "intersect:partial-top": 5, "intersect:none": 3,
               "intersect:on-edge": 5, "intersect:filled": 20,
               "intersect:delineated": 10, "voronoi": 100, "voronoi:tie": 20,
               "voronoi:more-cells-than-points": 30,
               "voronoi:more-points-than-cells": 5,
               "voronoi:clustered-points": 10, "voronoi:grid-origin-not-0": 30,
               "intersect:reused-object-other-set": 30, "intersect:split-grid": 50,
               "intersect:target-dtype": 30, "intersect:same-shape-shifted": 10,
               "voronoi:near-tie": 5, "voronoi:mirror-pair-decimal": 3,
               "intersect:target-is-clipped-grid": 10, "intersect:sum-of-catchments": 10, "voronoi:extreme-map-units": 10, "intersect:ratio-near-a-whole-number": 20, "intersect:after-delineate-boundary": 20, "intersect:sum-of-catchments-filled": 10,
               "voronoi:catchment-with-delineation-history": 5}


def mods():
    from hydrodiy.gis import grid as g
    return g


def make_catchment(fine, cells, filled=None):
    g = mods()
    fd = g.Grid("fd", fine["ncols"], fine["nrows"], cellsize=fine["csz"],
                xllcorner=fine["xll"], yllcorner=fine["yll"], dtype=np.int64)
    dic = {"name": "c", "idxcell_outlet": int(cells[0]) if len(cells) else 0,
           "idxinlets": None, "idxcells_area": [int(c) for c in cells],
           "idxcells_area_filled": [int(c) for c in (filled if filled is not None
                                                     else cells)],
           "flowdir": fd.to_dict()}
    return g.Catchment.from_dict(dic)


def catchment_with_history(case):
    """the catchment object was delineated before with inlets (which cut part of the area
    off), then again for the same outlet without any: its area is the whole one"""
    g = mods()
    h = case["history"]
    fine = case["fine"]
    fd = g.Grid("fd", fine["ncols"], fine["nrows"], cellsize=fine["csz"],
                xllcorner=fine["xll"], yllcorner=fine["yll"], dtype=np.int64)
    fd.data = np.asarray(h["codes"], dtype=np.int64)
    cat = g.Catchment("c", fd)
    n = fine["ncols"] * fine["nrows"]
    cat.delineate_area(int(h["outlet"]), [int(i) for i in h["inlets"]], nval=n + 5)
    cat.delineate_area(int(h["outlet"]), nval=n + 5)
    return cat


def run_intersect_case(ctx, case):
    g = mods()
    fine, coarse = case["fine"], case["coarse"]
    cells = [int(c) for c in case["cells"]]
    filled_cells = [int(c) for c in case.get("filled_cells", cells)]
    first = bool(case.get("filled", False))
    ctx.evaluated()
    ctx.tag("intersect")
    if case.get("delineated"):
        ctx.tag("intersect:delineated")
    cat = make_catchment(fine, cells, filled_cells)
    if case.get("via_sum") and len(cells) >= 2:
        # the catchment is the sum of two sub-catchments (ca1 + ca2), the first of them
        # small: its area is the union of the two areas
        k = max(1, len(cells) // 4)
        order = sorted(cells)
        cat = make_catchment(fine, order[:k]) + make_catchment(fine, order[k:])
        ctx.tag("intersect:sum-of-catchments")
    # the grid the weights are wanted for is often a mask or a land-cover grid
    cdt = [np.float64, np.int32, np.float64, np.uint8, np.float32, np.int64][
        (len(cells) + coarse["ncols"]) % 6]
    if cdt is not np.float64:
        ctx.tag("intersect:target-dtype")
    cg = g.Grid("coarse", coarse["ncols"], coarse["nrows"], cellsize=coarse["csz"],
                xllcorner=coarse["xll"], yllcorner=coarse["yll"], dtype=cdt)
    pads = case.get("clip_pads")
    if pads:
        # the grid the weights are wanted for was itself cut out of a larger (national)
        # grid with Grid.clip: it carries its own position in *that* grid, which has
        # nothing to do with where the weights sit in the grid handed to intersect
        pl, pb, pr, pt = pads
        csz = coarse["csz"]
        big = g.Grid("national", coarse["ncols"] + pl + pr, coarse["nrows"] + pb + pt,
                     cellsize=csz, xllcorner=coarse["xll"] - pl * csz,
                     yllcorner=coarse["yll"] - pb * csz, dtype=cdt)
        try:
            cl = big.clip(coarse["xll"] + 0.5 * csz, coarse["yll"] + 0.5 * csz,
                          coarse["xll"] + (coarse["ncols"] - 0.5) * csz,
                          coarse["yll"] + (coarse["nrows"] - 0.5) * csz)
        except Exception:
            cl = None
        if cl is not None and (cl.ncols, cl.nrows) == (coarse["ncols"], coarse["nrows"]) \
                and abs(cl.xllcorner - coarse["xll"]) <= 1e-9 * max(1, abs(coarse["xll"])) \
                and abs(cl.yllcorner - coarse["yll"]) <= 1e-9 * max(1, abs(coarse["yll"])):
            ctx.tag("intersect:target-is-clipped-grid")
            cg = cl
            coarse = dict(coarse, xll=float(cl.xllcorner), yll=float(cl.yllcorner))
            case = dict(case, coarse=coarse)
    # what the target grid *holds* is irrelevant (a rainfall grid has gaps and fill
    # values): missing and infinite cells, also where the catchment does not reach
    if np.dtype(cg.dtype).kind == "f" and (len(cells) + coarse["nrows"]) % 3 == 0 \
            and not pads:
        dfill = np.arange(coarse["nrows"] * coarse["ncols"], dtype=float).reshape(
            (coarse["nrows"], coarse["ncols"]))
        dfill[::2, ::2] = np.nan
        dfill[1::3, :] = np.inf
        dfill[-1, -1] = -np.inf
        try:
            cg.data = dfill.astype(cg.dtype)
            ctx.tag("intersect:target-holds-nan-inf")
        except Exception:
            pass
    # a call that is refused (a grid far away: no overlap) must leave the catchment as
    # it was for the calls that follow
    if (len(cells) + coarse["ncols"]) % 4 == 1:
        far = g.Grid("far", 3, 3, cellsize=coarse["csz"],
                     xllcorner=fine["xll"] + 1e6 * fine["csz"],
                     yllcorner=fine["yll"] - 1e6 * fine["csz"])
        for fl_ in (True, False):
            try:
                with warnings.catch_warnings():
                    warnings.simplefilter("ignore")
                    cat.intersect(far, filled=fl_)
            except Exception:
                ctx.tag("intersect:after-a-refused-call")
    # the boundary of the catchment was drawn first (a plotting step): the areas are
    # what they were
    if (len(cells) + 2 * coarse["nrows"]) % 3 == 0:
        try:
            with warnings.catch_warnings():
                warnings.simplefilter("ignore")
                cat.delineate_boundary()
            ctx.tag("intersect:after-delineate-boundary")
            if set(filled_cells) != set(cells):
                ctx.tag("intersect:after-delineate-boundary-with-holes")
        except Exception:
            ctx.extra["delineate_boundary-refused"] += 1
    # the same catchment object answers for both cell sets, in any order of asking
    seq = [first, not first, first] if case.get("reuse", True) else [first]
    if case.get("via_sum") and len(cells) >= 2:
        # the area of a sum is the union of the (filled) areas of its terms, and filling
        # cannot lose cells: asked for the filled area, the sum answers with that union
        seq = [False, True, False]
        filled_cells = list(cells)
        ctx.tag("intersect:sum-of-catchments-filled")
    if len(seq) > 1 and set(filled_cells) != set(cells):
        ctx.tag("intersect:reused-object-other-set")
    for i, use_filled in enumerate(seq):
        judge_intersect(ctx, dict(case, filled=use_filled, call=i), g, cat, cg, fine,
                        coarse, cells, filled_cells, use_filled)
    # the catchment intersected with its own flow grid (the very object, and a clone of
    # it): every cell of the set asked for, with weight 1
    if (len(cells) + coarse["ncols"]) % 3 != 2:
        for own in (cat.flowdir, cat.flowdir.clone()):
            for use_filled in (True, False):
                want = sorted(set(filled_cells if use_filled else cells))
                ctx.api("intersect")
                ctx.tag("intersect:with-own-flow-grid")
                try:
                    with warnings.catch_warnings():
                        warnings.simplefilter("ignore")
                        _, ic_, w_ = cat.intersect(own, filled=use_filled)
                    oko = sorted(int(v) for v in ic_) == want and \
                        bool(np.all(np.abs(np.asarray(w_, dtype=float) - 1.0) <= 1e-12))
                    det_ = {"filled": use_filled, "cells": sorted(int(v) for v in ic_)[:12],
                            "expected": want[:12], "weights": np.asarray(w_)[:6]}
                except Exception as e:
                    oko, det_ = False, {"filled": use_filled, "exc": repr(e)[:200]}
                ctx.check("intersect.own-grid", oko,
                          "intersect|own-flow-grid|cells-or-weights", case, det_)


def judge_intersect(ctx, case, g, cat, cg, fine, coarse, cells, filled_cells,
                    use_filled):
    if use_filled:
        ctx.tag("intersect:filled")
    if case.get("call", 0):
        ctx.evaluated()
    gf = Geom(fine["nrows"], fine["ncols"], fine["xll"], fine["yll"], fine["csz"])
    gc = Geom(coarse["nrows"], coarse["ncols"], coarse["xll"], coarse["yll"],
              coarse["csz"])
    used = filled_cells if use_filled else cells
    # expected location of each catchment cell centre. The wrapper passes the
    # float64 centres returned by cell2coord; C07 shows they are within 4 ulp of
    # the exact centres, far below the 1e-9 ambiguity margin.
    sure = Counter()
    amb = 0
    mind = 1.0
    sides = set()
    for c in used:
        x, y = gf.centre(c)
        cc, dist = gc.locate(x, y)
        mind = min(mind, float(dist))
        if dist < 1e-9:
            amb += 1
            continue
        if cc >= 0:
            sure[cc] += 1
        else:
            tx = (x - gc.fx) / gc.fc
            ty = (y - gc.fy) / gc.fc
            if tx < 0:
                sides.add("left")
            if tx > gc.ncols:
                sides.add("right")
            if ty < 0:
                sides.add("bottom")
            if ty > gc.nrows:
                sides.add("top")
    for s in sides:
        ctx.tag("intersect:partial-" + s)
    if amb:
        ctx.tag("intersect:on-edge")
    ninside = sum(sure.values())
    if ninside == 0 and amb == 0:
        ctx.tag("intersect:none")
    ctx.api("intersect")
    with warnings.catch_warnings():
        warnings.simplefilter("ignore")
        try:
            fl = use_filled if case.get("call", 0) != 1 else np.bool_(use_filled)
            area_grid, idxcells, weights = cat.intersect(cg, filled=fl)
        except Exception as e:
            ctx.check("intersect.runs", ninside == 0, "intersect|raises", case,
                      lambda: {"exc": repr(e), "cells_inside": ninside})
            return
    if case.get("call", 0) == 0:
        def _isect():
            with warnings.catch_warnings():
                warnings.simplefilter("ignore")
                ag, ic, w_ = cat.intersect(cg, filled=use_filled)
            return np.asarray(ag.data), np.asarray(ic), np.asarray(w_)
        ctx.reuse("intersect", _isect, [],
                  (np.array(area_grid.data, copy=True), np.array(idxcells, copy=True),
                   np.array(weights, copy=True)), case)
    idxcells = [int(v) for v in idxcells]
    weights = np.asarray(weights, dtype=float)
    ratio2 = (Fraction(fine["csz"]) / Fraction(coarse["csz"])) ** 2
    fr = float(ratio2)
    ctx.check("intersect.unique-cells", len(set(idxcells)) == len(idxcells),
              "intersect|duplicate-cell", case, lambda: {"idxcells": idxcells})
    counts = {}
    okint = True
    for c, w in zip(idxcells, weights):
        k = w / fr
        if abs(k - round(k)) > 1e-9 * max(1, k) or round(k) < 1:
            okint = False
        counts[c] = int(round(k))
    ctx.check("intersect.weight-is-count-x-area-ratio", okint,
              "intersect|weight-not-multiple", case,
              lambda: {"weights": weights.tolist(), "ratio2": fr})
    if amb == 0:
        ctx.check("intersect.counts", counts == dict(sure), "intersect|counts", case,
                  lambda: {"got": counts, "expected": dict(sure)})
    else:
        ok = all(counts.get(c, 0) >= k for c, k in sure.items()) and \
            ninside <= sum(counts.values()) <= ninside + amb and \
            all(0 <= c < gc.ncells for c in counts)
        ctx.check("intersect.counts-with-edge-centres", ok,
                  "intersect|counts-edge", case,
                  lambda: {"got": counts, "sure": dict(sure), "ambiguous": amb})
    # conservation: sum(weights x coarse area) == inside cells x fine area
    tot = float(np.sum(weights)) * coarse["csz"] ** 2
    nin = sum(counts.values())
    exp = nin * fine["csz"] ** 2
    ctx.check("intersect.area-conserved", abs(tot - exp) <= 1e-9 * max(exp, 1e-300),
              "intersect|area", case, lambda: {"sum_w_x_area": tot, "expected": exp})
    # weight grid placement
    rs = getattr(area_grid, "parentgrid_rows_start", None)
    cs = getattr(area_grid, "parentgrid_cols_start", None)
    re_ = getattr(area_grid, "parentgrid_rows_end", None)
    ce = getattr(area_grid, "parentgrid_cols_end", None)
    okp = None not in (rs, cs, re_, ce)
    detail = {}
    if okp:
        data = np.asarray(area_grid.data, dtype=float)
        expd = np.zeros((int(re_) - int(rs) + 1, int(ce) - int(cs) + 1))
        inb = True
        for c, w in zip(idxcells, weights):
            r, k = gc.rowcol(c)
            if not (rs <= r <= re_ and cs <= k <= ce):
                inb = False
                continue
            expd[r - rs, k - cs] = w
        okp = inb and data.shape == expd.shape and bool(np.array_equal(data, expd))
        rows = [gc.rowcol(c)[0] for c in idxcells]
        cols = [gc.rowcol(c)[1] for c in idxcells]
        okp = okp and rs == min(rows) and re_ == max(rows) and cs == min(cols) \
            and ce == max(cols)
        exll = gc.fx + gc.fc * int(cs)
        eyll = gc.fy + gc.fc * (gc.nrows - 1 - int(re_))
        mag = max(abs(coarse["xll"]), abs(coarse["yll"]),
                  abs(coarse["xll"] + gc.ncols * coarse["csz"]),
                  abs(coarse["yll"] + gc.nrows * coarse["csz"]))
        tolg = 8 * math.ulp(mag)
        okg = abs(Fraction(float(area_grid.xllcorner)) - exll) <= tolg and \
            abs(Fraction(float(area_grid.yllcorner)) - eyll) <= tolg and \
            float(area_grid.cellsize) == float(coarse["csz"])
        okp = okp and okg
        detail = {"grid": data.tolist(), "expected": expd.tolist(),
                  "rows": [int(rs), int(re_)], "cols": [int(cs), int(ce)],
                  "xll": float(area_grid.xllcorner), "exp_xll": float(exll),
                  "yll": float(area_grid.yllcorner), "exp_yll": float(eyll)}
    ctx.check("intersect.weight-grid", bool(okp), "intersect|weight-grid", case,
              lambda: detail)
    if nin >= 2:
        ctx.nontrivial(repr(fine), repr(coarse), cells, use_filled)
    # ---- cutting the grid in two along a column (or row) boundary changes no weight:
    # a catchment cell goes to exactly one grid cell, also when its centre lies exactly
    # on the cut (which side takes it is the implementation's convention, but it must be
    # the same convention for the inner edges of a grid and for its outer edges)
    def short_dyadic(v):
        return abs(v) < 2 ** 20 and float(v) * 4096 == int(float(v) * 4096)
    exact_geo = all(short_dyadic(d[k_]) for d in (fine, coarse)
                    for k_ in ("csz", "xll", "yll"))
    # judged when the arithmetic of the kernel is exact for this geometry (short dyadic
    # numbers: a centre on a cut is on it exactly), or when no centre is anywhere near
    # an edge; otherwise rounding legitimately decides the side
    if case.get("call", 0) == 0 and (exact_geo or mind > 1e-6):
        split_consistency(ctx, g, cat, coarse, use_filled,
                          dict(zip(idxcells, weights.tolist())), case)


def split_consistency(ctx, g, cat, coarse, use_filled, whole, case):
    nr, nc, csz = coarse["nrows"], coarse["ncols"], coarse["csz"]
    xll, yll = coarse["xll"], coarse["yll"]
    for axis in ("cols", "rows"):
        n = nc if axis == "cols" else nr
        if n < 2:
            continue
        k = n // 2
        org = xll if axis == "cols" else yll
        # rows are numbered from the top: the lower part holds the last rows
        cut = org + (k if axis == "cols" else (n - k)) * csz
        if Fraction(cut) != Fraction(org) + (k if axis == "cols" else (n - k)) * Fraction(csz):
            continue                      # the cut is not exactly representable
        if axis == "cols":
            parts = [(g.Grid("p1", k, nr, cellsize=csz, xllcorner=xll, yllcorner=yll),
                      lambda r, c: r * k + c if c < k else None),
                     (g.Grid("p2", nc - k, nr, cellsize=csz, xllcorner=cut, yllcorner=yll),
                      lambda r, c: r * (nc - k) + (c - k) if c >= k else None)]
        else:
            parts = [(g.Grid("p1", nc, k, cellsize=csz, xllcorner=xll, yllcorner=cut),
                      lambda r, c: r * nc + c if r < k else None),
                     (g.Grid("p2", nc, n - k, cellsize=csz, xllcorner=xll, yllcorner=yll),
                      lambda r, c: (r - k) * nc + c if r >= k else None)]
        got = {}
        for pg, fmap in parts:
            try:
                with warnings.catch_warnings():
                    warnings.simplefilter("ignore")
                    _, ic, w_ = cat.intersect(pg, filled=use_filled)
                part = dict(zip([int(v) for v in ic], np.asarray(w_, float).tolist()))
            except Exception:
                part = {}
            for cell in range(nr * nc):
                r, c = divmod(cell, nc)
                pc = fmap(r, c)
                if pc is not None and pc in part:
                    got[cell] = got.get(cell, 0.0) + part[pc]
        ctx.tag("intersect:split-grid")
        ctx.api("intersect", 2)
        ctx.check("intersect.split-consistent", got == whole,
                  f"intersect|weights-change-when-grid-is-cut-along-{axis}", case,
                  lambda: {"whole": whole, "two_parts": got, "cut_at": cut})


def run_wide_targets(ctx):
    """target grids with very many columns (global rasters: 65 521, 65 536, 65 537 ...
    columns) or more than ten million cells, met by a small delineated catchment whose
    cells come in upstream-walk order (grid cells are met, left, met again)"""
    g = mods()
    rng = np.random.default_rng(ctx.seed + 41)
    nr = nc = 6
    codes = np.full((nr, nc), 4, dtype=np.int64)
    codes[nr - 1, :] = 16
    codes[nr - 1, 0] = 0
    for (tnc, tnr, csz, where) in ((65521, 4, 2.0, "left"), (65536, 4, 2.0, "left"),
                                   (65537, 3, 2.0, "left"), (32749, 5, 3.0, "left"),
                                   (131071, 3, 2.0, "left"), (100003, 4, 2.0, "left"),
                                   (4200, 4100, 2.0, "topleft"), (5000, 2100, 2.0, "topleft")):
        fx, fy = 0.0, 0.0
        if where == "topleft":
            fy = (tnr * csz) - nr * 1.0          # catchment under the top-left corner
        fd = g.Grid("fd", nc, nr, dtype=np.int64, xllcorner=fx, yllcorner=fy)
        fd.data = codes
        cat = g.Catchment("c", fd)
        cat.delineate_area((nr - 1) * nc)
        cells = [int(c) for c in cat.idxcells_area]
        tg = g.Grid("target", tnc, tnr, cellsize=csz, xllcorner=0.0, yllcorner=0.0,
                    dtype=np.uint8)
        ctx.evaluated()
        ctx.tag("intersect:very-wide-or-very-large-target")
        ctx.api("intersect")
        case = {"kind": "wide", "ncols": tnc, "nrows": tnr, "csz": csz, "where": where}
        try:
            with warnings.catch_warnings():
                warnings.simplefilter("ignore")
                ag, ic, w = cat.intersect(tg)
        except Exception as e:
            ctx.check("intersect.wide", False, "intersect|raises|wide-target", case,
                      {"exc": repr(e)[:200]})
            continue
        gf = Geom(nr, nc, fx, fy, 1.0)
        gc = Geom(tnr, tnc, 0.0, 0.0, csz)
        exp = Counter()
        for c in cells:
            x, y = gf.centre(c)
            cc, _ = gc.locate(x, y)
            if cc >= 0:
                exp[cc] += 1
        ratio = (1.0 / csz) ** 2
        got = {int(c): float(v) for c, v in zip(ic, w)}
        ok = len(ic) == len(set(int(c) for c in ic)) and \
            {k: round(v / ratio) for k, v in got.items()} == dict(exp) and \
            abs(float(np.sum(np.asarray(ag.data, dtype=float))) - sum(exp.values()) * ratio) \
            <= 1e-9
        ctx.check("intersect.wide", ok, "intersect|counts|wide-target", case,
                  lambda: {"got": dict(list(got.items())[:8]),
                           "expected": {k: v * ratio for k, v in list(exp.items())[:8]},
                           "n_listed": len(ic), "n_expected": len(exp)})
        ctx.nontrivial("wide", tnc, tnr)


def run_voronoi_case(ctx, case, cat=None):
    g = mods()
    fine = case["fine"]
    cells = [int(c) for c in case["cells"]]
    pts = np.asarray(case["points"], dtype=float).reshape((-1, 2))
    ctx.evaluated()
    ctx.tag("voronoi")
    if len(cells) > len(pts):
        ctx.tag("voronoi:more-cells-than-points")
    if len(pts) > len(cells):
        ctx.tag("voronoi:more-points-than-cells")
    if cat is None and case.get("history") is not None:
        cat = catchment_with_history(case)
    if cat is None:
        cat = make_catchment(fine, cells)
    else:
        ctx.tag("voronoi:catchment-with-delineation-history")
    gf = Geom(fine["nrows"], fine["ncols"], fine["xll"], fine["yll"], fine["csz"])
    if fine["xll"] != 0 or fine["yll"] != 0:
        ctx.tag("voronoi:grid-origin-not-0")
    ctx.api("voronoi")
    arg = pts.copy()
    w = np.asarray(g.voronoi(cat, arg), dtype=float)
    # the caller's array is an input: same content afterwards, same answer next time
    w2 = np.asarray(g.voronoi(cat, arg), dtype=float)
    ctx.api("voronoi")
    ctx.check("voronoi.points-unaltered", bool(np.array_equal(arg, pts)),
              "voronoi|alters-points", case, lambda: {"before": pts.tolist(),
                                                      "after": arg.tolist()})
    ctx.presentations("voronoi", lambda p_: np.asarray(g.voronoi(cat, p_), dtype=float),
                      [pts], w, case,
                      np.random.default_rng(digest(pts) % 2 ** 32), n=1)
    ctx.check("voronoi.repeatable", bool(np.array_equal(w, w2)), "voronoi|second-call-differs",
              case, lambda: {"first": w.tolist(), "second": w2.tolist()})
    cnt = np.zeros(len(pts))
    amb = np.zeros(len(pts))
    tie = False
    for c in cells:
        x, y = gf.centre(c)
        d2 = [(x - Fraction(float(p[0]))) ** 2 + (y - Fraction(float(p[1]))) ** 2
              for p in pts]
        m = min(d2)
        if d2.count(m) > 1:
            tie = True
        # squared distances that differ by less than double precision can tell (a few
        # units in the last place of the sum of two squares) but are not equal: either
        # point may own the cell
        near = [j for j, v in enumerate(d2) if v != m and v <= m * (1 + Fraction(1, 2 ** 49))]
        if near:
            ctx.tag("voronoi:beyond-double-resolution")
            for j in near + [d2.index(m)]:
                amb[j] += 1
        else:
            cnt[d2.index(m)] += 1
    if tie:
        ctx.tag("voronoi:tie")
    close = 0
    for c in cells:
        x, y = gf.centre(c)
        if sum(1 for p in pts if (x - Fraction(float(p[0]))) ** 2 +
               (y - Fraction(float(p[1]))) ** 2 < Fraction(1, 4) * gf.fc ** 2) >= 2:
            close += 1
    if close:
        ctx.tag("voronoi:clustered-points")
    ref = cnt / len(cells)
    hi = (cnt + amb) / len(cells)
    ctx.check("voronoi.weights", w.shape == ref.shape and
              bool(np.all(w >= ref - 1e-12)) and bool(np.all(w <= hi + 1e-12)),
              "voronoi|weights", case,
              lambda: {"got": w.tolist(), "expected": ref.tolist(),
                       "expected_at_most": hi.tolist()})
    ctx.check("voronoi.nonneg-sum1", bool(np.all(w >= 0)) and abs(w.sum() - 1) <= 1e-12,
              "voronoi|normalisation", case, lambda: {"weights": w.tolist()})
    if len(pts) >= 2:
        ctx.nontrivial("vor", repr(fine), cells, pts)


def run(ctx):
    if ctx.shard == 2 % ctx.nshards:
        run_wide_targets(ctx)
    rng = ctx.rng(1)
    nrep = 60 if ctx.tier == "quick" else 5000
    for it0 in range(nrep):
        it = it0 + ctx.shard
        if ctx.out_of_time():
            ctx.notes.append(f"stopped at {it0}")
            break
        nr, nc = int(rng.integers(1, 13)), int(rng.integers(1, 13))
        fcsz = [1.0, 0.5, 0.05, 250.0][int(rng.integers(0, 4))]
        fxll = float(rng.integers(-3, 4)) * fcsz * [0, 1, 10][int(rng.integers(0, 3))]
        fyll = float(rng.integers(-3, 4)) * fcsz * [0, 1, 10][int(rng.integers(0, 3))]
        fine = {"nrows": nr, "ncols": nc, "csz": fcsz, "xll": fxll, "yll": fyll}
        n = nr * nc
        delineated = False
        filled_cells = None
        if it % 3 == 0 and n >= 4:
            codes = gen_forest(rng, nr, nc, it % 3)
            model = FlowGraph(codes.tolist())
            sizes = [len(model.area(o)) for o in range(n)]
            o = int(np.argmax(sizes))
            g = mods()
            fd = g.Grid("fd", nc, nr, cellsize=fcsz, xllcorner=fxll, yllcorner=fyll,
                        dtype=np.int64)
            fd.data = codes
            cat = g.Catchment("c", fd)
            cat.delineate_area(o, nval=n + 5)
            cells = [int(c) for c in cat.idxcells_area]
            filled_cells = [int(c) for c in cat.idxcells_area_filled]
            delineated = len(cells) > 0
            hist = None
            if len(cells) >= 3:
                inl = [c_ for c_ in cells if c_ != o]
                hist = {"codes": codes.tolist(), "outlet": o,
                        "inlets": [int(v) for v in rng.choice(inl, size=min(2, len(inl)),
                                                              replace=False)]}
            if not cells:
                cells = [o]
                filled_cells = [o]
        else:
            k = int(rng.integers(1, n + 1))
            cells = [int(c) for c in rng.choice(n, size=k, replace=False)]
            filled_cells = sorted(set(cells) | set(
                int(c) for c in rng.choice(n, size=min(n, 2), replace=False)))
        if not delineated:
            hist = None
        # (cell-size ratios: whole numbers, simple fractions, and ratios a few parts per
        # million away from a whole number - grids of "0.05 degrees" that are 0.0500001)
        ratio = [1.0, 2.0, 3.0, 4.0, 2.5, 1.5, 2.00001, 3.00002, 1.999985, 1.000004,
                 4.0 * (1 - 3e-6), 2.0 * (1 + 1e-6), 1.37][int(rng.integers(0, 13))]
        if abs(ratio - round(ratio)) > 0 and abs(ratio - round(ratio)) < 1e-3:
            ctx.tag("intersect:ratio-near-a-whole-number")
        ccsz = fcsz * ratio
        mode = it % 6
        ext_x, ext_y = nc * fcsz, nr * fcsz
        if mode == 0:      # covers everything, aligned
            cxll, cyll = fxll - ccsz, fyll - ccsz
            cnc = int(math.ceil(ext_x / ccsz)) + 3
            cnr = int(math.ceil(ext_y / ccsz)) + 3
        elif mode == 1:    # dyadic offsets -> centres may fall on coarse edges
            cxll = fxll - ccsz + 0.5 * fcsz * int(rng.integers(0, 4))
            cyll = fyll - ccsz + 0.5 * fcsz * int(rng.integers(0, 4))
            cnc = int(math.ceil(ext_x / ccsz)) + 3
            cnr = int(math.ceil(ext_y / ccsz)) + 3
        elif mode == 2:    # random offset, covers
            cxll = fxll - ccsz * float(rng.uniform(0.1, 1.0))
            cyll = fyll - ccsz * float(rng.uniform(0.1, 1.0))
            cnc = int(math.ceil(ext_x / ccsz)) + 3
            cnr = int(math.ceil(ext_y / ccsz)) + 3
        elif mode == 3:    # partial overlap: coarse grid starts inside the fine one
            cxll = fxll + ext_x * float(rng.uniform(0.2, 0.7))
            cyll = fyll + ext_y * float(rng.uniform(0.2, 0.7))
            cnc, cnr = int(rng.integers(1, 5)), int(rng.integers(1, 5))
        elif mode == 4:    # partial overlap: coarse grid ends inside the fine one
            cnc, cnr = int(rng.integers(1, 4)), int(rng.integers(1, 4))
            cxll = fxll + ext_x * float(rng.uniform(0.2, 0.6)) - cnc * ccsz
            cyll = fyll + ext_y * float(rng.uniform(0.2, 0.6)) - cnr * ccsz
        else:              # no overlap
            cnc, cnr = int(rng.integers(1, 4)), int(rng.integers(1, 4))
            cxll = fxll + ext_x + ccsz * float(rng.uniform(0.5, 3))
            cyll = fyll - cnr * ccsz - ccsz
        if it % 12 == 7:
            # a grid of the same shape and cell size as the flow grid, shifted by whole
            # cells, at map coordinates (the shift is tiny relative to the origin)
            ctx.tag("intersect:same-shape-shifted")
            fxll, fyll = 500000.0, 6000000.0
            fine = {"nrows": nr, "ncols": nc, "csz": fcsz, "xll": fxll, "yll": fyll}
            ccsz = fcsz
            cnc, cnr = nc, nr
            cxll = fxll + fcsz * int(rng.integers(-3, 4))
            cyll = fyll + fcsz * int(rng.integers(-3, 4))
        coarse = {"nrows": cnr, "ncols": cnc, "csz": ccsz, "xll": float(cxll),
                  "yll": float(cyll)}
        case = {"kind": "intersect", "fine": fine, "coarse": coarse, "cells": cells,
                "filled_cells": filled_cells, "filled": bool(it % 2),
                "delineated": delineated}
        if it % 3 == 1:
            case["clip_pads"] = [int(v) for v in rng.integers(0, 6, size=4)]
        if it % 4 == 2 and not delineated:
            case["via_sum"] = True
        run_intersect_case(ctx, case)
        if it0 % 25 == 0:
            ctx.sample(case)
        # Voronoi on a unit-cell grid with half-integer centres
        vf = {"nrows": nr, "ncols": nc, "csz": 1.0, "xll": 0.0, "yll": 0.0}
        # every other case: the same configuration on a grid with another origin and
        # cell size (dyadic, so that all distances stay exact)
        # (... including map units of 1e33, 1e120 and 1e-120: the origin is then a whole
        # number of half cells, so that every coordinate stays exact)
        vsc = [1.0, 0.5, 2.0, 2.0 ** 110, 2.0 ** 400, 2.0 ** -400][(it // 2) % 6] \
            if it % 2 else 1.0
        vox = float(rng.integers(-40, 41)) / 2.0 if it % 2 else 0.0
        voy = float(rng.integers(-40, 41)) / 2.0 if it % 2 else 0.0
        if vsc > 4 or vsc < 0.25:
            vox, voy = vox * vsc, voy * vsc
            ctx.tag("voronoi:extreme-map-units")
        npts = int(rng.integers(1, 7))
        if it % 4 == 3 and cells:
            # points clustered (k/8 lattice) around the centre of one catchment
            # cell: several points closer than half a cell to the same centre
            gv = Geom(nr, nc, 0.0, 0.0, 1.0)
            cx, cy = gv.centre(int(cells[int(rng.integers(0, len(cells)))]))
            pts = np.array([float(cx), float(cy)]) + \
                rng.integers(-3, 4, size=(npts, 2)) / 8.0
            if npts >= 2 and rng.random() < 0.7:
                pts[-1] = [float(cx), float(cy)]
        elif it % 8 == 2 and cells and npts >= 2:
            # two points at (almost) the same distance from a cell centre, on opposite
            # sides; the later one closer by a sliver (2^-20 .. 2^-44 of a cell)
            ctx.tag("voronoi:near-tie")
            gv = Geom(nr, nc, 0.0, 0.0, 1.0)
            cx, cy = gv.centre(int(cells[int(rng.integers(0, len(cells)))]))
            d = float(rng.integers(1, 5))
            sl = 2.0 ** -int(rng.choice([20, 30, 36, 40, 44]))
            pts = rng.integers(-6, 30, size=(npts, 2)) / 2.0
            pts[0] = [float(cx) - d, float(cy)]
            pts[1] = [float(cx) + d - sl, float(cy)]
        elif it % 4 == 0:
            pts = rng.integers(-2, 2 * max(nr, nc) + 4, size=(npts, 2)) / 2.0
        elif it % 4 == 1:
            pts = rng.integers(0, 2 * max(nr, nc), size=(npts, 2)) / 2.0 + 0.5
        else:
            pts = rng.integers(-6, 30, size=(npts, 2)) / 2.0
        vcells = cells if it % 5 else cells[:1]
        mirror = it % 8 == 5 and npts >= 2
        if mirror:
            # two points that are mirror images about the diagonal through the grid
            # origin (coordinates exchanged), with decimal coordinates: exactly
            # equidistant from every cell centre on that diagonal, whatever the rounding
            # of the squares - the earlier one owns those cells
            ctx.tag("voronoi:mirror-pair-decimal")
            nd = max(2, min(nr, nc))
            vf = {"nrows": nd, "ncols": nd, "csz": 1.0, "xll": 0.0, "yll": 0.0}
            vcells = list(range(nd * nd))
            a_, b_ = [round(float(v), 1 + int(rng.integers(0, 3)))
                      for v in rng.uniform(-3, nd + 3, size=2)]
            pts = np.round(rng.uniform(-3, nd + 3, size=(npts, 2)), 2)
            i0, i1 = sorted(int(v) for v in rng.choice(npts, size=2, replace=False))
            pts[i0] = [a_, b_] if rng.random() < 0.5 else [b_, a_]
            pts[i1] = pts[i0][::-1]
        if it % 2 and not mirror:
            vf = {"nrows": nr, "ncols": nc, "csz": vsc, "xll": vox, "yll": voy}
            pts = np.asarray(pts, dtype=float) * vsc + np.array([vox, voy])
        vcase = {"kind": "voronoi", "fine": vf, "cells": vcells, "points": pts}
        if hist is not None and not mirror and vcells is cells:
            vcase["history"] = hist
        run_voronoi_case(ctx, vcase)


def replay(ctx, case):
    if case["kind"] == "wide":
        return run_wide_targets(ctx)
    if case["kind"] == "intersect":
        run_intersect_case(ctx, case)
    else:
        run_voronoi_case(ctx, case)
