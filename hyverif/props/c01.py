"""C01 - every data transform is invertible on its domain.

Monitor: post-conditions on pairs of observed executions of the real
forward / backward (/ backward_censored): x' = backward(forward(x)) and
y' = forward(backward(y)), judged on points that an independently written reference
(oracles/transforms_ref.py) places inside the domain, inside the conditioning region
stated by the property and below an analytic condition number of 1e6."""
import math
import warnings

import numpy as np

from hyverif.core import digest

from hyverif.oracles import transforms_ref as tr

ID = "C01"
SHARDS = {"quick": 16, "thorough": 16}
BUDGET = {"quick": 300, "thorough": 1800}
RULE = ("13 transform classes, built through get_transform and through the class "
        "constructor + item assignment; parameter vectors: bounds, defaults, exact "
        "branch values (lam in {0, +-1e-10, +-1e-10(1+-1e-7), +-1.5e-10, 2e-10, "
        "5e-10, +-1e-9, ...} for the power family, lam in {0, +-1e-9, 0.9e-8, "
        "1.1e-8, 2, 2+-1e-9, 2+-1e-7, 2-1.9e-5, 2+-2.1e-5} for Yeo-Johnson, lam in "
        "{0, 1e-10, +-1e-3, +-5} for Manly), log-uniform interiors, constructor "
        "options mininu in {1e-10, 1e-3, 1}, minilam in {0, -1, -3}, base in {None, "
        "2, 10, e, 1.5}; inputs: 1-D arrays with log-uniform magnitudes on both "
        "sides of the domain's interior, python floats, Dirichlet rows for Softmax. "
        "Non-trivial: an admitted point with forward(x) != x; distinct by (class, "
        "parameters, x).")
ASSUMPTIONS = [
    "error of backward(forward(x)) measured relative to max(|x|, natural scale of "
    "the class) - nu, xmax, max(1,|nu|)/scale, max(delta,|lower|)",
    "points admitted only when the analytic condition number of the inverse map "
    "(own derivative formulas) is <= 1e6, on top of the region stated in the "
    "property (|lam ln(x+nu)| <= 13.8, a+b x/xmax >= 1e-4, |lam| >= 1e-3 or 0 for "
    "Manly)",
    "forward(backward(y)) judged relative to |y| (max(|y|,1) for Logit) with the "
    "forward condition number <= 1e6",
]
OBLIGATIONS = {}
for _c in tr.CLASSES:
    OBLIGATIONS["class:" + _c] = 50
OBLIGATIONS.update({"branch:power-lam": 200, "branch:yj-lam": 100,
                    "branch:manly-lam0": 20, "opt:mininu": 100, "opt:minilam": 100,
                    "opt:base": 50, "scalar-input": 50, "censored": 50,
                    "via:get_transform": 100, "via:constructor": 100, "via:values": 100,
                    "history": 50})


LANDMARK_Y = [0.0, -0.0, 1.0, -1.0, 0.5, -0.5, 2.0, -2.0, 1e-8, -1e-8, 10.0, -10.0, 1e-300,
              0.25, -3.0, 100.0]


def call(fn, *a):
    with warnings.catch_warnings():
        warnings.simplefilter("ignore")
        with np.errstate(all="ignore"):
            return fn(*a)


def run_config(ctx, case, npts=None):
    name = case["class"]
    ctor, par = case["ctor"], case["params"]
    rng = np.random.default_rng(int(case["seed"]))
    via = case.get("via", "get_transform")
    ctx.evaluated()
    try:
        if via == "get_transform":
            t, actual = tr.make(name, ctor, par)
        elif via == "values":
            t, actual = tr.make_values(name, ctor, par)
        else:
            t, actual = tr.make_direct(name, ctor, par)
    except Exception as e:
        ctx.check("construct", False, f"{name}|construct-raises", case,
                  {"exc": repr(e)})
        return
    ctx.tag("via:" + {"get_transform": "get_transform", "values": "values"}
            .get(via, "constructor"))
    ref = tr.Ref(name, ctor, actual)
    if not ref.in_region():
        ctx.extra["config-outside-stated-region"] += 1
        return
    ctx.tag("class:" + name)
    if "mininu" in ctor and ctor["mininu"] != 1e-10:
        ctx.tag("opt:mininu")
    if ctor.get("minilam", 0.0) != 0.0:
        ctx.tag("opt:minilam")
    if ctor.get("base") is not None:
        ctx.tag("opt:base")
    btag = None
    if name in tr.POWER_FAMILY and abs(actual["lam"]) <= 1e-6:
        btag = "branch:power-lam"
    if name == "YeoJohnson" and case.get("tag") == "lam-branch":
        btag = "branch:yj-lam"
    if name == "Manly" and actual["lam"] == 0:
        btag = "branch:manly-lam0"
    if name == "Softmax":
        return run_softmax(ctx, t, case, rng)
    x = ref.sample(rng, npts or case.get("npts", 160), whole_domain=True)
    if x is None or len(x) == 0:
        return
    x = np.ascontiguousarray(x, dtype=np.float64)
    ctx.evaluated(len(x))
    ctx.api(f"{name}.forward")
    ctx.api(f"{name}.backward")
    try:
        y = np.asarray(call(t.forward, x.copy()), dtype=float)
        # the arrays the parameters were assigned from are the caller's: it overwrites
        # them before going on (nothing changes for the transform)
        for arr in tr.CALLER_ARRAYS.pop(id(t), []):
            ctx.tag("caller-reuses-parameter-array")
            arr += 0.37
            arr[...] = arr[::-1].copy()
        if len(tr.CALLER_ARRAYS) > 1000:
            tr.CALLER_ARRAYS.clear()
        # read-only methods called between forward and backward (a sampler used to draw
        # starting points, a prior, a printout) leave the configuration alone
        if int(case.get("seed", 0)) % 3 == 1:
            for ro_ in (lambda: t.params_sample(5), lambda: t.params_logprior(),
                        lambda: str(t), lambda: t.params_sample(3, -2.0, 2.0)):
                try:
                    call(ro_)
                except Exception:
                    pass
            ctx.tag("read-only-calls-in-between")
        # meanwhile the caller asks the factory for another transform of the same class
        # and options with other parameter values (one per site, say), and uses it
        if via == "get_transform" and int(case.get("seed", 0)) % 2 == 0:
            try:
                _, opar, _ = tr.gen_config(np.random.default_rng(int(case["seed"]) + 3),
                                           name, int(case["seed"]) % 89)
                t_other, _ = tr.make(name, ctor, opar)
                call(t_other.forward, x.copy())
                ctx.tag("factory-called-again-in-between")
            except Exception:
                pass
        xb = np.asarray(call(t.backward, y.copy()), dtype=float)
        yb = np.asarray(call(t.forward, xb.copy()), dtype=float)
    except Exception as e:
        ctx.check("roundtrip.runs", False, f"{name}|raises", case,
                  {"exc": repr(e), "params": actual})
        return
    if y.shape != x.shape or xb.shape != x.shape:
        ctx.check("roundtrip.shape", False, f"{name}|shape", case,
                  {"x": list(x.shape), "y": list(y.shape)})
        return
    # the same numbers in another memory layout / container: same transformed values
    # (numpy's strided loops differ in the last place, and backward subtracts the
    # shift: tolerance relative to the magnitudes involved)
    prng = np.random.default_rng(digest(x) % 2 ** 32)
    shift = max([abs(v) for v in actual.values() if np.isfinite(v)] + [1.0])
    with np.errstate(all="ignore"):
        ay = float(np.nanmax(np.abs(y[np.isfinite(y)]), initial=1.0))
        ax = float(np.nanmax(np.abs(xb[np.isfinite(xb)]), initial=1.0))
    ctx.presentations(f"{name}.forward",
                      lambda x_: np.asarray(call(t.forward, x_), dtype=float), [x], y,
                      case, prng, n=1, rtol=1e-9, atol=1e-10 * (ay + shift))
    ctx.presentations(f"{name}.backward",
                      lambda y_: np.asarray(call(t.backward, y_), dtype=float), [y], xb,
                      case, prng, n=1, rtol=1e-9, atol=1e-10 * (ax + shift))
    if int(case.get("seed", 0)) % 3 == 0:
        ctx.shapes(f"{name}.forward", lambda x_: call(t.forward, x_), x, y, case,
                   rtol=1e-9, atol=1e-10 * (ay + shift))
        ctx.shapes(f"{name}.backward", lambda y_: call(t.backward, y_), y, xb, case,
                   rtol=1e-9, atol=1e-10 * (ax + shift))
    if int(case.get("seed", 0)) % 4 == 0:
        ctx.reuse(f"{name}.forward", lambda x_: call(t.forward, x_), [x], y, case,
                  rtol=1e-12, atol=1e-12 * (ay + shift))
        ctx.reuse(f"{name}.backward", lambda y_: call(t.backward, y_), [y], xb, case,
                  rtol=1e-12, atol=1e-12 * (ax + shift))
    sx = ref.scale_x()
    fp = ref.deriv(x)
    denom = np.maximum(np.abs(x), sx)
    with np.errstate(all="ignore"):
        kinv = ref.ymag(x, y) / (fp * denom)
        ymagf = np.maximum(np.abs(y), 1.0) if name == "Logit" else np.abs(y)
        kfwd = fp * denom / ymagf
    adm = np.isfinite(fp) & (fp > 0) & (kinv <= 1e6)
    # NaN / inf where the domain promises a value
    bad_nan = np.where(~np.isfinite(y) | ~np.isfinite(xb))[0]
    keyb = f"{name}|" + (btag.split(":")[1] if btag else "regular")
    if btag:
        ctx.tag(btag, int(adm.sum()))
    ctx.check("roundtrip.finite", len(bad_nan) == 0, keyb + "|non-finite", case,
              lambda: {"x": float(x[bad_nan[0]]), "y": float(y[bad_nan[0]]),
                       "back": float(xb[bad_nan[0]]), "params": actual,
                       "ctor": ctor})
    err = np.abs(xb - x) / denom
    bad = np.where(adm & np.isfinite(xb) & ~(err <= 1e-6))[0]
    ctx.count("roundtrip.x.points", int(adm.sum()))
    ctx.check("roundtrip.x", len(bad) == 0, keyb + "|backward(forward(x))", case,
              lambda: {"x": float(x[bad[0]]), "y": float(y[bad[0]]),
                       "back": float(xb[bad[0]]), "rel_err": float(err[bad[0]]),
                       "cond": float(kinv[bad[0]]), "params": actual, "ctor": ctor,
                       "n_bad": int(len(bad)), "worst": float(np.nanmax(err[adm]))})
    ctx.extra["max-rel-err-x*1e12"] = max(ctx.extra["max-rel-err-x*1e12"],
                                          int(1e12 * float(np.max(err[adm & np.isfinite(err)],
                                                                   initial=0))))
    admy = adm & np.isfinite(kfwd) & (kfwd <= 1e6) & (ymagf > 0)
    with np.errstate(all="ignore"):
        erry = np.abs(yb - y) / ymagf
    bady = np.where(admy & ~(erry <= 1e-6))[0]
    ctx.count("roundtrip.y.points", int(admy.sum()))
    ctx.check("roundtrip.y", len(bady) == 0, keyb + "|forward(backward(y))", case,
              lambda: {"y": float(y[bady[0]]), "x": float(xb[bady[0]]),
                       "again": float(yb[bady[0]]), "rel_err": float(erry[bady[0]]),
                       "params": actual, "ctor": ctor})
    # ---- transformed values chosen by the caller rather than produced by forward: the
    # round numbers (0, +-1, +-0.5 ...). Every transform is increasing, so backward of a
    # value lying between the images of two neighbouring sampled points lies between
    # those points
    o_ = np.argsort(x[adm], kind="stable")
    xs_, ys_ = x[adm][o_], y[adm][o_]
    if len(xs_) >= 2 and bool(np.all(np.isfinite(ys_))) and bool(np.all(np.diff(ys_) >= 0)):
        y0 = np.array(LANDMARK_Y)
        try:
            xb0 = np.asarray(call(t.backward, y0.copy()), dtype=float)
            yb0 = np.asarray(call(t.forward, xb0.copy()), dtype=float)
        except Exception as e:
            xb0 = None
            ctx.check("landmark.runs", False, f"{name}|raises|landmark-y", case,
                      {"exc": repr(e), "params": actual})
        if xb0 is not None:
            j_ = np.searchsorted(ys_, y0, side="left")
            for k_, yv in enumerate(y0):
                j = int(j_[k_])
                if not (0 < j < len(ys_)) or not (ys_[j - 1] < yv < ys_[j]):
                    continue
                ctx.tag("landmark-y")
                lo_, hi_ = float(xs_[j - 1]), float(xs_[j])
                tol_ = 1e-6 * max(abs(lo_), abs(hi_), sx)     # the accuracy asked of a round trip
                got_ = float(xb0[k_])
                ctx.check("landmark.backward", math.isfinite(got_) and
                          lo_ - tol_ <= got_ <= hi_ + tol_,
                          f"{name}|backward-of-round-value", case,
                          lambda: {"y": float(yv), "backward": got_,
                                   "between": [lo_, hi_], "params": actual})
                ctx.check("landmark.forward", math.isfinite(float(yb0[k_])) and
                          float(ys_[j - 1]) - 1e-6 * max(1.0, abs(float(ys_[j - 1])))
                          <= float(yb0[k_]) <=
                          float(ys_[j]) + 1e-6 * max(1.0, abs(float(ys_[j]))),
                          f"{name}|forward(backward(round-value))", case,
                          lambda: {"y": float(yv), "backward": got_,
                                   "forward": float(yb0[k_]),
                                   "between": [float(ys_[j - 1]), float(ys_[j])],
                                   "params": actual})
    nt = adm & (y != x)
    for i in np.where(nt)[0][:40]:
        ctx.nontrivial(name, repr(sorted(actual.items())), float(x[i]))
    ctx.extra["admitted-points"] += int(adm.sum())
    ctx.extra["rejected-ill-conditioned"] += int((~adm).sum())
    # ---- the answers depend on the current parameter values only, not on the
    # history of the object (inner transforms are re-synchronised on every call)
    if case.get("history"):
        ctx.tag("history")
        hpar = case["history"]
        try:
            t2, _ = tr.make(name, ctor, hpar)
            for fn in ("backward", "forward", "jacobian"):
                call(getattr(t2, fn), x.copy() if fn != "backward" else y.copy())
                for k, v in par.items():
                    t2[k] = v
                a2 = {str(n): float(v) for n, v in zip(t2.params.names,
                                                       t2.params.values)}
                a2.update({str(n): float(v) for n, v in zip(t2.constants.names,
                                                            t2.constants.values)})
                if a2 != actual:
                    break
                arg = y if fn == "backward" else x
                r1 = np.asarray(call(getattr(t, fn), arg.copy()), dtype=float)
                r2 = np.asarray(call(getattr(t2, fn), arg.copy()), dtype=float)
                same = r1.shape == r2.shape and bool(np.all((r1 == r2) |
                                                            (np.isnan(r1) & np.isnan(r2))))
                ctx.check("history-independent", same, f"{name}|{fn}|depends-on-history",
                          case, lambda: {"fresh": r1[:4].tolist(),
                                         "reused": r2[:4].tolist(), "params": actual,
                                         "previous": hpar})
                for k, v in hpar.items():
                    t2[k] = v
        except Exception as e:
            ctx.check("history-independent", False, f"{name}|history-raises", case,
                      {"exc": repr(e)})
    # ---- python float inputs give the same answers as arrays
    idx = np.where(adm)[0][:3]
    for i in idx:
        ctx.tag("scalar-input")
        try:
            ys = call(t.forward, float(x[i]))
            xs = call(t.backward, float(y[i]))
            oks = isinstance(ys, float) and isinstance(xs, float) and \
                (ys == y[i] or (math.isnan(ys) and math.isnan(y[i]))) and \
                (xs == xb[i] or (math.isnan(xs) and math.isnan(xb[i])))
        except Exception as e:
            oks = False
            ys = xs = repr(e)
        ctx.check("scalar.same-as-array", oks, f"{name}|scalar-differs", case,
                  lambda: {"x": float(x[i]), "scalar": [repr(ys), repr(xs)],
                           "array": [float(y[i]), float(xb[i])]})
    # ---- backward_censored(forward(x), c) == max(x, c)
    if adm.sum() >= 4 and name != "Softmax":
        xs = np.sort(x[adm])
        c = float(xs[len(xs) // 2])
        ctx.tag("censored")
        ctx.api(f"{name}.backward_censored")
        try:
            xc = np.asarray(call(t.backward_censored, y.copy(), c), dtype=float)
            exp = np.maximum(x, c)
            errc = np.abs(xc - exp) / np.maximum(np.abs(exp), sx)
            badc = np.where(adm & ~(errc <= 1e-6))[0]
            ctx.check("censored", len(badc) == 0 and bool(np.all(xc[adm] >= c)),
                      f"{name}|backward_censored", case,
                      lambda: {"censor": c, "x": float(x[badc[0]]) if len(badc) else None,
                               "got": float(xc[badc[0]]) if len(badc) else None,
                               "params": actual})
        except Exception as e:
            ctx.check("censored", False, f"{name}|backward_censored-raises", case,
                      {"exc": repr(e)})
        # ... and with a threshold below every value (below the domain of the transform
        # where it has a lower end): nothing is censored
        xmin_ = float(np.min(x))
        for c_low in (xmin_ - 10.0 * (abs(xmin_) + 1.0), xmin_ - 1.0 - abs(xmin_) * 1e-3):
            if not np.isfinite(c_low) or not c_low < xmin_:
                continue
            ctx.api(f"{name}.backward_censored")
            ctx.tag("censored:threshold-below-everything")
            try:
                xl = np.asarray(call(t.backward_censored, y.copy(), c_low), dtype=float)
                errl = np.abs(xl - x) / np.maximum(np.abs(x), sx)
                badl = np.where(adm & ~(errl <= 1e-6))[0]
                ctx.check("censored.low-threshold", len(badl) == 0,
                          f"{name}|backward_censored|threshold-below-everything", case,
                          lambda: {"censor": c_low, "x": float(x[badl[0]]),
                                   "got": float(xl[badl[0]]), "params": actual})
            except Exception as e:
                ctx.check("censored.low-threshold", False,
                          f"{name}|backward_censored-raises|threshold-below-everything",
                          case, {"exc": repr(e), "censor": c_low})


def run_softmax(ctx, t, case, rng):
    ctx.tag("class:Softmax")
    for rep in range(20):
        k = int(rng.integers(1, 6))
        n = int(rng.integers(1, 8))
        x = rng.dirichlet(np.ones(k + 1) * rng.choice([0.3, 1.0, 5.0]), size=n)[:, :k]
        x = np.maximum(x, 1e-12)
        if np.any(x.sum(axis=1) > 0.999):
            continue
        ctx.api("Softmax.forward")
        y = np.asarray(call(t.forward, x.copy()))
        xb = np.asarray(call(t.backward, y.copy()))
        yb = np.asarray(call(t.forward, xb.copy()))
        err = np.abs(xb - x) / x
        ctx.count("roundtrip.x.points", x.size)
        ctx.check("roundtrip.x", bool(np.all(err <= 1e-6)),
                  "Softmax|regular|backward(forward(x))", case,
                  lambda: {"x": x.tolist(), "back": xb.tolist()})
        erry = np.abs(yb - y) / np.maximum(np.abs(y), 1.0)
        ctx.check("roundtrip.y", bool(np.all(erry <= 1e-6)),
                  "Softmax|regular|forward(backward(y))", case,
                  lambda: {"y": y.tolist(), "again": yb.tolist()})
        ctx.evaluated(1)
        ctx.nontrivial("Softmax", x)


def run(ctx):
    rng = ctx.rng(1)
    nrep = 14 if ctx.tier == "quick" else 400
    npts = 160 if ctx.tier == "quick" else 3000
    for it0 in range(nrep):
        it = it0 * ctx.nshards + ctx.shard
        for name in tr.CLASSES:
            if ctx.out_of_time():
                ctx.notes.append(f"stopped at {it0}")
                return
            ctor, par, tag = tr.gen_config(rng, name, it)
            _, hpar, _ = tr.gen_config(rng, name, it + 7)
            hpar = {k: v for k, v in hpar.items() if k in par}
            if it % 6 == 0:
                # ... or the object was configured a hair away (a few parts in ten
                # million) from the configuration asked for now
                hpar = {k: (v * (1 + 3e-7) if v != 0 else 3e-9) for k, v in par.items()}
            case = {"kind": "config", "class": name, "ctor": ctor, "params": par,
                    "history": hpar if it % 3 == 0 and hpar else None,
                    "tag": tag, "seed": int(rng.integers(0, 2 ** 31)),
                    "via": ["get_transform", "constructor", "values"][it % 3],
                    "npts": npts}
            run_config(ctx, case)
            if it0 == 0 and ctx.shard < 4 and name in ("BoxCox2", "YeoJohnson"):
                ctx.sample({k: case[k] for k in ("class", "ctor", "params", "tag")})


def replay(ctx, case):
    run_config(ctx, case)
