"""C05 - native kernels never touch memory outside their buffers.

Engine: the three extension modules are rebuilt from the working tree with clang
AddressSanitizer + UndefinedBehaviorSanitizer (kernels at -O0) and loaded into the
ordinary interpreter through LD_PRELOAD of the ASan runtime. A hostile workload
drives every public entry point that reaches a kernel; the monitor is the sanitizer
itself: report blocks (ASan errors, counted UBSan checks, deadly signals) are parsed
from the workers' stderr and attributed, through markers, to the API call that was
executing. Exit codes are not trusted; report blocks are counted."""
import json
import os
import re
import signal
import subprocess
import sys
import time
from collections import Counter
from concurrent.futures import ThreadPoolExecutor
from pathlib import Path

import numpy as np

ID = "C05"
FLAVOUR = "san"
ENGINE = "sanitizer"
TECHNIQUE = ("compiler sanitizers (clang ASan + UBSan on the C kernels, runtime "
             "preloaded into CPython) under a hostile boundary workload; report "
             "blocks parsed and attributed to API calls")
RULE = ("one worker process per entry point (aggregate, flathomogen, islinear, "
        "var2h, eckhardt, goue, crps, dscore/ensrank, anderson_darling_test, alpha, "
        "armodel_sim/residual, pareto_front, lstsq/olsleverage, Grid.coord2cell/"
        "cell2coord/cell2rowcol/neighbours/slice/clip/cells_inside_polygon, "
        "Catchment.upstream/downstream/delineate_area/delineate_boundary/"
        "compute_flowpathlengths/intersect, accumulate, slope, voronoi, "
        "delineate_river, points_inside_polygon, c-module date helpers and combi) x "
        "lengths {0, 1, 2, 3, 7, 64, 1000, random} x value classes {finite, NaN, "
        "mixed, +-inf, huge, negative} x scalar options at and beyond their ranges. "
        "A Python exception is an acceptable outcome; only sanitizer reports and "
        "signals refute. Non-trivial: distinct (entry, input class) whose call "
        "returned from a compiled wrapper (i.e. the kernel ran); thorough adds the "
        "other properties' workloads and the repository's own tests under the same "
        "instrumented build.")
ASSUMPTIONS = [
    "UBSan checks counted: signed-integer-overflow, integer-divide-by-zero, bounds, "
    "pointer-overflow, null, shift, alignment, vla-bound, object-size; "
    "float-cast-overflow is compiled out (not named by the property, harmless on "
    "x86-64, followed by range tests in correct callers)",
    "red-zone detection: overflows landing inside another live block further than "
    "the 2 KiB red zone, and intra-buffer index errors, are not visible",
    "the Cython-generated wrapper C in the working tree is taken as the translation "
    "of the .pyx (Cython is not available offline)",
]
LEVEL_TEXT = ("sanitizer-monitored exploration: every listed entry point is driven "
              "through its boundary input classes with the kernels instrumented; "
              "held means zero report blocks on everything executed")

VERIF = Path(__file__).resolve().parent.parent.parent
MARK = "@@CASE"


# =============================================================== the workload ===
def lengths(tier):
    base = [0, 1, 2, 3, 7, 64, 1000]
    return base


def values(rng, n, cls):
    if cls == "finite":
        return rng.normal(size=n) * 10
    if cls == "nan":
        return np.full(n, np.nan)
    if cls == "mixed":
        v = rng.normal(size=n) * 10
        v[rng.random(n) < 0.3] = np.nan
        return v
    if cls == "inf":
        v = rng.normal(size=n)
        if n:
            v[rng.integers(0, n, size=max(1, n // 3))] = np.inf
            v[rng.integers(0, n, size=max(1, n // 4))] = -np.inf
        return v
    if cls == "huge":
        return rng.normal(size=n) * 1e300
    if cls == "negative":
        return -np.abs(rng.normal(size=n)) * 100
    raise ValueError(cls)


VCLS = ["finite", "nan", "mixed", "inf", "huge", "negative"]


def E_aggregate(rng, tier):
    from hydrodiy.data import dutils
    for n in lengths(tier) + [int(rng.integers(1000, 20000))]:
        for cls in VCLS:
            v = values(rng, n, cls)
            idx = np.sort(rng.integers(-3, 3, size=n)).astype(np.int32)
            for op in (0, 1, 2, 3, 4, -1):
                for maxnan in (0, -1, 10 ** 6):
                    yield f"n={n}|{cls}", (lambda v=v, idx=idx, op=op, maxnan=maxnan:
                                           dutils.aggregate(idx, v, op, maxnan))
            ext = np.full(n, 2 ** 31 - 1, dtype=np.int32)
            yield f"n={n}|{cls}|extreme-index", (lambda v=v, ext=ext:
                                                 dutils.aggregate(ext, v, 0, 0))
            yield f"n={n}|{cls}|each-own-group", (
                lambda v=v, n=n: dutils.aggregate(np.arange(n, dtype=np.int32), v, 1, 0))


def E_flathomogen(rng, tier):
    from hydrodiy.data import dutils
    for n in lengths(tier) + [int(rng.integers(1000, 20000))]:
        for cls in VCLS:
            v = values(rng, n, cls)
            idx = np.sort(rng.integers(-3, 3, size=n)).astype(np.int32)
            for maxnan in (0, -1, 10 ** 6):
                yield f"n={n}|{cls}", (lambda v=v, idx=idx, m=maxnan:
                                       dutils.flathomogen(idx, v, m))
            yield f"n={n}|{cls}|own", (lambda v=v, n=n: dutils.flathomogen(
                np.arange(n, dtype=np.int32), v, 0))


def E_goue(rng, tier):
    from hydrodiy.data import signatures
    for n in lengths(tier):
        for cls in ("finite", "mixed", "negative"):
            v = values(rng, n, cls)
            idx = np.sort(rng.integers(0, 4, size=n)).astype(np.int32)
            yield f"n={n}|{cls}", (lambda v=v, idx=idx: signatures.goue(idx, v))


def E_islinear(rng, tier):
    from hydrodiy.data import qualitycontrol as qc
    for n in lengths(tier) + [int(rng.integers(1000, 50000))]:
        for cls in VCLS + ["linear"]:
            v = np.arange(n, dtype=float) if cls == "linear" else values(rng, n, cls)
            for npoints in (1, 3, n, n + 5, 10 ** 6):
                if npoints < 1:
                    continue
                yield f"n={n}|{cls}|npoints={npoints}", (
                    lambda v=v, p=npoints: qc.islinear(v, npoints=p))
            yield f"n={n}|{cls}|thresh", (lambda v=v: qc.islinear(v, 2, 1e-3, -1e9))


def E_eckhardt(rng, tier):
    from hydrodiy.data import signatures
    for n in lengths(tier) + [int(rng.integers(1000, 50000))]:
        for cls in VCLS:
            v = values(rng, n, cls)
            for kw in ({}, {"timestep_type": 0}, {"tau": 1e-300}, {"tau": 0.0},
                       {"thresh": 1.0, "BFI_max": 1.0}, {"thresh": 2.0},
                       {"timestep_type": 5}, {"BFI_max": -1.0},
                       {"tau": float("nan")}, {"timestep_type": -1},
                       {"timestep_type": 2}, {"timestep_type": -3},
                       {"timestep_type": -10 ** 8}, {"timestep_type": 2 ** 31 - 1},
                       {"timestep_type": -2 ** 31}):
                yield f"n={n}|{cls}", (lambda v=v, kw=kw: signatures.eckhardt(v, **kw))


def E_var2h(rng, tier):
    import pandas as pd
    from hydrodiy.data import dutils
    import c_hydrodiy_data as c
    t0 = pd.Timestamp("2000-01-01 00:00:00")
    specs = []
    for n in (0, 1, 2, 3, 7, 64, 1000):
        for span in ("short", "hour", "long", "dup", "beforehour"):
            if span == "short":
                secs = np.sort(rng.integers(0, 600, size=n))
            elif span == "hour":
                secs = np.linspace(0, 3600, n).astype(int) if n else np.array([], int)
            elif span == "long":
                secs = np.cumsum(rng.integers(1, 9000, size=n))
            elif span == "dup":
                secs = np.zeros(n, dtype=int) + 5
            else:
                secs = np.sort(rng.integers(0, 3599, size=n))
            specs.append((n, span, secs))
    for n, span, secs in specs:
        for unit in ("ns", "us", "s"):
            for cls in ("finite", "mixed", "negative", "inf"):
                def thunk(secs=secs, unit=unit, cls=cls, n=n):
                    idx = (t0 + pd.to_timedelta(secs, unit="s")).as_unit(unit) \
                        if n else pd.DatetimeIndex([]).as_unit(unit)
                    se = pd.Series(np.abs(values(np.random.default_rng(1), n, cls))
                                   if cls != "negative" else values(
                                       np.random.default_rng(1), n, cls), index=idx)
                    for P in (3600, 1800):
                        for rain in (False, True):
                            try:
                                dutils.var2h(se, P, rainfall=rain)
                            except (ValueError, IndexError, TypeError, AssertionError):
                                pass
                yield f"n={n}|{span}|{unit}|{cls}", thunk
    # direct calls with explicit output buffers / start times
    for n in (1, 2, 3, 10):
        for nh in (0, 1, 2, 5, 100):
            for hs in (-10, 0, 5, 3600, 10 ** 9, 2 ** 40):
                def thunk(n=n, nh=nh, hs=hs):
                    varsec = np.arange(n, dtype=np.int64) * 1000
                    c.var2h(86400, hs, 3600, 0, 0, varsec,
                            np.ones(n), np.zeros(nh))
                yield f"direct|n={n}|nh={nh}|hs={hs}", thunk
    # very long output (int overflow of i*nbsec_per_period beyond 68 years)
    def long_thunk():
        idx = pd.DatetimeIndex(["1900-01-01", "1950-01-01", "2000-06-01"])
        dutils.var2h(pd.Series([1.0, 2.0, 3.0], index=idx), 1800,
                     maxgapsec=2 ** 31 - 1)
    yield "long-span-100y", long_thunk

    def long_daily():
        idx = pd.date_range("1946-01-01", "2018-06-01", freq="D")
        dutils.var2h(pd.Series(np.ones(len(idx)), index=idx), 3600)
        idx2 = pd.DatetimeIndex(["1946-01-01 00:10", "2018-06-01 00:20"])
        dutils.var2h(pd.Series([1.0, 2.0], index=idx2), 3600)
    yield "long-span-72y-daily", long_daily
    # the progress display of the kernel (point and period counts of every width)
    for npt, step in ((5, 600), (1000, 360), (120000, 360), (1200000, 300), (2500000, 7)):
        def disp(npt=npt, step=step):
            idx = pd.date_range("2001-03-01 00:07", periods=npt, freq=f"{step}s")
            se = pd.Series(np.ones(npt), index=idx)
            for rain in (False, True):
                dutils.var2h(se, 3600, display=True, rainfall=rain)
            dutils.var2h(se, 60 if npt <= 120000 else 3600, display=True)
        yield f"display|n={npt}|step={step}s", disp


def E_datehelpers(rng, tier):
    import c_hydrodiy_data as c
    I32 = [0, 1, -1, 12, 13, 2 ** 31 - 1, -2 ** 31, 2 ** 31 - 2, 1999, 2000, 1900,
           -400, 31, 32, 28, 29]
    for y in I32:
        yield f"isleapyear|{y}", (lambda y=y: c.isleapyear(y))
        for m in (-1, 0, 1, 2, 12, 13, 2 ** 31 - 1, -2 ** 31):
            yield f"daysinmonth|{y}|{m}", (lambda y=y, m=m: c.daysinmonth(y, m))
            yield f"dayofyear|{m}|{y}", (lambda y=y, m=m: c.dayofyear(m, y))
            for d in (-1, 0, 1, 28, 29, 30, 31, 32, 2 ** 31 - 1, -2 ** 31):
                def t1(y=y, m=m, d=d):
                    c.add1month(np.array([y, m, d], dtype=np.int32))
                    c.add1day(np.array([y, m, d], dtype=np.int32))
                    c.comparedates(np.array([y, m, d], dtype=np.int32),
                                   np.array([d, m, y], dtype=np.int32))
                yield f"add|{y}|{m}|{d}", t1
    for day in (0.0, 20000101.0, 19991231.0, 20000229.0, 20010229.0, -1.0, 1e9, 3e9,
                -3e9, 1e13, 1e300, -1e300, float("nan"), float("inf"), 99991231.0,
                2147483647.0, 20001301.0, 20000132.0, 214748.0 * 1e4 + 101):
        yield f"getdate|{day}", (lambda day=day: c.getdate(day, np.zeros(3, np.int32)))
    for n in (0, 1, 5, 30, 31, 60, 61, 62, 2 ** 31 - 1, -2 ** 31, -1, 100):
        for k in (0, 1, 2, 15, 30, 31, 2 ** 31 - 1, -2 ** 31, -1, n):
            yield f"combi|{n}|{k}", (lambda n=n, k=k: c.combi(n, k))
    from hydrodiy.data import dutils
    for n in (0, 1, 2, 3, 5, 20, 30, 31, 40, 60):
        for k in (0, 1, 2, n // 2, n, n + 1):
            if hasattr(dutils, "combi"):
                yield f"dutils.combi|{n}|{k}", (lambda n=n, k=k: dutils.combi(n, k))


def E_crps(rng, tier):
    from hydrodiy.stat import metrics
    for n in (1, 2, 3, 7, 64, 500):
        for m in (1, 2, 3, 10, 100):
            for cls in ("finite", "mixed", "inf", "huge", "nanens"):
                def thunk(n=n, m=m, cls=cls):
                    r = np.random.default_rng(n * 1000 + m)
                    obs = values(r, n, "finite" if cls == "nanens" else cls)
                    ens = r.normal(size=(n, m))
                    if cls == "nanens":
                        ens[r.random((n, m)) < 0.3] = np.nan
                    if cls == "inf":
                        ens[0, 0] = np.inf
                    metrics.crps(obs, ens)
                    metrics.pit(obs, ens)
                    metrics.alpha(obs, ens, type="AD")
                    metrics.alpha(obs, ens, type="CV")
                yield f"n={n}|m={m}|{cls}", thunk
    yield "n=0", (lambda: metrics.crps(np.zeros(0), np.zeros((0, 3))))
    yield "m=0", (lambda: metrics.crps(np.zeros(3), np.zeros((3, 0))))


def E_dscore(rng, tier):
    from hydrodiy.stat import metrics
    import c_hydrodiy_stat as cs
    for n in (0, 1, 2, 3, 7, 40):
        for m in (0, 1, 2, 3, 10, 50):
            for cls in ("finite", "mixed", "inf", "ties"):
                def thunk(n=n, m=m, cls=cls):
                    r = np.random.default_rng(n * 100 + m)
                    sim = r.normal(size=(n, m))
                    if cls == "ties":
                        sim = np.round(sim)
                    if cls == "mixed" and sim.size:
                        sim[r.random((n, m)) < 0.3] = np.nan
                    if cls == "inf" and sim.size:
                        sim.flat[0] = np.inf
                    metrics.dscore(r.normal(size=n), sim)
                    for eps in (1e-6, 0.0, -1.0, 1e300, float("nan")):
                        cs.ensrank(eps, np.ascontiguousarray(sim), np.zeros((n, n)),
                                   np.zeros(n))
                yield f"n={n}|m={m}|{cls}", thunk


def E_adtest(rng, tier):
    from hydrodiy.stat import metrics
    for n in lengths(tier):
        for cls in ("unif", "edge", "out", "nan", "inf"):
            def thunk(n=n, cls=cls):
                r = np.random.default_rng(n)
                u = r.random(n)
                if n and cls == "edge":
                    u[0], u[-1] = 0.0, 1.0
                if n and cls == "out":
                    u[0] = 1.5
                if n and cls == "nan":
                    u[-1] = np.nan
                if n and cls == "inf":
                    u[0] = np.inf
                metrics.anderson_darling_test(u)
                metrics.cramer_von_mises_test(u)
            yield f"n={n}|{cls}", thunk
    # long, evenly spaced samples (plotting positions): the small-probability branch of
    # the finite-sample correction, at lengths whose square does not fit 32 bits
    for n in (46340, 46341, 65536, 92682, 200000):
        def reg(n=n):
            metrics.anderson_darling_test((np.arange(n) + 0.5) / n)
        yield f"n={n}|evenly-spaced", reg


def E_armodels(rng, tier):
    from hydrodiy.stat import armodels
    for order in (0, 1, 2, 9, 10, 11, 12, 50):
        for n in (0, 1, 2, 3, 64, 5000):
            for cls in ("finite", "mixed", "inf", "huge"):
                def thunk(order=order, n=n, cls=cls):
                    r = np.random.default_rng(order * 100 + n)
                    phi = r.normal(size=order) * 0.1
                    e = values(r, n, cls)
                    for kw in ({}, {"sim_mean": 1e300}, {"sim_mean": 2.0, "sim_ini": -5.0},
                               {"sim_ini": float("nan")}):
                        try:
                            armodels.armodel_sim(phi, e, **kw)
                        except ValueError:
                            pass
                        try:
                            armodels.armodel_residual(phi, e, **{**{"sim_mean": 0.0},
                                                                 **kw})
                        except ValueError:
                            pass
                yield f"order={order}|n={n}|{cls}", thunk


def E_pareto(rng, tier):
    from hydrodiy.stat import sutils
    for n in (0, 1, 2, 3, 7, 64, 300):
        for k in (0, 1, 2, 5):
            for cls in ("finite", "mixed", "inf", "ties"):
                def thunk(n=n, k=k, cls=cls):
                    r = np.random.default_rng(n * 10 + k)
                    d = r.normal(size=(n, k))
                    if cls == "ties":
                        d = np.round(d)
                    if cls == "mixed" and d.size:
                        d[r.random((n, k)) < 0.3] = np.nan
                    if cls == "inf" and d.size:
                        d.flat[0] = np.inf
                    for ori in (1, -1, 0, 2 ** 31 - 1):
                        sutils.pareto_front(d, ori)
                yield f"n={n}|k={k}|{cls}", thunk


def E_lstsq(rng, tier):
    from hydrodiy.stat import sutils
    import c_hydrodiy_stat as cs
    for n in (1, 2, 3, 10, 200):
        for p in (1, 2, 5):
            def thunk(n=n, p=p):
                r = np.random.default_rng(n + p)
                X = r.normal(size=(n, p))
                y = r.normal(size=n)
                try:
                    sutils.lstsq(X, y)
                    sutils.lstsq(X, y, add_intercept=True)
                except Exception:
                    pass
                cs.olsleverage(np.ascontiguousarray(X), np.eye(p), np.zeros(n))
            yield f"n={n}|p={p}", thunk
    yield "n=0", (lambda: cs.olsleverage(np.zeros((0, 2)), np.eye(2), np.zeros(0)))


def _grid(nr, nc, dtype=np.float64, csz=1.0, xll=0.0, yll=0.0):
    from hydrodiy.gis.grid import Grid
    return Grid("g", nc, nr, cellsize=csz, xllcorner=xll, yllcorner=yll, dtype=dtype)


PTS = [0.0, 0.5, -0.5, 1e9, -1e9, 1e19, -1e19, 1e300, -1e300, float("nan"),
       float("inf"), -float("inf"), 9.2233720368547758e18, 2.0 ** 63, 2.0 ** 64]


def E_gridgeom(rng, tier):
    for (nr, nc) in ((1, 1), (1, 5), (5, 1), (3, 4), (50, 60), (3, 0), (0, 3), (0, 0)):
        for csz in (1.0, 1e-300, 1e300, 0.05):
            def thunk(nr=nr, nc=nc, csz=csz):
                g = _grid(nr, nc, csz=csz)
                pts = np.array([[a, b] for a in PTS for b in PTS[:6]])
                g.coord2cell(pts)
                g.coord2cell(np.zeros((0, 2)))
                cells = np.array([0, -1, nr * nc, nr * nc - 1, 2 ** 62, -2 ** 62,
                                  2 ** 63 - 1, -2 ** 63])
                xy_ = np.asarray(g.cell2coord(cells), dtype=float)
                rc_ = np.asarray(g.cell2rowcol(cells))
                # "input the kernels cannot handle is answered with ... the documented
                # sentinel value": cell numbers outside the grid (every number, on a grid
                # without rows or columns) give (-1, -1) and NaN coordinates
                inval = (cells < 0) | (cells >= nr * nc)
                if not np.all(rc_[inval] == -1):
                    os.write(2, b"\nHYVERIF-MONITOR: invalid-cell-not-flagged c_cell2rowcol\n")
                if not np.all(np.isnan(xy_[inval])):
                    os.write(2, b"\nHYVERIF-MONITOR: invalid-cell-not-flagged c_cell2coord\n")
                g.cell2coord(np.zeros(0, dtype=np.int64))
                for c in cells:
                    try:
                        g.neighbours(int(c))
                    except ValueError:
                        pass
                g.slice(pts)
                g.slice(np.zeros((0, 2)))
                # coordinate arrays that do not have two columns, or not two dimensions
                for shp in ((1, 1), (3, 1), (50, 1), (7, 3), (4, 0), (5,), (2,), (1,),
                            (2, 2, 2), (0, 1), (1, 2, 1)):
                    q = np.linspace(0.1, max(nr, nc, 1) * csz, int(np.prod(shp))
                                    ).reshape(shp)
                    for meth in (g.coord2cell, g.slice):
                        try:
                            meth(q)
                        except (ValueError, IndexError, AssertionError, TypeError):
                            pass
            yield f"{nr}x{nc}|csz={csz}", thunk
    for (nr, nc) in ((1, 1), (2, 2), (6, 7)):
        def t2(nr=nr, nc=nc):
            g = _grid(nr, nc)
            g.data = np.arange(nr * nc, dtype=float).reshape((nr, nc))
            for box in ((0.1, 0.1, nc - 0.1, nr - 0.1), (0.5, 0.5, 0.6, 0.6),
                        (-5, -5, 50, 50), (nc - 0.1, nr - 0.1, 0.1, 0.1),
                        (float("nan"), 0, 1, 1)):
                try:
                    g.clip(*box)
                except Exception:
                    pass
            for poly in (np.zeros((0, 2)), np.array([[0.5, 0.5]]),
                         np.array([[0., 0.], [3., 3.]]),
                         np.array([[0., 0.], [3., 0.], [3., 3.], [0., 3.]]),
                         np.array([[np.nan, 0.], [3., 0.], [3., np.inf]])):
                try:
                    g.cells_inside_polygon(poly)
                except Exception:
                    pass
        yield f"clip-poly|{nr}x{nc}", t2


def E_gridedges(rng, tier):
    """points exactly on (and one ulp either side of) the four edges of the extent, the
    edge coordinate computed the way a user would write it (decimal product) as well
    as the way the kernel does: any disagreement between the kernel's extent test and
    its index arithmetic becomes a read outside the data"""
    sizes = (0.05, 0.7, 0.1, 0.3, 1.0 / 3, 0.025, 1e-3, 7.0)
    ncs = list(range(1, 41)) if tier == "thorough" else \
        [1, 2, 3, 5, 7, 10, 17, 20, 23, 29, 34, 39, 40]
    for csz in sizes:
        for nc in ncs:
            for (xll, yll) in ((0.0, 0.0), (0.1, -0.3), (-1.7, 144.05)):
                def thunk(csz=csz, nc=nc, xll=xll, yll=yll):
                    nr = 1 + nc % 4
                    g = _grid(nr, nc, csz=csz, xll=xll, yll=yll)
                    g.data = np.ones((nr, nc))
                    ex = {round(xll + csz * nc, 10), xll + csz * nc, xll + nc * csz,
                          float(np.float32(xll + csz * nc)), xll}
                    ey = {round(yll + csz * nr, 10), yll + csz * nr, yll}
                    xs = sorted({f(v) for v in ex for f in
                                 (lambda z: z, lambda z: np.nextafter(z, np.inf),
                                  lambda z: np.nextafter(z, -np.inf))})
                    ys = sorted({f(v) for v in ey for f in
                                 (lambda z: z, lambda z: np.nextafter(z, np.inf),
                                  lambda z: np.nextafter(z, -np.inf))})
                    rows = [yll + csz * (r + 0.5) for r in range(nr)]
                    cols = [xll + csz * (c + 0.5) for c in (0, nc - 1)]
                    pts = np.array([[x, y] for x in xs for y in rows + ys] +
                                   [[x, y] for x in cols for y in ys])
                    g.coord2cell(pts)
                    g.slice(pts)
                    for x in xs[:6]:
                        try:
                            g.clip(xll + csz * 0.2, yll + csz * 0.2, x, ys[-1])
                        except Exception:
                            pass
                yield f"csz={csz:.3g}|nc={nc}|xll={xll}", thunk


def E_readonly_memory(rng, tier):
    """inputs that live in memory the process may not write (a file mapped read-only, as
    np.load(..., mmap_mode="r") gives): a kernel that scribbles on its input - sorting
    it in place, clamping it - dies with SIGSEGV instead of silently altering data"""
    import tempfile
    from hydrodiy.stat import metrics, sutils, armodels
    from hydrodiy.data import dutils, qualitycontrol as qc
    from hydrodiy.gis import gutils
    d = tempfile.mkdtemp(prefix="hyv-ro-")

    def ro(a, name):
        f = os.path.join(d, name + ".npy")
        np.save(f, np.ascontiguousarray(a))
        return np.load(f, mmap_mode="r")
    n = 200
    r = np.random.default_rng(5)
    obs = np.abs(r.normal(size=n)) + 0.5
    ens = np.abs(r.normal(size=(n, 7))) + 0.5
    u = r.random(n)
    idx = np.repeat(np.arange(n // 4), 4).astype(np.int32)
    pts = r.normal(size=(50, 2))
    poly = np.array([[0., 0.], [1., 0.], [1., 1.], [0., 1.]])
    calls = {
        "anderson_darling": lambda: metrics.anderson_darling_test(ro(u, "u")),
        "cramer_von_mises": lambda: metrics.cramer_von_mises_test(ro(u, "u")),
        "crps": lambda: metrics.crps(ro(obs, "o"), ro(ens, "e")),
        "pit": lambda: metrics.pit(ro(obs, "o"), ro(ens, "e")),
        "alpha": lambda: metrics.alpha(ro(obs, "o"), ro(ens, "e")),
        "dscore": lambda: metrics.dscore(ro(obs, "o"), ro(ens, "e")),
        "scores": lambda: (metrics.nse(ro(obs, "o"), ro(obs * 1.1, "s")),
                           metrics.kge(ro(obs, "o"), ro(obs * 1.1, "s")),
                           metrics.bias(ro(obs, "o"), ro(obs * 1.1, "s")),
                           metrics.corr(ro(obs, "o"), ro(ens, "e"))),
        "aggregate": lambda: [dutils.aggregate(ro(idx, "i"), ro(obs, "o"), operator=k)
                              for k in range(4)],
        "flathomogen": lambda: dutils.flathomogen(ro(idx, "i"), ro(obs, "o")),
        "islinear": lambda: qc.islinear(ro(obs, "o")),
        "armodel": lambda: (armodels.armodel_sim(ro(np.array([0.5, 0.2]), "p"),
                                                 ro(obs, "o")),
                            armodels.armodel_residual(ro(np.array([0.5, 0.2]), "p"),
                                                      ro(obs, "o"))),
        "pareto_front": lambda: sutils.pareto_front(ro(ens, "e")),
        "lstsq": lambda: sutils.lstsq(ro(ens[:, :3], "x"), ro(obs, "o")),
        "standard_normal": lambda: sutils.standard_normal(ro(obs, "o")),
        "acf": lambda: sutils.acf(ro(obs, "o"), 5),
        "points_inside_polygon": lambda: gutils.points_inside_polygon(ro(pts, "q"),
                                                                      ro(poly, "y")),
    }

    # documented *output* arguments that live in memory the process may not write: the
    # call must be refused (or work on a copy), never store into that memory
    def ro_outputs():
        ins = np.zeros(len(pts), dtype=np.int32)
        variants = [ro(ins, "ins"),
                    np.frombuffer(bytes(ins.tobytes()), dtype=np.int32)]
        v3 = ins.copy()
        v3.setflags(write=False)
        variants.append(v3)
        for v in variants:
            before = bytes(np.asarray(v).tobytes())
            try:
                gutils.points_inside_polygon(pts.copy(), poly.copy(), inside=v)
            except (ValueError, TypeError, AssertionError):
                pass
            if bytes(np.asarray(v).tobytes()) != before:
                os.write(2, b"\nHYVERIF-MONITOR: store-into-read-only-buffer c_inside\n")
    calls["readonly-output-vector"] = ro_outputs

    def gridcalls():
        g = _grid(6, 7)
        g.data = ro(r.normal(size=(6, 7)), "gd")
        p = ro(np.abs(pts) * 3, "gp")
        g.coord2cell(p)
        g.slice(p)
        c = ro(np.arange(10, dtype=np.int64), "gc")
        g.cell2coord(c)
        g.cell2rowcol(c)
        cat, fd = _catch(np.full((6, 7), 4))
        cat.delineate_area(38)
        from hydrodiy.gis import grid as gg
        gg.voronoi(cat, ro(np.array([[1., 1.], [3., 3.], [5., 2.]]), "vp"))
    calls["grid"] = gridcalls
    try:
        for k, fn in calls.items():
            yield k, fn
    finally:
        import shutil
        shutil.rmtree(d, ignore_errors=True)


def E_shapes(rng, tier):
    """the same numbers in another *shape* than the documented one: a series as a column
    [n, 1] or a row [1, n], a 2-D array flattened, transposed or with a trailing axis, a
    0-d array, one column too many or too few. Most of these are refused with an
    exception; none may make a kernel walk memory it was not given."""
    from hydrodiy.stat import metrics, sutils, armodels
    from hydrodiy.data import dutils, qualitycontrol as qc
    from hydrodiy.gis import gutils
    from hydrodiy.gis import grid as gg
    r = np.random.default_rng(11)

    def variants(a):
        a = np.asarray(a)
        out = {"col": a.reshape((-1, 1)), "row": a.reshape((1, -1)),
               "3d": a[..., None], "0d": np.array(a.ravel()[0]) if a.size else a}
        if a.ndim == 2:
            out.update({"flat": a.ravel(), "T": a.T, "T-copy": np.ascontiguousarray(a.T),
                        "one-col-less": a[:, :-1], "one-col-more":
                        np.column_stack([a, a[:, :1]]), "one-row-less": a[:-1]})
        else:
            out.update({"two-cols": np.column_stack([a, a]), "shorter": a[:-1],
                        "longer": np.concatenate([a, a[:1]])})
        return out
    for n in (1, 2, 7, 40):
        obs = np.abs(r.normal(size=n)) + 0.5
        ens = np.abs(r.normal(size=(n, 5))) + 0.5
        u = r.random(n)
        idx = np.repeat(np.arange(n // 2 + 1), 2)[:n].astype(np.int32)
        pts = r.uniform(0, 5, size=(n, 2))
        poly = np.array([[0., 0.], [4., 0.], [4., 4.], [0., 4.]])
        phi = np.array([0.5, 0.2])
        g = _grid(5, 6)
        g.data = r.normal(size=(5, 6))
        cat, fd = _catch(np.full((5, 6), 4))
        cat.delineate_area(24)
        two = {
            "crps": (lambda a, b: metrics.crps(a, b), obs, ens),
            "pit": (lambda a, b: metrics.pit(a, b), obs, ens),
            "alpha": (lambda a, b: metrics.alpha(a, b), obs, ens),
            "dscore": (lambda a, b: metrics.dscore(a, b), obs, ens),
            "nse-kge-bias": (lambda a, b: (metrics.nse(a, b), metrics.kge(a, b),
                                           metrics.bias(a, b)), obs, obs * 1.1),
            "corr": (lambda a, b: metrics.corr(a, b), obs, ens),
            "aggregate": (lambda a, b: [dutils.aggregate(a, b, operator=k)
                                        for k in range(4)], idx, obs),
            "flathomogen": (lambda a, b: dutils.flathomogen(a, b), idx, obs),
            "armodel_sim": (lambda a, b: armodels.armodel_sim(a, b), phi, obs),
            "armodel_residual": (lambda a, b: armodels.armodel_residual(a, b), phi, obs),
            "lstsq": (lambda a, b: sutils.lstsq(a, b), ens[:, :2], obs),
            "points_inside_polygon": (lambda a, b: gutils.points_inside_polygon(a, b),
                                      pts, poly),
            "voronoi": (lambda a, b: gg.voronoi(cat, a), pts, pts),
            "coord2cell-slice": (lambda a, b: (g.coord2cell(a), g.slice(b)), pts, pts),
            "cells_inside_polygon": (lambda a, b: g.cells_inside_polygon(a), poly, poly),
        }
        one = {
            "anderson_darling": (metrics.anderson_darling_test, u),
            "cramer_von_mises": (metrics.cramer_von_mises_test, u),
            "islinear": (qc.islinear, obs),
            "pareto_front": (sutils.pareto_front, ens),
            "standard_normal": (sutils.standard_normal, obs),
            "cell2coord": (lambda a: (g.cell2coord(a), g.cell2rowcol(a)),
                           np.arange(n, dtype=np.int64)),
        }
        for nm, (fn, a, b) in two.items():
            va, vb = variants(a), variants(b)
            for ka, xa in va.items():
                def thunk(fn=fn, xa=xa, b=b):
                    fn(np.array(xa, copy=True), np.array(b, copy=True))
                yield f"{nm}|first={ka}|n={n}", thunk
            for kb, xb in vb.items():
                def thunk(fn=fn, a=a, xb=xb):
                    fn(np.array(a, copy=True), np.array(xb, copy=True))
                yield f"{nm}|second={kb}|n={n}", thunk
            for k in ("col", "row", "3d"):
                def thunk(fn=fn, xa=va[k], xb=vb[k]):
                    fn(np.array(xa, copy=True), np.array(xb, copy=True))
                yield f"{nm}|both={k}|n={n}", thunk
        for nm, (fn, a) in one.items():
            for ka, xa in variants(a).items():
                def thunk(fn=fn, xa=xa):
                    fn(np.array(xa, copy=True))
                yield f"{nm}|arg={ka}|n={n}", thunk


def E_sizes(rng, tier):
    """dense sweeps of every size-like dimension (each length from 0 or 1 up to a few
    hundred, plus the neighbours of powers of two and of round numbers beyond), with
    ordinary finite values: fixed-size work areas, block sizes and thresholds inside a
    kernel show at one particular length only"""
    from hyverif.core import size_edges
    from hydrodiy.stat import metrics, sutils, armodels
    from hydrodiy.data import dutils, qualitycontrol as qc
    from hydrodiy.gis import gutils
    import pandas as pd
    r = np.random.default_rng(11)
    big = size_edges(301, 70001 if tier == "thorough" else 20001)

    def chunks(seq, k):
        seq = list(seq)
        return [seq[i:i + k] for i in range(0, len(seq), k)]

    for ch in chunks(range(1, 301), 50):
        def crps_m(ch=ch):
            for m in ch:
                e = r.normal(size=(3, m))
                metrics.crps(r.normal(size=3), e)
                metrics.pit(r.normal(size=3), e)
        yield f"crps-pit|members={ch[0]}..{ch[-1]}", crps_m

        def dscore_m(ch=ch):
            for m in ch:
                metrics.dscore(r.normal(size=3), r.normal(size=(3, m)))
        yield f"dscore|members={ch[0]}..{ch[-1]}", dscore_m

        def crps_n(ch=ch):
            for n in ch:
                metrics.crps(r.normal(size=n), r.normal(size=(n, 2)))
                metrics.alpha(r.normal(size=n), r.normal(size=(n, 3)), type="CV")
        yield f"crps-alpha|forecasts={ch[0]}..{ch[-1]}", crps_n

        def one_d(ch=ch):
            for n in ch:
                x = np.abs(r.normal(size=n)) + 0.1
                idx = np.sort(r.integers(0, max(1, n // 3) + 1, size=n)).astype(np.int32)
                for op in range(4):
                    dutils.aggregate(idx, x, operator=op)
                dutils.flathomogen(idx, x, 1)
                metrics.anderson_darling_test(r.random(n))
                metrics.cramer_von_mises_test(r.random(n))
                qc.islinear(x)
                sutils.standard_normal(x)
                for order in (1, 2, 10):
                    armodels.armodel_sim(np.full(order, 0.05), x)
                    armodels.armodel_residual(np.full(order, 0.05), x)
                sutils.pareto_front(r.normal(size=(min(n, 120), 3)))
                gutils.points_inside_polygon(r.normal(size=(n, 2)),
                                             r.normal(size=(max(3, n % 97), 2)))
        yield f"one-dimensional|length={ch[0]}..{ch[-1]}", one_d
    for ch in chunks(big, 6):
        def one_d_big(ch=ch):
            for n in ch:
                x = np.abs(r.normal(size=n)) + 0.1
                idx = (np.arange(n) // 7).astype(np.int32)
                dutils.aggregate(idx, x, operator=0)
                dutils.flathomogen(idx, x, 0)
                metrics.anderson_darling_test(r.random(n))
                metrics.cramer_von_mises_test(r.random(n))
                armodels.armodel_sim(np.array([0.3, 0.1]), x)
                armodels.armodel_residual(np.array([0.3, 0.1]), x)
                gutils.points_inside_polygon(r.normal(size=(n, 2)), r.normal(size=(5, 2)))
                metrics.pit(r.normal(size=n), r.normal(size=(n, 3)))
                if n <= 20001:
                    metrics.crps(r.normal(size=n), r.normal(size=(n, 2)))
        yield f"one-dimensional|length={ch[0]}..{ch[-1]}", one_d_big
    # very wide ensembles / very long vectors: work areas taken from the stack
    for m in (100000, 300000, 1000000):
        def wide(m=m):
            metrics.dscore(np.array([0.1, 0.7]), r.normal(size=(2, m)))
            metrics.crps(np.array([0.1, 0.7]), r.normal(size=(2, m)))
            metrics.pit(np.array([0.1, 0.7]), r.normal(size=(2, m)))
        yield f"wide-ensemble|members={m}", wide
    def long_vectors():
        n = 1000000
        x = np.abs(r.normal(size=n)) + 0.1
        dutils.aggregate((np.arange(n) // 30).astype(np.int32), x)
        metrics.anderson_darling_test(r.random(n))
        armodels.armodel_sim(np.array([0.3]), x)
        qc.islinear(x)
    yield "long-vectors|n=1000000", long_vectors


def E_pip(rng, tier):
    from hydrodiy.gis import gutils
    polys = [np.zeros((0, 2)), np.array([[0.5, 0.5]]), np.array([[0., 0.], [3., 3.]]),
             np.array([[0., 0.], [3., 0.], [3., 3.], [0., 3.]]),
             np.array([[0., 0.], [1e300, 0.], [0., 1e300]]),
             np.array([[np.nan, 0.], [3., 0.], [3., np.inf]]),
             rng.normal(size=(200, 2))]
    for pi, poly in enumerate(polys):
        for npt in (0, 1, 2, 7, 1000):
            for nprint in (0, 1, -1, 3, 2 ** 31 - 1):
                def thunk(poly=poly, npt=npt, nprint=nprint):
                    pts = np.random.default_rng(npt).normal(size=(npt, 2)) * 2
                    try:
                        gutils.points_inside_polygon(pts, poly, nprint=nprint)
                        gutils.points_inside_polygon(
                            pts, poly, inside=np.ones(npt, dtype=np.int32), atol=0.0)
                    except (ValueError, AssertionError):
                        pass
                yield f"poly{pi}|npt={npt}|nprint={nprint}", thunk
    if tier == "thorough":
        # more points than INT_MAX / 100 with the progress log switched on (percentages
        # computed in integer arithmetic overflow there); needs ~0.5 GB for a minute
        def many_points():
            npt = 21_600_000
            pts = np.zeros((npt, 2))
            pts[:, 0] = 0.5
            pts[:, 1] = 0.5
            sq = np.array([[0., 0.], [1., 0.], [1., 1.], [0., 1.]])
            # (a progress line falls on point 21 500 000 > INT_MAX / 100)
            gutils.points_inside_polygon(pts, sq, nprint=2_150_000)
        yield "many-points|npt=21.6e6|nprint=2.15e6", many_points


def _catch(codes):
    from hydrodiy.gis.grid import Grid, Catchment
    codes = np.asarray(codes, dtype=np.int64)
    fd = Grid("fd", codes.shape[1], codes.shape[0], dtype=np.int64)
    fd.data = codes
    return Catchment("c", fd), fd


def E_catchment(rng, tier):
    from hyverif.props.c06 import gen_forest, CODES
    shapes = [(1, 1), (1, 2), (2, 1), (1, 7), (7, 1), (2, 2), (3, 3), (9, 11), (2, 8), (5, 5)]
    for (nr, nc) in shapes:
        for kind in ("forest", "random", "allsame", "converge"):
            def thunk(nr=nr, nc=nc, kind=kind):
                r = np.random.default_rng(nr * 100 + nc)
                if kind == "forest":
                    codes = gen_forest(r, nr, nc, 1)
                elif kind == "converge":
                    # every cell drains towards one cell: that cell receives flow from
                    # all of its (up to 8) neighbours
                    from hyverif.oracles.flowgraph import code_for_step
                    r0, c0 = nr // 2, nc // 2
                    codes = np.zeros((nr, nc), dtype=np.int64)
                    for i_ in range(nr):
                        for j_ in range(nc):
                            if (i_, j_) != (r0, c0):
                                codes[i_, j_] = code_for_step(int(np.sign(r0 - i_)),
                                                              int(np.sign(c0 - j_)))
                elif kind == "random":
                    codes = r.choice(CODES + [5, -1, 2 ** 40], size=(nr, nc))
                else:
                    codes = np.full((nr, nc), 1)
                cat, fd = _catch(codes)
                n = nr * nc
                bad = [0, n - 1, -1, n, n + 1, 2 ** 62, -2 ** 62]
                for c in bad:
                    for f in (cat.upstream, cat.downstream):
                        try:
                            f(c)
                        except ValueError:
                            pass
                cat.upstream(np.zeros(0, dtype=np.int64))
                cat.downstream(np.arange(n))
                for outlet in (0, n - 1, n // 2, -1, n):
                    for nval in (1, 2, 3, n, n + 1, n + 2, 4 * n + 8):
                        for inl in (None, [0], [n - 1, 0], [-1], [n]):
                            try:
                                cat.delineate_area(outlet, inl, nval=nval)
                            except ValueError:
                                continue
                            try:
                                cat.delineate_boundary()
                                cat.compute_flowpathlengths()
                            except ValueError:
                                pass
            yield f"{nr}x{nc}|{kind}", thunk


def E_catchment_fromdict(rng, tier):
    """from_dict-built catchments of 0 / 1 / 2 cells and inconsistent content"""
    from hydrodiy.gis.grid import Grid, Catchment
    from hydrodiy.gis import grid as g
    for (nr, nc) in ((1, 1), (2, 2), (4, 5), (3, 0), (0, 3), (0, 0), (10, 10), (3, 40)):
        for cells in ([], [0], [0, 1], [nr * nc - 1], list(range(nr * nc)),
                      # areas in several pieces: a lone lowest cell and cells far from it,
                      # copies of one cell, two distant cells
                      [0, nr * nc - 1, nr * nc - 2, max(nr * nc - 1 - nc, 0)],
                      [nr * nc // 2] * 3, [0, nr * nc // 2 + 1], [1, nr * nc - 1],
                      [0, 0, nr * nc - 1, nr * nc - 1],
                      [nr * nc], [-1], [2 ** 40],
                      # valid and invalid cell numbers together (a negative number is
                      # a legal *python* index into the mask the wrapper builds)
                      [-1, -2, 0], [0, 1, -1], [-nr * nc, 0], [-nr * nc - 1, 0, 1],
                      [0, nr * nc], [0, 1, nr * nc + 1], [0, 2 ** 40], [-2 ** 62, 0],
                      [0, 0, 0], [nr * nc - 1, -1, nr * nc - 1],
                      # numbers whose low 32 bits are a valid cell
                      [0, 2 ** 31 + 1, 1], [0, 2 ** 32 + 1, 1, 2], [1, 2 ** 40 + 2, 0],
                      [0, -2 ** 40 + 1, 1], [0, 1, 2 ** 62 + 1], [0, 2 ** 31, 1],
                      [2, -2 ** 31 + 1, 0]):
            def thunk(nr=nr, nc=nc, cells=cells):
                fd = Grid("fd", nc, nr, dtype=np.int64)
                dic = {"name": "c", "idxcell_outlet": cells[0] if cells else 0,
                       "idxinlets": None, "idxcells_area": cells,
                       "idxcells_area_filled": cells, "flowdir": fd.to_dict()}
                cat = Catchment.from_dict(dic)
                nmask = nr * nc
                for f in (lambda: cat.delineate_boundary(),
                          # the documented option: the caller's own area mask
                          lambda: cat.delineate_boundary(
                              catchment_area_mask=np.ones(nmask, dtype=np.int64)),
                          lambda: cat.delineate_boundary(
                              catchment_area_mask=np.zeros(nmask, dtype=np.int64)),
                          lambda: cat.delineate_boundary(
                              catchment_area_mask=np.ones(max(nmask - 1, 0), dtype=np.int64)),
                          lambda: cat.compute_flowpathlengths(),
                          lambda: cat.intersect(Grid("c", 2, 2, cellsize=2.0)),
                          lambda: cat.intersect(Grid("c", 1, 1, cellsize=1e-3,
                                                     xllcorner=-5)),
                          lambda: cat.extent(),
                          lambda: g.voronoi(cat, np.array([[0.5, 0.5]])),
                          lambda: g.voronoi(cat, np.zeros((0, 2))),
                          lambda: g.voronoi(cat, np.random.default_rng(1)
                                            .normal(size=(40, 2)))):
                    try:
                        f()
                    except (ValueError, IndexError, AssertionError, ZeroDivisionError):
                        pass
            yield f"{nr}x{nc}|cells={len(cells)}:{cells[:1]}", thunk


def E_accumulate(rng, tier):
    from hydrodiy.gis import grid as g
    from hyverif.props.c06 import gen_forest, CODES
    for (nr, nc) in ((1, 1), (1, 2), (2, 1), (3, 3), (10, 12)):
        for kind in ("forest", "random"):
            for nprint in (100, 1, 0, -1, -7):
                for maxacc in (-1, 0, 1, 2, 1000):
                    def thunk(nr=nr, nc=nc, kind=kind, nprint=nprint, maxacc=maxacc):
                        r = np.random.default_rng(nr + nc)
                        codes = gen_forest(r, nr, nc, 0) if kind == "forest" else \
                            r.choice(CODES, size=(nr, nc))
                        cat, fd = _catch(codes)
                        try:
                            g.accumulate(fd, nprint=nprint, max_accumulated_cells=maxacc)
                        except ValueError:
                            pass
                        alt = g.Grid("alt", nc, nr)
                        alt.data = r.normal(size=(nr, nc))
                        try:
                            g.slope(fd, alt, nprint=nprint)
                        except ValueError:
                            pass
                    yield f"{nr}x{nc}|{kind}|nprint={nprint}|max={maxacc}", thunk
    # geo-references at the ends of the number line (cell sizes, corners, altitudes and
    # no-data values with hundreds of digits: anything a kernel formats or scales)
    for csz in (1e-300, 1e-30, 1e30, 1e108, 1e200, 1e300, 1.7e308, 5e-324):
        for corner in (0.0, -1e300, 1e300):
            def extreme(csz=csz, corner=corner):
                r = np.random.default_rng(3)
                from hydrodiy.gis.grid import Grid, Catchment
                codes = gen_forest(r, 3, 4, 0)
                fd = Grid("fd", 4, 3, dtype=np.int64, cellsize=csz, xllcorner=corner,
                          yllcorner=-corner)
                fd.data = codes
                alt = Grid("alt", 4, 3, cellsize=csz, xllcorner=corner, yllcorner=-corner,
                           nodata=-1e300)
                alt.data = r.normal(size=(3, 4)) * 1e300
                for f in (lambda: g.slope(fd, alt), lambda: g.slope(fd, alt, nprint=1),
                          lambda: g.accumulate(fd, alt, nprint=1),
                          lambda: g.delineate_river(fd, 0),
                          lambda: Catchment("c", fd).delineate_area(5)):
                    try:
                        f()
                    except (ValueError, OverflowError, ZeroDivisionError):
                        pass
            yield f"extreme-georeference|csz={csz:g}|corner={corner:g}", extreme
    # mismatching shapes must be rejected by the wrappers' asserts
    def mismatch():
        cat, fd = _catch(np.ones((3, 3)))
        other = g.Grid("o", 2, 2)
        for f in (lambda: g.accumulate(fd, other), lambda: g.slope(fd, other)):
            try:
                f()
            except (AssertionError, ValueError):
                pass
    yield "mismatch-shapes", mismatch


def E_river(rng, tier):
    from hydrodiy.gis import grid as g
    from hyverif.props.c06 import gen_forest, CODES
    for (nr, nc) in ((1, 1), (1, 3), (3, 1), (4, 4), (10, 10)):
        for kind in ("forest", "random"):
            def thunk(nr=nr, nc=nc, kind=kind):
                r = np.random.default_rng(nr * 7 + nc)
                codes = gen_forest(r, nr, nc, 1) if kind == "forest" else \
                    r.choice(CODES, size=(nr, nc))
                cat, fd = _catch(codes)
                n = nr * nc
                for start in (0, n - 1, n // 2, -1, n, 2 ** 62):
                    for nval in (0, 1, 2, n, n + 3, 1000):
                        try:
                            g.delineate_river(fd, start, nval=nval)
                        except (ValueError, AssertionError):
                            pass
            yield f"{nr}x{nc}|{kind}", thunk


def E_voronoi_intersect(rng, tier):
    from hydrodiy.gis import grid as g
    from hyverif.props.c06 import gen_forest
    from hyverif.oracles.flowgraph import FlowGraph
    for (nr, nc) in ((2, 2), (5, 6), (12, 12)):
        for npts in (0, 1, 2, 3, 50, 500):
            def thunk(nr=nr, nc=nc, npts=npts):
                r = np.random.default_rng(nr + npts)
                codes = gen_forest(r, nr, nc, 1)
                model = FlowGraph(codes.tolist())
                o = int(np.argmax([len(model.area(c)) for c in range(model.n)]))
                cat, fd = _catch(codes)
                cat.delineate_area(o, nval=model.n + 5)
                pts = r.normal(size=(npts, 2)) * nr
                for p in (pts, pts * 1e300, np.full((npts, 2), np.nan)):
                    try:
                        g.voronoi(cat, p)
                    except (ValueError, AssertionError):
                        pass
                for csz, xll in ((2.0, 0.0), (1.0, -50.0), (3.0, 1.5), (1e-300, 0.0),
                                 (1e300, 0.0), (2.0, float("nan"))):
                    for filled in (False, True):
                        try:
                            cat.intersect(g.Grid("c", 4, 3, cellsize=csz, xllcorner=xll),
                                          filled=filled)
                        except (ValueError, IndexError, AssertionError):
                            pass
            yield f"{nr}x{nc}|npts={npts}", thunk


def E_intersect_alignments(rng, tier):
    """small catchments (from_dict) against coarse grids at many alignments: the
    number of coarse cells hit varies from 1 to (ratio+1)^2 for the same bounding box"""
    from hydrodiy.gis.grid import Grid, Catchment
    fine = Grid("fd", 12, 10, dtype=np.int64)
    blocks = {"1x1": [(4, 5)], "2x2": [(4, 5), (4, 6), (5, 5), (5, 6)],
              "row4": [(3, k) for k in range(2, 6)], "col3": [(k, 7) for k in range(2, 5)],
              "L": [(6, 2), (7, 2), (8, 2), (8, 3), (8, 4)],
              "diag": [(k, k) for k in range(1, 9)],
              "corners": [(0, 0), (0, 11), (9, 0), (9, 11)]}
    for bname, rc in blocks.items():
        cells = [int(r * 12 + k) for r, k in rc]
        for csz in (1.0, 1.5, 2.0, 3.0, 5.0):
            for off in (0.0, 0.25, 0.5, 1.0, 1.25, 2.5):
                def thunk(cells=cells, csz=csz, off=off):
                    dic = {"name": "c", "idxcell_outlet": cells[0], "idxinlets": None,
                           "idxcells_area": cells, "idxcells_area_filled": cells,
                           "flowdir": fine.to_dict()}
                    cat = Catchment.from_dict(dic)
                    for filled in (False, True):
                        for (cnr, cnc) in ((12, 14), (3, 3), (1, 1)):
                            g2 = Grid("c", cnc, cnr, cellsize=csz, xllcorner=-off,
                                      yllcorner=-off * 0.5)
                            try:
                                cat.intersect(g2, filled=filled)
                            except (ValueError, IndexError, AssertionError):
                                pass
                yield f"{bname}|csz={csz}|off={off}", thunk


ENTRIES = {
    "aggregate": E_aggregate, "flathomogen": E_flathomogen, "goue": E_goue,
    "islinear": E_islinear, "eckhardt": E_eckhardt, "var2h": E_var2h,
    "datehelpers": E_datehelpers, "crps-pit-alpha": E_crps, "dscore-ensrank": E_dscore,
    "anderson_darling": E_adtest, "armodels": E_armodels, "pareto_front": E_pareto,
    "lstsq-olsleverage": E_lstsq, "grid-geometry": E_gridgeom,
    "points_inside_polygon": E_pip, "catchment": E_catchment,
    "catchment-from_dict": E_catchment_fromdict, "accumulate-slope": E_accumulate,
    "delineate_river": E_river, "voronoi-intersect": E_voronoi_intersect,
    "intersect-alignments": E_intersect_alignments, "grid-edges": E_gridedges,
    "readonly-memory": E_readonly_memory, "size-sweeps": E_sizes,
    "shape-variants": E_shapes,
}


# ============================================================== worker side ====
def install_counters():
    """count calls that return from a compiled wrapper (= the kernel ran)"""
    import c_hydrodiy_data, c_hydrodiy_stat, c_hydrodiy_gis
    counts = Counter()

    def wrap(mod, name, fn):
        def w(*a, **k):
            try:
                r = fn(*a, **k)
            except BaseException:
                counts["raised:" + name] += 1
                raise
            counts["returned:" + name] += 1
            return r
        return w

    for mod in (c_hydrodiy_data, c_hydrodiy_stat, c_hydrodiy_gis):
        for name in dir(mod):
            fn = getattr(mod, name)
            if name.startswith("_") or not callable(fn):
                continue
            try:
                setattr(mod, name, wrap(mod, name, fn))
            except Exception:
                pass
    return counts


def worker_main(argv):
    entry, tier, seed, start, out = argv[0], argv[1], int(argv[2]), int(argv[3]), argv[4]
    import warnings
    warnings.simplefilter("ignore")
    np.seterr(all="ignore")
    os.environ.setdefault("MPLBACKEND", "Agg")
    devnull = os.open(os.devnull, os.O_WRONLY)
    os.dup2(devnull, 1)
    counts = install_counters()
    rng = np.random.default_rng([seed, sum(map(ord, entry))])
    res = {"entry": entry, "ncases": 0, "classes": {}, "py_exceptions": Counter(),
           "done": False, "last": -1}
    t0 = time.time()
    budget = float(os.environ.get("C05_BUDGET", "1e9"))
    for i, (cls, thunk) in enumerate(ENTRIES[entry](rng, tier)):
        if i < start:
            continue
        if time.time() - t0 > budget:
            res["cut"] = True
            break
        os.write(2, f"\n{MARK} {entry} {i} {cls}\n".encode())
        before = sum(v for k, v in counts.items() if k.startswith("returned:"))
        try:
            thunk()
            outcome = "ok"
        except Exception as e:          # a Python exception is an accepted outcome
            outcome = "exc:" + type(e).__name__
            res["py_exceptions"][type(e).__name__] += 1
        after = sum(v for k, v in counts.items() if k.startswith("returned:"))
        d = res["classes"].setdefault(cls, {"n": 0, "kernel_calls": 0})
        d["n"] += 1
        d["kernel_calls"] += after - before
        res["ncases"] += 1
        res["last"] = i
        if i % 50 == 0:
            with open(out + ".part", "w") as f:
                json.dump({**res, "py_exceptions": dict(res["py_exceptions"]),
                           "cy": dict(counts)}, f)
    res["done"] = True
    res["cy"] = dict(counts)
    res["py_exceptions"] = dict(res["py_exceptions"])
    with open(out, "w") as f:
        json.dump(res, f)


# ============================================================== log parsing ====
RE_ASAN = re.compile(r"==\d+==ERROR: AddressSanitizer: (\S+)")
RE_UBSAN = re.compile(r"^(\S+?):(\d+):(\d+): runtime error: (.*)$")
RE_MON = re.compile(r"^HYVERIF-MONITOR: (\S+) (\S+)")
RE_FRAME = re.compile(r"#\d+ 0x[0-9a-f]+ in (\S+) (\S+)")
UB_KINDS = [("signed integer overflow", "signed-integer-overflow"),
            ("division by zero", "integer-divide-by-zero"),
            ("out of bounds", "bounds"), ("pointer index expression", "pointer-overflow"),
            ("applying non-zero offset", "pointer-overflow"),
            ("applying zero offset to null", "null"),
            ("null pointer", "null"), ("shift exponent", "shift"),
            ("left shift", "shift"), ("misaligned", "alignment"),
            ("variable length array", "vla-bound"),
            ("negation of", "signed-integer-overflow"),
            ("insufficient space", "object-size")]


def repo_frame(lines):
    """first stack frame that belongs to the repository's kernels / wrappers"""
    for ln in lines:
        m = RE_FRAME.search(ln)
        if not m:
            continue
        fn, loc = m.group(1), m.group(2)
        if "hydrodiy" in loc or fn.startswith("c_") or fn.startswith("__pyx_"):
            base = os.path.basename(loc.split(":")[0])
            return fn, base + ":" + (loc.split(":")[1] if ":" in loc else "?")
    return None, None


def parse_log(text):
    """-> list of reports {case, kind, function, where, excerpt}"""
    reports = []
    cur = None
    lines = text.splitlines()
    i = 0
    while i < len(lines):
        ln = lines[i]
        if ln.startswith(MARK):
            cur = ln[len(MARK):].strip()
        m = RE_ASAN.search(ln)
        if m:
            block = lines[i:i + 40]
            fn, where = repo_frame(block)
            reports.append({"case": cur, "kind": "asan:" + m.group(1),
                            "function": fn or "?", "where": where or "?",
                            "excerpt": "\n".join(block[:14])})
            i += 1
            continue
        m = RE_MON.match(ln.strip())
        if m:
            # a violation observed by the harness itself at the Python / C frontier
            # (same three-part key as a sanitizer report)
            reports.append({"case": cur, "kind": "monitor:" + m.group(1),
                            "function": m.group(2), "where": "?",
                            "excerpt": ln.strip()})
            i += 1
            continue
        m = RE_UBSAN.match(ln.strip())
        if m and "hydrodiy" in m.group(1) or (m and os.path.basename(m.group(1)).startswith("c_")):
            msg = m.group(4)
            kind = "other"
            for pat, k in UB_KINDS:
                if pat in msg:
                    kind = k
                    break
            block = lines[i:i + 12]
            fn, where = repo_frame(block)
            reports.append({"case": cur, "kind": "ubsan:" + kind,
                            "function": fn or os.path.basename(m.group(1)),
                            "where": os.path.basename(m.group(1)) + ":" + m.group(2),
                            "excerpt": "\n".join(block[:8])})
        i += 1
    return reports


# ================================================================ driver side ===
def spawn(entry, tier, seed, start, workdir, env, budget, tag=""):
    out = str(workdir / f"c05-{entry}-{start}{tag}.json")
    errp = workdir / f"c05-{entry}-{start}{tag}.err"
    e = dict(env)
    e["C05_BUDGET"] = str(budget)
    with open(errp, "wb") as ef:
        p = subprocess.Popen([sys.executable, "-X", "faulthandler", "-m",
                              "hyverif.props.c05", "--worker", entry, tier, str(seed),
                              str(start), out], env=e, cwd=str(workdir / "cwd"),
                             stdout=subprocess.DEVNULL, stderr=ef,
                             start_new_session=True)
        try:
            p.wait(timeout=budget * 3 + 300)
            to = False
        except subprocess.TimeoutExpired:
            to = True
            try:
                os.killpg(p.pid, signal.SIGKILL)
            except ProcessLookupError:
                pass
            p.wait()
    text = errp.read_bytes().decode(errors="replace")
    res = None
    for cand in (out, out + ".part"):
        if os.path.exists(cand):
            try:
                res = json.load(open(cand))
                break
            except Exception:
                pass
    return {"rc": p.returncode, "timeout": to, "text": text, "res": res}


def run_entry(entry, tier, seed, workdir, env, budget):
    """run one entry to completion, restarting after a deadly signal"""
    start = 0
    t_entry = time.time()
    reports, total, classes, cy = [], 0, {}, Counter()
    deaths = 0
    incon = []
    exc = Counter()
    while True:
        r = spawn(entry, tier, seed, start, workdir, env, budget, tag=f"-r{deaths}")
        reps = parse_log(r["text"])
        reports += reps
        res = r["res"]
        if res:
            total += res["ncases"]
            for k, v in res["classes"].items():
                d = classes.setdefault(k, {"n": 0, "kernel_calls": 0})
                d["n"] += v["n"]
                d["kernel_calls"] += v["kernel_calls"]
            cy.update(res.get("cy", {}))
            exc.update(res.get("py_exceptions", {}))
        if res and res.get("done"):
            break
        if r["timeout"]:
            incon.append(f"{entry}: watchdog fired")
            break
        # the worker died: attribute to the last marker
        marks = [ln for ln in r["text"].splitlines() if ln.startswith(MARK)]
        last = marks[-1][len(MARK):].strip() if marks else None
        if last is None:
            incon.append(f"{entry}: worker died before the first case rc={r['rc']}: "
                         + r["text"][-800:])
            break
        sig = -r["rc"] if (r["rc"] or 0) < 0 else r["rc"]
        if not any(rp["case"] == last and rp["kind"].startswith("asan:") for rp in reps):
            fn, where = repo_frame(r["text"].splitlines()[-60:])
            reports.append({"case": last, "kind": f"signal:{sig}", "function": fn or "?",
                            "where": where or "?", "excerpt": r["text"][-1500:]})
        deaths += 1
        idx = int(last.split()[1])
        start = idx + 1
        if deaths > 40:
            incon.append(f"{entry}: more than 40 worker deaths")
            break
    return {"entry": entry, "wall_s": round(time.time() - t_entry, 1),
            "reports": reports, "ncases": total, "classes": classes,
            "cy": dict(cy), "deaths": deaths, "inconclusive": incon,
            "py_exceptions": dict(exc)}


def san_replay_specs(tier):
    """the other properties' quick workloads, replayed under the instrumented build"""
    specs = []
    for k in range(1, 21):
        if k in (5, 18):
            continue
        name = f"c{k:02d}"
        if not (VERIF / "hyverif" / "props" / f"{name}.py").exists():
            continue
        specs.append({"name": f"msan-{name}", "prop": name.upper(), "module": name,
                      "tier": "quick", "seed": 0, "shard": 0, "nshards": 16,
                      "budget_s": 60, "timeout": 900})
    return specs


def drive(a, pid, workdir, t0, cli):
    from hyverif import build as hb
    builddir = hb.build("san")
    env = cli.worker_env(builddir, "san", workdir)
    (workdir / "cwd").mkdir(exist_ok=True)
    (workdir / "mpl").mkdir(exist_ok=True)
    if a.replay:
        case = json.loads(Path(a.replay).read_text())
        entry = case["case"]["entry"]
        r = run_entry(entry, case.get("tier", "quick"), case.get("seed", 0), workdir,
                      env, 600)
        keys = {f"{entry}|{rp['kind']}|{rp['function']}" for rp in r["reports"]}
        if case["key"] in keys or (keys and case.get("any")):
            print(f"reproduced: {sorted(keys)}")
            print(f"VIOLATION property={pid} replay={a.replay}")
            return 1
        print(f"replay: no report reproduced (saw {sorted(keys)})")
        return 0
    budget = 400 if a.tier == "quick" else 1800
    entries = list(ENTRIES)
    with ThreadPoolExecutor(16) as ex:
        results = list(ex.map(lambda e: run_entry(e, a.tier, a.seed, workdir, env,
                                                  budget), entries))
    inconclusive = []
    extra_reports = []
    replay_info = {}
    if a.tier == "thorough":
        specs = san_replay_specs(a.tier)
        outs = cli.run_workers(specs, builddir, "san", workdir, 900)
        for spec, res, meta in outs:
            text = cli.tail(meta["stderr"], 10 ** 7)
            reps = parse_log(text)
            for rp in reps:
                rp["case"] = f"workload-of-{spec['prop']}"
            extra_reports.append((f"workload:{spec['prop']}", reps))
            replay_info[spec["prop"]] = {
                "evaluations": None if res is None else res["evaluations"],
                "reports": len(reps), "rc": meta["rc"]}
            if res is None:
                inconclusive.append(f"sanitized replay of {spec['prop']} produced no "
                                    f"result (rc={meta['rc']})")
        # the repository's own tests under the instrumented build
        tenv = dict(env)
        tlog = workdir / "repo-tests.err"
        with open(tlog, "wb") as ef:
            p = subprocess.run([sys.executable, "-m", "pytest", "-q", "--no-header",
                                "-p", "no:cacheprovider", "--timeout=900",
                                str(hb.REPO / "src" / "hydrodiy" / "data" / "tests"),
                                str(hb.REPO / "src" / "hydrodiy" / "stat" / "tests"),
                                str(hb.REPO / "src" / "hydrodiy" / "gis" / "tests")],
                               env=tenv, cwd=str(hb.REPO), stdout=ef, stderr=ef,
                               timeout=3000)
        reps = parse_log(tlog.read_bytes().decode(errors="replace"))
        for rp in reps:
            rp["case"] = "repository-tests"
        extra_reports.append(("repo-tests", reps))
        replay_info["repo-tests"] = {"reports": len(reps), "rc": p.returncode}

    # ------------------------------------------------------------- verdict ----
    findings = cli.load_findings()
    known = {k["key"]: k for k in findings["known"] if k["property"] == pid}
    viol = {}
    for r in results:
        for rp in r["reports"]:
            key = f"{r['entry']}|{rp['kind']}|{rp['function']}"
            d = viol.setdefault(key, {"count": 0, "first": rp, "entry": r["entry"]})
            d["count"] += 1
        inconclusive += r["inconclusive"]
    for origin, reps in extra_reports:
        for rp in reps:
            key = f"{origin}|{rp['kind']}|{rp['function']}"
            d = viol.setdefault(key, {"count": 0, "first": rp, "entry": origin})
            d["count"] += 1
    newviol = 0
    seen_known = []
    rdir = cli.OUTROOT / "replays" / pid
    for key, d in sorted(viol.items()):
        if key in known:
            seen_known.append(key)
            print(f"KNOWN-FINDING: property={pid} {key} :: {known[key]['what']} "
                  f"(seen {d['count']}x)")
            continue
        newviol += 1
        rdir.mkdir(parents=True, exist_ok=True)
        rp = rdir / (cli.safe(key) + ".json")
        rp.write_text(json.dumps({"property": pid, "key": key, "seed": a.seed,
                                  "tier": a.tier, "count": d["count"],
                                  "case": {"entry": d["entry"],
                                           "marker": d["first"]["case"]},
                                  "detail": d["first"]}, indent=1))
        print(f"violation key={key} count={d['count']} at={d['first']['where']} "
              f"case={d['first']['case']}")
        print(f"VIOLATION property={pid} replay={rp}")
    # coverage obligations: every entry ran, and reached a kernel
    ncases = sum(r["ncases"] for r in results)
    nontriv = 0
    per_entry = {}
    cy_total = Counter()
    for r in results:
        reached = sum(1 for c in r["classes"].values() if c["kernel_calls"] > 0)
        nontriv += reached
        per_entry[r["entry"]] = {"cases": r["ncases"],
                                 "classes": len(r["classes"]),
                                 "classes_reaching_kernel": reached,
                                 "worker_deaths": r["deaths"],
                                 "wall_s": r["wall_s"],
                                 "py_exceptions": r["py_exceptions"]}
        cy_total.update(r["cy"])
        if r["ncases"] == 0 or reached == 0:
            inconclusive.append(f"entry {r['entry']} never reached a kernel")
    samples = []
    for r in results[:4]:
        for cls in list(r["classes"])[:2]:
            samples.append({"entry": r["entry"], "input_class": cls,
                            **r["classes"][cls]})
    cov = {
        "evaluations": int(ncases), "distinct_nontrivial": int(nontriv),
        "rule": RULE, "samples": samples, "exhaustive": False,
        "entries": per_entry,
        "compiled_wrapper_calls": {k: v for k, v in sorted(cy_total.items())},
        "report_blocks": int(sum(d["count"] for d in viol.values())),
        "violation_keys": sorted(viol), "known_findings_seen": seen_known,
        "sanitized_replay_of_other_workloads": replay_info,
        "inconclusive": inconclusive, "extension_build": str(builddir),
        "source_digest": hb.source_digest(), "pyx_stale": hb.pyx_stale(),
        "sanitizer_flags": " ".join(hb.flags("san", False)),
    }
    ok = cli.write_evidence(pid, a, sys.modules[__name__], cov, [], inconclusive, t0,
                            {"violations": newviol})
    print(f"[{pid}] tier={a.tier} seed={a.seed} cases={ncases} "
          f"classes_reaching_kernel={nontriv} report_blocks={cov['report_blocks']} "
          f"new={newviol} known_seen={len(seen_known)} wall={time.time()-t0:.1f}s")
    if newviol:
        return 1
    if inconclusive or not ok:
        for i in inconclusive[:6]:
            print(f"INCONCLUSIVE property={pid} {i[-600:]}")
        return 2
    return 0


if __name__ == "__main__":
    if len(sys.argv) > 1 and sys.argv[1] == "--worker":
        worker_main(sys.argv[2:])
