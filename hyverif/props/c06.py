"""C06 - catchment delineation is exactly upstream reachability on the flow grid.

Monitor: graph model (oracles/flowgraph.py, own direction table) compared with every
observed answer of Catchment.upstream / downstream / delineate_area /
compute_flowpathlengths and grid.delineate_river."""
import copy
import warnings
import itertools
import math
import time

import numpy as np

from hyverif.core import present

from hyverif.oracles.flowgraph import FlowGraph, DIRS, SQRT2

ID = "C06"
SHARDS = {"quick": 16, "thorough": 16}
BUDGET = {"quick": 300, "thorough": 1800}
HANG_IS_VIOLATION = True
EXHAUSTIVE = True
RULE = ("EXHAUSTIVE: every r x c grid with r*c <= 4 (quick) / <= 5 (thorough; "
        "relation checks on all 6-cell grids, delineation with every outlet and inlet "
        "sets of size <= 1 on a third of the 2x3 / 3x2 grids) x 10 codes per cell (8 directions, 0, one "
        "invalid code) x every outlet x every inlet set of size 0..2 x every river "
        "start; RANDOM: grids up to 14x14 built as random descending forests "
        "(acyclic, large catchments, long diagonal chains), random-code grids "
        "(cycles, invalid codes), 1- and 2-column and 1-row grids, inlets on the "
        "chain, tight buffers. Non-trivial: a delineation whose area has >= 2 "
        "cells; distinct by (grid, outlet, inlets).")
ASSUMPTIONS = [
    "on a grid that contains a flow cycle a ValueError is always accepted; when "
    "the outlet itself lies on a cycle any bounded result is accepted; otherwise "
    "the delineation must be exact",
    "for an invalid direction code any negative downstream code is accepted",
    "the flow-path entry of the outlet cell itself is not constrained",
    "a buffer of nval >= ncells + 3 must be sufficient on acyclic inputs; with a "
    "smaller buffer a ValueError is accepted too",
]
OBLIGATIONS = {"exhaustive-grid": 500, "shape:1xk": 20, "shape:kx1": 20,
               "shape:2xk": 20, "shape:kx2": 20, "shape:>=3x3": 20,
               "diagonal-step": 100, "inlet-on-chain": 20, "cycle-through-outlet": 20,
               "area>=2": 200, "river": 200, "flowpath": 100, "relation": 500,
               "sink": 50, "offgrid": 50, "invalid-code": 50, "tight-buffer": 5,
               "flowpath:empty-area": 5, "api-sequence": 10, "snake": 6,
               "large-catchment": 4, "large-catchment:>100000-cells": 2}
CODES = [1, 2, 4, 8, 16, 32, 64, 128, 0, 3]
# what "an invalid code" stands for in the enumerations (3 is replaced by one of these,
# rotating): combinations of direction bits, negative values, and valid codes with
# high-order bits set (which a narrower integer type would mistake for the valid code)
INVALID = [3, 255, -1, 2 ** 32 + 16, 5, 2 ** 32 + 1, -2 ** 32 + 4, 2 ** 40 + 64, 6,
           2 ** 31 + 2, 129, 2 ** 33 + 128, 2 ** 62 + 8, 12]


def mods():
    from hydrodiy.gis import grid as g
    return g


def make_catch(codes):
    g = mods()
    codes = np.asarray(codes, dtype=np.int64)
    nr, nc = codes.shape
    # the flow grid sits somewhere on a map, with some cell size: areas, path lengths and
    # river distances are counted in cells and do not depend on it
    h_ = int(codes.sum() * 3 + nc) % 5
    geo = [{}, {}, {"cellsize": 30.0, "xllcorner": 512340.0, "yllcorner": 6.1e6},
           {"cellsize": 0.0025, "xllcorner": 144.5, "yllcorner": -37.25},
           {"cellsize": 250.0, "xllcorner": -1000.0, "yllcorner": 0.0}][h_]
    fd = g.Grid("fd", nc, nr, dtype=np.int64, **geo)
    # the code array arrives in one of several memory layouts
    lay = ["C", "fortran", "C", "negstride", "C", "rowstrided", "C", "readonly"][
        int(codes.sum() + nr) % 8]
    pv = present(codes, lay) if lay != "C" else None
    fd.data = codes if pv is None else pv
    return g.Catchment("c", fd), fd


def shape_tags(ctx, nr, nc):
    if nr == 1:
        ctx.tag("shape:1xk")
    if nc == 1:
        ctx.tag("shape:kx1")
    if nr == 2:
        ctx.tag("shape:2xk")
    if nc == 2:
        ctx.tag("shape:kx2")
    if nr >= 3 and nc >= 3:
        ctx.tag("shape:>=3x3")


def check_relations(ctx, cat, model, case):
    n = model.n
    cells = np.arange(n)
    ctx.api("downstream")
    ctx.api("upstream")
    down = cat.downstream(cells)
    up = cat.upstream(cells)
    ctx.tag("relation", n)
    bad = None
    for c in range(n):
        md = model.down[c]
        gd = int(down[c])
        if md >= 0 or md in (-1, -2):
            okd = gd == md
        else:
            okd = gd < 0
        if md == -2:
            ctx.tag("sink")
        elif md == -1:
            ctx.tag("offgrid")
        elif md == -3:
            ctx.tag("invalid-code")
        if not okd and bad is None:
            bad = ("downstream", c, gd, md)
        gu = [int(v) for v in up[c] if v >= 0]
        if (sorted(gu) != sorted(model.up[c]) or len(set(gu)) != len(gu)) \
                and bad is None:
            bad = ("upstream", c, gu, sorted(model.up[c]))
    ctx.check("relation.inverse", bad is None, "upstream-downstream|inverse", case,
              lambda: {"what,cell,got,expected": bad})
    # u in upstream(d)  <=>  downstream(u) == d, on the observed answers themselves
    obs_ok = True
    for d in range(n):
        for u in up[d]:
            if u >= 0 and int(down[int(u)]) != d:
                obs_ok = False
    for u in range(n):
        d = int(down[u])
        if d >= 0 and u not in [int(v) for v in up[d]]:
            obs_ok = False
    ctx.check("relation.observed-inverse", obs_ok,
              "upstream-downstream|observed-inverse", case, None)
    # the same cells asked for several times in one call, in a row and apart: each row
    # answers for its own cell
    if n >= 1:
        c0 = int(np.argmax([len(u_) for u_ in model.up]))
        c1 = int((c0 * 7 + 3) % n)
        q = np.array([c0, c0, c1, c0, c1, c1, c0], dtype=np.int64)
        ctx.api("upstream")
        ctx.api("downstream")
        ctx.tag("relation:repeated-cells-in-one-call")
        upq = cat.upstream(q)
        dq = cat.downstream(q)
        okq = all(sorted(int(v) for v in upq[i] if v >= 0) ==
                  sorted(int(v) for v in up[int(c)] if v >= 0) for i, c in enumerate(q)) \
            and all(int(dq[i]) == int(down[int(c)]) for i, c in enumerate(q))
        ctx.check("relation.repeated-cells", okq,
                  "upstream-downstream|differs-for-a-cell-asked-twice-in-one-call", case,
                  lambda: {"cells": q.tolist(), "upstream_rows": np.asarray(upq).tolist(),
                           "downstream": np.asarray(dq).tolist()})


def check_area(ctx, cat, model, outlet, inlets, case, nval=None, cyc=None):
    n = model.n
    nval = nval or (n + 3)
    on_cycle = model.on_cycle(outlet)
    cyc = model.has_cycle() if cyc is None else cyc
    if cyc:
        ctx.risky(case)
    if on_cycle:
        ctx.tag("cycle-through-outlet")
    ctx.api("delineate_area")
    try:
        cat.delineate_area(outlet, inlets if len(inlets) else None, nval=nval)
        err = None
        area = [int(v) for v in cat.idxcells_area]
        filled = [int(v) for v in cat.idxcells_area_filled]
    except ValueError as e:
        err = e
    if err is not None:
        tight = nval < n + 3
        ctx.check("area.no-error-on-acyclic", cyc or tight, "delineate_area|raises",
                  case, lambda: {"exc": repr(err)})
        return None
    if on_cycle and not any(model.on_cycle(outlet) and i in model.chain(outlet)
                            for i in inlets):
        ctx.check("area.bounded", len(area) <= nval, "delineate_area|unbounded",
                  case, {"len": len(area)})
        return None
    ref = model.area(outlet, inlets)
    # results handed out by earlier delineations (same object and a second object on
    # the same grid) are still what they were
    kept = ctx.__dict__.setdefault("_kept_areas", [])
    for (ka, kf, kref, kcase) in kept:
        ctx.check("area.earlier-result-kept",
                  set(int(v) for v in ka) == kref and len(ka) == len(kref) and
                  set(int(v) for v in kf) >= kref,
                  "delineate_area|earlier-result-overwritten", kcase,
                  lambda: {"kept_now": [int(v) for v in ka], "was": sorted(kref),
                           "later_call": {"outlet": outlet, "inlets": list(inlets)}})
    kept.append((cat.idxcells_area, cat.idxcells_area_filled, set(ref), case))
    del kept[:-3]
    ctx.check("area.exact", set(area) == ref and len(area) == len(set(area)),
              "delineate_area|area", case,
              lambda: {"got": sorted(area), "expected": sorted(ref),
                       "duplicates": len(area) != len(set(area))})
    ctx.check("area.filled-contains", set(filled) >= set(area) and
              len(filled) == len(set(filled)), "delineate_area|filled", case,
              lambda: {"filled": sorted(filled), "area": sorted(area)})
    if len(ref) >= 2:
        ctx.tag("area>=2")
    if any(i in ref or model.down[i] in ref or True for i in inlets) and inlets:
        # inlet on the chain of some cell that would otherwise drain to the outlet
        full = model.area(outlet, ())
        if any(i in full for i in inlets):
            ctx.tag("inlet-on-chain")
    return ref


def check_flowpaths(ctx, cat, model, outlet, ref, case):
    ctx.api("compute_flowpathlengths")
    cat.compute_flowpathlengths()
    fp = cat.flowpathlengths
    ctx.tag("flowpath")
    if fp is None or not hasattr(fp, "values"):
        ctx.check("flowpath.computed", False, "flowpathlengths|not-stored", case,
                  {"flowpathlengths": repr(fp), "area_size": len(ref)})
        return
    vals = fp.values
    bad = None
    okshape = vals.shape == (len(ref), 3)
    if okshape:
        for start, end, length in vals:
            c = int(start)
            if c == outlet:
                continue
            exp = model.pathlength(c, outlet)
            if exp is None or int(end) != outlet or abs(length - exp) > 1e-9:
                bad = (c, int(end), float(length), exp)
                break
            if abs(exp - round(exp)) > 1e-9:
                ctx.tag("diagonal-step")
    ctx.check("flowpath.length", okshape and bad is None,
              "flowpathlengths|length", case,
              lambda: {"start,end,length,expected": bad, "shape": list(vals.shape)})


def check_river(ctx, fd, model, start, case, cyc):
    g = mods()
    n = model.n
    nval = n + 3
    chain = model.chain(start, limit=10 * n)
    loops = (model.down[chain[-1]] >= 0)     # chain stopped on a repeat => cycle
    if loops:
        ctx.risky(case)
    ctx.api("delineate_river")
    try:
        riv = g.delineate_river(fd, start, nval=nval)
    except ValueError as e:
        ctx.check("river.no-error", cyc, "delineate_river|raises", case,
                  {"exc": repr(e)})
        return
    ctx.tag("river")
    cells = [int(v) for v in riv["idxcell"].values]
    if loops:
        ctx.check("river.bounded", len(cells) <= nval, "delineate_river|unbounded",
                  case, {"len": len(cells)})
        return
    okc = cells == chain
    dist = riv["dist"].values
    exp = [0.0]
    for c in chain[:-1]:
        exp.append(exp[-1] + model.step_length(c))
        if model.step_length(c) > 1:
            ctx.tag("diagonal-step")
    okd = okc and bool(np.allclose(dist, exp, rtol=0, atol=1e-9))
    ctx.check("river.chain", okc, "delineate_river|chain", case,
              lambda: {"got": cells, "expected": chain})
    ctx.check("river.dist", okd, "delineate_river|dist", case,
              lambda: {"got": dist.tolist(), "expected": exp})
    # a buffer that is exactly as long as the river, or one longer: the same river
    for nv2 in (len(chain), len(chain) + 1):
        ctx.api("delineate_river")
        ctx.tag("river:buffer-exactly-as-long-as-the-river")
        try:
            r2 = g.delineate_river(fd, start, nval=nv2)
            c2_ = [int(v) for v in r2["idxcell"].values]
        except ValueError as e:
            c2_ = repr(e)[:120]
        ctx.check("river.tight-buffer", c2_ == chain,
                  "delineate_river|differs-or-raises-with-a-buffer-as-long-as-the-river",
                  case, lambda: {"nval": nv2, "got": c2_, "expected": chain})


def run_grid(ctx, codes, case_base, full=True, rng=None, max_outlets=None):
    codes = np.asarray(codes, dtype=np.int64)
    nr, nc = codes.shape
    model = FlowGraph(codes.tolist())
    cat, fd = make_catch(codes)
    cat_b = mods().Catchment("second", fd)      # a second object on the same grid
    ctx.__dict__["_kept_areas"] = []
    n = model.n
    cyc = model.has_cycle()
    ctx.evaluated()
    shape_tags(ctx, nr, nc)
    check_relations(ctx, cat, model, case_base)
    if not full:
        return
    outlets = range(n)
    if max_outlets and n > max_outlets:
        # prefer outlets with large catchments
        sizes = [len(model.area(o)) for o in range(n)]
        order = np.argsort(sizes)[::-1]
        outlets = [int(o) for o in order[:max_outlets // 2]] + \
            [int(o) for o in rng.choice(n, size=max_outlets // 2, replace=False)]
    for o in outlets:
        others = [c for c in range(n) if c != o]
        if max_outlets:
            full_area = sorted(model.area(o) - {o})
            isets = [()]
            if full_area:
                k = min(len(full_area), 2)
                isets.append(tuple(int(v) for v in rng.choice(full_area, size=k,
                                                              replace=False)))
                isets.append((int(rng.choice(full_area)),))
            isets.append(tuple(int(v) for v in rng.choice(others, size=min(2, len(others)),
                                                          replace=False)) if others
                         else ())
            if len(full_area) >= 4:
                # larger inlet sets, on and off the catchment
                k = int(rng.integers(3, min(7, len(full_area)) + 1))
                isets.append(tuple(int(v) for v in rng.choice(full_area, size=min(k, len(full_area)),
                                                              replace=False)))
                isets.append(tuple(int(v) for v in rng.choice(others, size=min(k, len(others)),
                                                              replace=False)))
        else:
            isets = [()] + [(a,) for a in others] + \
                list(itertools.combinations(others, 2))
        for inl in isets:
            case = dict(case_base, outlet=int(o), inlets=list(inl))
            ctx.evaluated()
            # outlets alternate between the two catchment objects
            use = cat if (o + len(inl)) % 3 else cat_b
            ref = check_area(ctx, use, model, o, list(inl), case, cyc=cyc)
            if ref is not None and len(ref) >= 2:
                ctx.nontrivial(codes, o, inl)
            # the catchment object is reused from outlet to outlet: the table must
            # describe the area delineated last, also when that area is empty
            if ref is not None and (len(inl) == 0 or ctx.evaluations % 4 == 0):
                if len(ref) == 0:
                    ctx.tag("flowpath:empty-area")
                check_flowpaths(ctx, use, model, o, ref, case)
    starts = range(n) if not max_outlets else \
        [int(s) for s in rng.choice(n, size=min(n, max_outlets), replace=False)]
    for s in starts:
        ctx.evaluated()
        check_river(ctx, fd, model, s, dict(case_base, river_start=int(s)), cyc)


def shapes_upto(ncell):
    return [(r, c) for r in range(1, ncell + 1) for c in range(1, ncell + 1)
            if r * c <= ncell]


def gen_forest(rng, nr, nc, style):
    """acyclic grid: each cell drains to a strictly lower neighbour of a random
    height field (or off the grid / sink / invalid at local minima)"""
    if style == 0:
        h = rng.random((nr, nc))
    elif style == 1:
        # tilted plane + noise: long diagonal chains, one big catchment
        rr, kk = np.meshgrid(np.arange(nr), np.arange(nc), indexing="ij")
        h = -(rr + kk) + rng.random((nr, nc)) * 0.5
    else:
        rr, kk = np.meshgrid(np.arange(nr), np.arange(nc), indexing="ij")
        h = np.hypot(rr - nr / 2, kk - nc / 2) + rng.random((nr, nc)) * 0.8
    codes = np.zeros((nr, nc), dtype=np.int64)
    items = list(DIRS.items())
    for r in range(nr):
        for k in range(nc):
            lower = []
            for code, (dr, dk) in items:
                r2, k2 = r + dr, k + dk
                if 0 <= r2 < nr and 0 <= k2 < nc:
                    if h[r2, k2] < h[r, k]:
                        lower.append((h[r2, k2], code))
                else:
                    if rng.random() < 0.15:
                        lower.append((-1e9, code))     # off the grid
            if lower:
                if rng.random() < 0.7:
                    codes[r, k] = min(lower)[1]
                else:
                    codes[r, k] = lower[int(rng.integers(0, len(lower)))][1]
            else:
                codes[r, k] = [0, 0, 3, 255][int(rng.integers(0, 4))]
    return codes


def run(ctx):
    maxc = 4 if ctx.tier == "quick" else 5
    idx = 0
    for (nr, nc) in shapes_upto(maxc):
        n = nr * nc
        for combo in itertools.product(CODES, repeat=n):
            idx += 1
            if idx % ctx.nshards != ctx.shard:
                continue
            if ctx.out_of_time():
                ctx.notes.append("exhaustive enumeration cut by the time budget")
                ctx.info["exhaustive_complete"] = False
                break
            codes = np.array(combo, dtype=np.int64).reshape((nr, nc))
            codes[codes == 3] = INVALID[idx % len(INVALID)]
            case = {"kind": "grid", "codes": codes.tolist()}
            ctx.tag("exhaustive-grid")
            run_grid(ctx, codes, case)
            if idx % 9973 == 0:
                ctx.sample(case)
    ctx.info.setdefault("exhaustive_complete", True)
    if ctx.tier == "thorough":
        # relation checks on every grid of exactly 6 cells
        for (nr, nc) in [(1, 6), (6, 1), (2, 3), (3, 2)]:
            for combo in itertools.product(CODES, repeat=6):
                idx += 1
                if idx % ctx.nshards != ctx.shard:
                    continue
                if ctx.out_of_time():
                    break
                codes = np.array(combo, dtype=np.int64).reshape((nr, nc))
                run_grid(ctx, codes, {"kind": "grid", "codes": codes.tolist(),
                                      "relations_only": True}, full=False)
        # delineation on one in three of the 2x3 / 3x2 grids: every outlet, inlet
        # sets of size 0 and 1 (sampled, not claimed exhaustive)
        for (nr, nc) in [(2, 3), (3, 2)]:
            for gi, combo in enumerate(itertools.product(CODES, repeat=6)):
                idx += 1
                if idx % ctx.nshards != ctx.shard or gi % 3 != (nr % 3):
                    continue
                if ctx.out_of_time():
                    break
                codes = np.array(combo, dtype=np.int64).reshape((nr, nc))
                model = FlowGraph(codes.tolist())
                cat, fd = make_catch(codes)
                cyc = model.has_cycle()
                ctx.evaluated()
                base = {"kind": "grid", "codes": codes.tolist()}
                for o in range(6):
                    for inl in [()] + [(a,) for a in range(6) if a != o]:
                        case = dict(base, outlet=o, inlets=list(inl))
                        ctx.evaluated()
                        ref = check_area(ctx, cat, model, o, list(inl), case, cyc=cyc)
                        if ref is not None and len(ref) >= 2:
                            ctx.nontrivial(codes, o, inl)
    # ------------------------------------------ long winding channels (snakes) ----
    for j, (nr, nc) in enumerate([(2, 4), (3, 3), (4, 2), (5, 6), (2, 9), (7, 3)]):
        if j % ctx.nshards != ctx.shard % ctx.nshards and ctx.nshards > 1:
            continue
        for flip in (False, True):
            codes = gen_snake(nr, nc, flip)
            ctx.tag("snake")
            run_grid(ctx, codes, {"kind": "grid", "codes": codes.tolist(), "snake": True})
    # --------------------------------------- regional-size catchments (closed form) ----
    big = [(251, 200, "comb"), (320, 320, "diag"), (200, 251, "diag"), (317, 316, "comb")]
    if ctx.tier == "thorough":
        big += [(1000, 1001, "diag"), (223, 449, "comb"), (708, 709, "comb"),
                (1500, 700, "diag")]
    for j, (nr, nc, variant) in enumerate(big):
        if ctx.nshards > 1 and j % ctx.nshards != ctx.shard % ctx.nshards:
            continue
        run_large(ctx, nr, nc, variant)
    # ------------------------------------------- very many inlets (closed form) ----
    if ctx.shard == 3 % ctx.nshards:
        run_many_inlets(ctx)
    # ------------------------------------------------------------ random part ----
    rng = ctx.rng(2)
    nrand = 12 if ctx.tier == "quick" else 600
    for it in range(nrand):
        if ctx.out_of_time():
            break
        k = it % 6
        if k == 0:
            nr, nc = int(rng.integers(3, 15)), int(rng.integers(3, 15))
        elif k == 1:
            nr, nc = int(rng.integers(2, 15)), 2
        elif k == 2:
            nr, nc = 2, int(rng.integers(2, 15))
        elif k == 3:
            nr, nc = 1, int(rng.integers(2, 20))
        elif k == 4:
            nr, nc = int(rng.integers(2, 20)), 1
        else:
            nr, nc = int(rng.integers(3, 9)), int(rng.integers(3, 9))
        if it % 4 == 3:
            codes = rng.choice(CODES + INVALID, size=(nr, nc))
        else:
            codes = gen_forest(rng, nr, nc, it % 3)
        case = {"kind": "grid", "codes": codes.tolist(), "random": True,
                "seed": int(rng.integers(0, 2 ** 31))}
        run_grid(ctx, codes, case, rng=np.random.default_rng(case["seed"]),
                 max_outlets=6)
        if it % 3 == 0:
            run_river_dtypes(ctx, rng)
        if it % 4 != 3 and min(nr, nc) >= 2:
            c3 = {"kind": "apiseq", "codes": codes.tolist(),
                  "seed": int(rng.integers(0, 2 ** 31))}
            for rep_ in range(3):
                run_api_sequence(ctx, codes, dict(c3, seed=c3["seed"] + rep_),
                                 np.random.default_rng(c3["seed"] + rep_))
        # tight buffers: exact result or ValueError, never anything else
        model = FlowGraph(codes.tolist())
        if not model.has_cycle():
            cat, fd = make_catch(codes)
            sizes = [len(model.area(o)) for o in range(model.n)]
            o = int(np.argmax(sizes))
            # the buffer size as a numpy integer, also at the top of a narrow type
            for nv_ in (np.uint8(255), np.int8(127), np.uint16(65535), np.int16(32767),
                        np.int32(2 ** 20), np.array(300)):
                if int(nv_) >= sizes[o] + 3:
                    ctx.tag("buffer-size-as-numpy-integer")
                    check_area(ctx, cat, model, o, [],
                               dict(case, outlet=o, inlets=[], nval=repr(nv_)),
                               nval=nv_, cyc=False)
            for nval in (1, 2, sizes[o], sizes[o] + 1, sizes[o] + 2):
                ctx.tag("tight-buffer")
                check_area(ctx, cat, model, o, [], dict(case, outlet=o, inlets=[],
                                                        nval=int(nval)),
                           nval=max(1, int(nval)), cyc=False)
            # ... the same with inlets and every small buffer: whether the call is
            # answered or refused, the catchment object is as good as new afterwards
            full = sorted(model.area(o))
            if len(full) >= 3:
                inl = [int(v) for v in rng.choice([c for c in full if c != o],
                                                  size=min(2, len(full) - 1),
                                                  replace=False)]
                for nval in range(1, 11):
                    ctx.tag("tight-buffer-with-inlets")
                    check_area(ctx, cat, model, o, inl,
                               dict(case, outlet=o, inlets=inl, nval=nval), nval=nval,
                               cyc=False)
                    check_relations(ctx, cat, model, dict(case, after_tight_buffer=nval))
                    check_area(ctx, cat, model, o, [],
                               dict(case, outlet=o, inlets=[], after_tight_buffer=nval),
                               cyc=False)


def run_large(ctx, nr, nc, variant):
    """A regional-size catchment with a closed-form answer: every cell drains to the
    bottom-left corner, westwards then southwards ('comb') or south-westwards as long
    as possible ('diag'). Reference: the whole grid, each cell once; the path of cell
    (r, c) has a = c steps to the west and b = nr-1-r steps to the south, min(a, b)
    of them merged into diagonal steps in the 'diag' variant."""
    g = mods()
    codes = np.full((nr, nc), 16 if variant == "comb" else 8, dtype=np.int64)
    codes[:, 0] = 4
    codes[nr - 1, :] = 16
    codes[nr - 1, 0] = 0
    n = nr * nc
    outlet = (nr - 1) * nc
    case = {"kind": "large", "nrows": nr, "ncols": nc, "variant": variant}
    ctx.evaluated()
    ctx.tag("large-catchment")
    if n > 100000:
        ctx.tag("large-catchment:>100000-cells")
    fd = g.Grid("fd", nc, nr, dtype=np.int64)
    fd.data = codes
    cat = g.Catchment("big", fd)
    ctx.api("delineate_area")
    try:
        # buffer sizes as a user has them: the default, or the size of the grid
        if variant == "comb":
            cat.delineate_area(outlet)
        else:
            cat.delineate_area(outlet, nval=n + 5)
        area = np.asarray(cat.idxcells_area).astype(np.int64)
        filled = np.asarray(cat.idxcells_area_filled).astype(np.int64)
    except Exception as e:
        ctx.check("large.area-runs", False, "delineate_area|raises|large", case,
                  {"exc": repr(e)[:300]})
        return
    ctx.check("large.area", len(area) == n and
              bool(np.array_equal(np.sort(area), np.arange(n))),
              "delineate_area|area|large", case,
              lambda: {"listed": int(len(area)), "distinct": int(len(np.unique(area))),
                       "expected": n})
    ctx.check("large.filled", len(filled) == len(np.unique(filled)) and
              bool(np.isin(np.arange(n), filled).all()), "delineate_area|filled|large",
              case, lambda: {"listed": int(len(filled))})
    ctx.api("compute_flowpathlengths")
    try:
        cat.compute_flowpathlengths()
        vals = np.asarray(cat.flowpathlengths.values, dtype=float)
    except Exception as e:
        ctx.check("large.flowpath-runs", False, "flowpathlengths|raises|large", case,
                  {"exc": repr(e)[:300]})
        return
    ok = vals.shape == (len(area), 3)
    bad = None
    if ok:
        st = vals[:, 0].astype(np.int64)
        r_, c_ = st // nc, st % nc
        a_, b_ = c_, nr - 1 - r_
        if variant == "comb":
            exp = (a_ + b_).astype(float)
        else:
            exp = np.minimum(a_, b_) * math.sqrt(2) + np.abs(a_ - b_)
            ctx.tag("diagonal-step")
        notout = st != outlet
        wrong = notout & ((np.abs(vals[:, 2] - exp) > 1e-7) | (vals[:, 1] != outlet))
        ok = bool(np.array_equal(np.sort(st), np.arange(n))) and not wrong.any()
        if wrong.any():
            i = int(np.where(wrong)[0][0])
            bad = [int(st[i]), int(vals[i, 1]), float(vals[i, 2]), float(exp[i]),
                   int(wrong.sum())]
    ctx.check("large.flowpath", ok, "flowpathlengths|length|large", case,
              lambda: {"start,end,length,expected,nwrong": bad,
                       "shape": list(vals.shape)})
    # the longest river: from the top-right corner
    start = nc - 1
    ctx.api("delineate_river")
    try:
        riv = g.delineate_river(fd, start, nval=n + 3)
        cells = riv["idxcell"].values.astype(np.int64)
        dist = riv["dist"].values.astype(float)
    except Exception as e:
        ctx.check("large.river-runs", False, "delineate_river|raises|large", case,
                  {"exc": repr(e)[:300]})
        return
    if variant == "comb":
        chain = np.concatenate([np.arange(nc - 1, -1, -1), np.arange(1, nr) * nc])
        expd = np.arange(len(chain), dtype=float)
    else:
        k = min(nc - 1, nr - 1)
        dg = np.arange(0, k + 1)
        chain = list(dg * nc + (nc - 1 - dg))
        expd = list(dg * math.sqrt(2))
        r, c = k, nc - 1 - k
        while (r, c) != (nr - 1, 0):
            if r == nr - 1:
                c -= 1
            else:
                r += 1
            chain.append(r * nc + c)
            expd.append(expd[-1] + 1)
        chain, expd = np.array(chain), np.array(expd)
    ctx.tag("river")
    ctx.check("large.river", len(cells) == len(chain) and
              bool(np.array_equal(cells, chain)) and
              bool(np.allclose(dist, expd, rtol=0, atol=1e-7)),
              "delineate_river|chain|large", case,
              lambda: {"len": int(len(cells)), "expected_len": int(len(chain)),
                       "last_dist": float(dist[-1]) if len(dist) else None,
                       "expected_last": float(expd[-1])})
    ctx.nontrivial("large", nr, nc, variant)


def run_river_dtypes(ctx, rng):
    """flow grids stored as uint8 / int32 / float64 (rasters come in those types), traced,
    edited in place by the caller (another direction written into some cells, the whole
    array refilled), traced again: each trace follows the codes the grid holds then"""
    g = mods()
    nr, nc = int(rng.integers(3, 9)), int(rng.integers(3, 9))
    c1 = gen_forest(rng, nr, nc, 0)
    c2 = gen_forest(rng, nr, nc, 1)
    for dt in (np.uint8, np.int32, np.float64, np.int64):
        fd = g.Grid("fd", nc, nr, dtype=dt)
        fd.data = c1.astype(dt)
        for step, codes in enumerate((c1, c2, c1)):
            if step == 1:
                fd.data[...] = c2.astype(dt)              # refilled in place
            elif step == 2:
                for i in range(nr * nc):                   # cell by cell
                    fd[i] = dt(c1.flat[i])
            model = FlowGraph(codes.tolist())
            cyc = model.has_cycle()
            for s in rng.choice(nr * nc, size=3, replace=False):
                ctx.evaluated()
                ctx.tag("river:grid-of-other-type-edited-in-place")
                check_river(ctx, fd, model, int(s),
                            {"kind": "riverdtype", "dtype": np.dtype(dt).name, "step": step,
                             "codes": codes.tolist(), "river_start": int(s)}, cyc)


def run_many_inlets(ctx):
    """a 40 x 40 grid draining south, row by row, to the bottom-left corner; a whole
    region is excluded by listing its cells as inlets (400, 1000, 1040, 1500 of them):
    the area is everything that does not drain through a listed cell"""
    g = mods()
    nr = nc = 40
    codes = np.full((nr, nc), 4, dtype=np.int64)       # south
    codes[nr - 1, :] = 16                               # bottom row flows west
    codes[nr - 1, 0] = 0
    outlet = (nr - 1) * nc
    for ninl in (400, 1000, 1001, 1040, 1500):
        fd = g.Grid("fd", nc, nr, dtype=np.int64)
        fd.data = codes
        cat = g.Catchment("c", fd)
        # inlets: cells of the rows just above the bottom row, listed column by column
        # from the right: each blocks its whole column above it
        rows_needed = -(-ninl // nc)
        inl = []
        for k in range(ninl):
            col = nc - 1 - (k % nc)
            row = nr - 2 - (k // nc)
            inl.append(row * nc + col)
        # listed from the top down: the inlets that matter (the row next to the
        # bottom one) come last in the list
        inl = inl[::-1]
        if ninl % 2:
            inl = inl[1:] + inl[:1]
        blocked_cols = set(nc - 1 - (k % nc) for k in range(min(ninl, nc)))
        exp = set(range((nr - 1) * nc, nr * nc))        # the bottom row always drains
        for col in range(nc):
            if col in blocked_cols:
                continue
            exp |= set(r * nc + col for r in range(nr - 1))
        case = {"kind": "manyinlets", "n": ninl}
        ctx.evaluated()
        ctx.tag("many-inlets")
        ctx.api("delineate_area")
        try:
            cat.delineate_area(outlet, inl, nval=nr * nc + 5)
            area = [int(v) for v in cat.idxcells_area]
        except Exception as e:
            ctx.check("area.many-inlets", False, "delineate_area|raises|many-inlets", case,
                      {"exc": repr(e)[:200]})
            continue
        # (the inlets of the first row listed block every column when ninl >= nc)
        ctx.check("area.many-inlets", set(area) == exp and len(area) == len(exp),
                  "delineate_area|area|many-inlets", case,
                  lambda: {"listed": len(area), "expected": len(exp),
                           "extra": sorted(set(area) - exp)[:8],
                           "missing": sorted(exp - set(area))[:8]})
        ctx.nontrivial("manyinlets", ninl)


def gen_snake(nr, nc, flip=False):
    """one channel winding through every cell of the grid, row by row"""
    codes = np.zeros((nr, nc), dtype=np.int64)
    for r in range(nr):
        east = (r % 2 == 0)
        for k in range(nc):
            last = (k == nc - 1) if east else (k == 0)
            codes[r, k] = (4 if last else (1 if east else 16))
    rl, kl = nr - 1, (nc - 1 if (nr - 1) % 2 == 0 else 0)
    codes[rl, kl] = 0
    if flip:          # same channel, entered from the bottom (codes mirrored N <-> S)
        codes = codes[::-1].copy()
        codes[codes == 4] = 64
    return codes


def run_api_sequence(ctx, codes, case, rng):
    """One catchment object driven through a random sequence of *different* public
    calls; after every call everything observable must still describe the area that was
    delineated last (lock-step with the graph model)."""
    g = mods()
    codes = np.asarray(codes, dtype=np.int64)
    nr, nc = codes.shape
    model = FlowGraph(codes.tolist())
    if model.has_cycle():
        return
    cat, fd = make_catch(codes)
    n = model.n
    sizes = [len(model.area(o)) for o in range(n)]
    big = [int(o) for o in np.argsort(sizes)[::-1][:6]]
    state = {"ref": None, "outlet": None, "inlets": ()}
    ctx.__dict__["_kept_areas"] = []
    ops = []
    ctx.evaluated()
    ctx.tag("api-sequence")
    for step in range(14):
        op = ["delineate", "flowpaths", "boundary", "dict", "relations", "river",
              "intersect", "delineate", "new-codes", "edit-a-clone"][int(rng.integers(0, 10))]
        if state["ref"] is None and op in ("flowpaths", "boundary", "intersect", "dict"):
            op = "delineate"
        ops.append(op)
        c2 = dict(case, ops=list(ops))
        try:
            if op == "delineate":
                o = big[int(rng.integers(0, len(big)))] if rng.random() < 0.7 \
                    else int(rng.integers(0, n))
                full = sorted(model.area(o) - {o})
                inl = ()
                if full and rng.random() < 0.4:
                    inl = tuple(int(v) for v in rng.choice(
                        full, size=min(len(full), int(rng.integers(1, 3))), replace=False))
                ref = check_area(ctx, cat, model, o, list(inl),
                                 dict(c2, outlet=o, inlets=list(inl)), cyc=False)
                state.update(ref=ref, outlet=o, inlets=inl)
            elif op == "flowpaths":
                check_flowpaths(ctx, cat, model, state["outlet"], state["ref"], c2)
            elif op == "boundary":
                ctx.api("delineate_boundary")
                try:
                    cat.delineate_boundary()
                except ValueError:
                    pass
            elif op == "dict":
                # (the dictionary carries the geometry of the flow grid, not its cells:
                # the rebuilt object is only compared, not used for further calls)
                ctx.api("Catchment.to_dict/from_dict")
                c_d = g.Catchment.from_dict(copy.deepcopy(cat.to_dict()))
                ctx.check("seq.dict-area", set(int(v) for v in c_d.idxcells_area) ==
                          state["ref"], "api-sequence|dict-area", c2, None)
            elif op == "relations":
                check_relations(ctx, cat, model, c2)
            elif op == "new-codes":
                # the caller assigns another array of flow directions to the grid of the
                # catchment (data setter): everything asked afterwards is about them
                for _try in range(20):
                    newc = gen_forest(rng, nr, nc, int(rng.integers(0, 3)))
                    m2 = FlowGraph(np.asarray(newc, dtype=np.int64).tolist())
                    if not m2.has_cycle():
                        break
                else:
                    continue
                ctx.tag("api-sequence:new-codes-assigned")
                cat.flowdir.data = np.asarray(newc, dtype=np.int64)
                fd.data = np.asarray(newc, dtype=np.int64)
                codes, model = np.asarray(newc, dtype=np.int64), m2
                sizes = [len(model.area(o)) for o in range(n)]
                big = [int(o) for o in np.argsort(sizes)[::-1][:6]]
                c2 = dict(c2, codes_now=codes)
                case = dict(case, codes_now=codes)
                check_relations(ctx, cat, model, c2)
                o = big[int(rng.integers(0, len(big)))]
                ref = check_area(ctx, cat, model, o, [], dict(c2, outlet=o, inlets=[]),
                                 cyc=False)
                state.update(ref=ref, outlet=o, inlets=())
            elif op == "edit-a-clone":
                # a copy of the catchment is edited (other directions written into the
                # cells of *its* grid, another area delineated): the original is not
                ctx.tag("api-sequence:clone-edited")
                cl = cat.clone()
                dd = cl.flowdir.data
                for _k in range(3):
                    dd[int(rng.integers(0, nr)), int(rng.integers(0, nc))] = \
                        [0, 1, 4, 16, 64][int(rng.integers(0, 5))]
                cl.flowdir.fill(0) if rng.random() < 0.3 else None
                try:
                    cl.delineate_area(int(rng.integers(0, n)))
                except ValueError:
                    pass
                check_relations(ctx, cat, model, c2)
                if state["ref"] is not None:
                    check_flowpaths(ctx, cat, model, state["outlet"], state["ref"], c2)
            elif op == "river":
                check_river(ctx, fd, model, int(rng.integers(0, n)), c2, False)
            elif op == "intersect" and len(state["ref"] or ()) > 0:
                ctx.api("intersect")
                cg = g.Grid("cg", nc + 2, nr + 2, cellsize=fd.cellsize,
                            xllcorner=fd.xllcorner - fd.cellsize,
                            yllcorner=fd.yllcorner - fd.cellsize)
                with warnings.catch_warnings():
                    warnings.simplefilter("ignore")
                    _, ic, w = cat.intersect(cg)
                ctx.check("seq.intersect-area", abs(float(np.sum(w)) - len(state["ref"]))
                          <= 1e-9, "api-sequence|intersect-area", c2,
                          lambda: {"sum_weights": float(np.sum(w)),
                                   "area_cells": len(state["ref"])})
        except ValueError as e:
            ctx.check("seq.no-error", False, f"api-sequence|{op}|raises", c2,
                      {"exc": repr(e)})
            return
        if state["ref"] is not None:
            area = set(int(v) for v in cat.idxcells_area)
            okst = area == state["ref"] and (len(state["ref"]) == 0 or
                                             int(cat.idxcell_outlet) == state["outlet"])
            ctx.check("seq.state-describes-last-delineation", okst,
                      f"api-sequence|state-after-{op}", c2,
                      lambda: {"area_now": sorted(area), "expected": sorted(state["ref"]),
                               "outlet_now": repr(cat.idxcell_outlet),
                               "outlet": state["outlet"]})
    ctx.nontrivial("seq", codes, tuple(ops))


def replay(ctx, case):
    if case.get("kind") == "large":
        return run_large(ctx, case["nrows"], case["ncols"], case["variant"])
    if case.get("kind") == "apiseq":
        return run_api_sequence(ctx, case["codes"], case,
                                np.random.default_rng(int(case["seed"])))
    codes = np.asarray(case["codes"], dtype=np.int64)
    model = FlowGraph(codes.tolist())
    cat, fd = make_catch(codes)
    ctx.evaluated()
    check_relations(ctx, cat, model, case)
    if "outlet" in case:
        ref = check_area(ctx, cat, model, int(case["outlet"]),
                         [int(i) for i in case.get("inlets", [])], case,
                         nval=case.get("nval"))
        if ref is not None and len(ref) >= 2 and not case.get("inlets"):
            check_flowpaths(ctx, cat, model, int(case["outlet"]), ref, case)
    if "river_start" in case:
        check_river(ctx, fd, model, int(case["river_start"]), case,
                    model.has_cycle())
