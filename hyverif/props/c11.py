"""C11 - flow accumulation equals the sum over everything upstream.

Monitor: graph model (oracles/flowgraph.py) evaluated on every observed call of
grid.accumulate; argument-immutability of the two input grids."""
import itertools
import math

import warnings

import numpy as np

from hyverif.oracles.flowgraph import FlowGraph
from hyverif.props.c06 import CODES, INVALID, gen_forest, shapes_upto

ID = "C11"
SHARDS = {"quick": 16, "thorough": 16}
BUDGET = {"quick": 300, "thorough": 1800}
HANG_IS_VIOLATION = True
EXHAUSTIVE = True
RULE = ("EXHAUSTIVE: every r x c grid with r*c <= 4 (quick) / <= 5 (thorough) x 10 "
        "codes per cell; acyclic ones are judged exactly with 4 fields (default "
        "unit field, uniform, k/2-lattice positive, k/2-lattice with zeros and "
        "negatives) and distinct no-data values, cyclic ones and reduced "
        "max_accumulated_cells only for termination without error; RANDOM: "
        "descending forests up to 15x15. Non-trivial: an acyclic grid with at "
        "least one cell that has an upstream cell; distinct by (grid, field).")
ASSUMPTIONS = [
    "fields live on the k/2 lattice so that all sums are exact in binary64",
    "the default unit field inherits the flow grid's no-data value (0)",
    "on grids with a flow cycle, or with max_accumulated_cells below the longest "
    "chain, only termination without error is required",
]
OBLIGATIONS = {"long-path": 1, "acyclic": 300, "cyclic": 100, "field:default": 100,
               "field:negatives": 100, "field:zeros": 50, "field:reachable-nodata": 50, "has-upstream": 200,
               "terminal-cell": 200, "reduced-max": 20, "random-forest": 5,
               "inputs-unaltered": 300, "dtype-variant": 100, "layout-variant": 50,
               "field:wide-mantissa": 50, "field:tiny": 50, "bounded-grid": 100,
               "flowdir-nodata:non-default": 50, "field-nodata:nan": 20,
               "field:other-geometry": 50}


def mods():
    from hydrodiy.gis import grid as g
    return g


FD_DTYPES = {"i8": np.int64, "i4": np.int32, "u1": np.uint8, "f8": np.float64,
             "u8": np.uint64, "u4": np.uint32, "u2": np.uint16, "i2": np.int16,
             "f4": np.float32}
TA_DTYPES = {"f8": np.float64, "f4": np.float32, "i8": np.int64, "u1": np.uint8,
             "i1": np.int8, "i2": np.int16, "u2": np.uint16}


def _layout(a, layout):
    """same values, different memory layout of the array handed to Grid.data"""
    if layout == "F":
        return np.asfortranarray(a)
    if layout == "T":                      # transposed view of a C array
        return np.ascontiguousarray(a.T).T
    if layout == "S":                      # strided view (every other column)
        big = np.zeros((a.shape[0], 2 * a.shape[1]), dtype=a.dtype)
        big[:, ::2] = a
        return big[:, ::2]
    return a


def make_grids(codes, field, nodata, fd_dtype="i8", ta_dtype="f8", layout="C",
               bounded=False, fd_nodata=None, other_geometry=False):
    g = mods()
    codes = np.asarray(codes, dtype=np.int64)
    nr, nc = codes.shape
    fdt = FD_DTYPES[fd_dtype]
    if fd_dtype == "u1" and (codes.min() < 0 or codes.max() > 255):
        fdt = np.int64
    if fd_dtype == "i4" and (codes.min() < -2 ** 31 or codes.max() > 2 ** 31 - 1):
        fdt = np.int64
    if fd_dtype == "f8" and np.abs(codes).max() > 2 ** 53:
        fdt = np.int64
    if fd_dtype in ("u8", "u4", "u2", "i2", "f4"):
        if np.dtype(fdt).kind == "f":
            if np.abs(codes).max() > 2 ** 24:
                fdt = np.int64
        else:
            ii_ = np.iinfo(fdt)
            if codes.min() < ii_.min or codes.max() > ii_.max:
                fdt = np.int64
    if fd_nodata is not None and (fdt is np.float64 or float(fd_nodata) == int(fd_nodata)):
        fd = g.Grid("fd", nc, nr, dtype=fdt, nodata=fd_nodata if fdt is np.float64
                    else int(fd_nodata))
    else:
        fd = g.Grid("fd", nc, nr, dtype=fdt)
    fd.data = _layout(codes, layout)
    ta = None
    if field is not None:
        tdt = TA_DTYPES[ta_dtype]
        f = np.asarray(field, dtype=np.float64)
        if ta_dtype == "i8" and not np.all(f == np.round(f)):
            tdt = np.float64
        if ta_dtype == "f4" and (not np.all(f.astype(np.float32) == f) or
                                 np.abs(f).sum() >= 2 ** 24):
            tdt = np.float64          # values or their sums need more than 24 bits
        if isinstance(nodata, float) and math.isnan(nodata) and \
                np.dtype(tdt).kind in "iu":
            tdt = np.float64          # an integer grid cannot hold a NaN marker
        # (the field may sit on another geo-reference than the flow grid: accumulation
        # goes cell by cell, by position)
        geo = {} if not other_geometry else {"cellsize": 0.25, "xllcorner": 1234.5,
                                             "yllcorner": -77.0}
        if np.dtype(tdt).kind in "iu" and np.dtype(tdt).itemsize < 8:
            ii = np.iinfo(tdt)
            if not (np.all(f == np.round(f)) and f.min() >= ii.min and f.max() <= ii.max
                    and ii.min <= nodata <= ii.max and nodata == int(nodata)):
                tdt = np.float64      # the narrow type cannot hold the field / marker
            else:
                nodata = int(nodata)
        ta = g.Grid("ta", nc, nr, dtype=tdt, nodata=nodata, **geo)
        ta.data = _layout(f, layout)
        if bounded and hasattr(type(ta), "mindata"):
            # documented Grid feature: admissible range of the *cell values* (here
            # exactly the range of the field); sums and the no-data value lie outside
            ta.mindata = float(np.min(f))
            ta.maxdata = float(np.max(f))
    elif bounded and hasattr(type(fd), "mindata"):
        fd.mindata = float(np.min(codes))
        fd.maxdata = float(np.max(codes))
    return fd, ta


def fields_for(rng, nr, nc):
    out = [("default", None, 0.0)]
    out.append(("uniform", np.full((nr, nc), float(rng.integers(1, 5)) / 2), -9999.0))
    out.append(("positive", rng.integers(1, 20, size=(nr, nc)) / 2.0, -1.0))
    f = rng.integers(-8, 9, size=(nr, nc)) / 2.0
    f[rng.random((nr, nc)) < 0.3] = 0.0
    out.append(("negatives", f, 12345.5))
    # no-data values that partial sums can hit exactly (the Grid default 0, -1)
    f2 = rng.integers(-4, 5, size=(nr, nc)) / 1.0
    out.append(("reachable-nodata", f2, [0.0, -1.0, 2.0][int(rng.integers(0, 3))]))
    # values that need more than a float32 mantissa and do not fit an int32: sums stay
    # exact in binary64 (k/2 lattice, below 2^40)
    f3 = rng.integers(0, 4, size=(nr, nc)) * 2.0 ** 26 + rng.integers(0, 8, size=(nr, nc)) / 2.0
    out.append(("wide-mantissa", f3, -9999.0))
    # tiny values (exact multiples of 2^-30)
    f4 = rng.integers(1, 50, size=(nr, nc)) * 2.0 ** -30
    out.append(("tiny", f4, -1.0))
    return out


def run_case(ctx, case):
    g = mods()
    codes = np.asarray(case["codes"], dtype=np.int64)
    field = case.get("field")
    nodata = float(case.get("nodata", 0.0))
    maxacc = case.get("max_accumulated_cells", -1)
    model = FlowGraph(codes.tolist())
    cyc = model.has_cycle()
    ctx.evaluated()
    fd, ta = make_grids(codes, field, nodata, case.get("fd_dtype", "i8"),
                        case.get("ta_dtype", "f8"), case.get("layout", "C"),
                        bool(case.get("bounded", False)), case.get("fd_nodata"),
                        bool(case.get("other_geometry", False)))
    if case.get("other_geometry") and ta is not None:
        ctx.tag("field:other-geometry")
    if ta is None:
        # the default unit field inherits the no-data value of the flow grid given
        nodata = float(fd.nodata)
        if nodata != 0.0:
            ctx.tag("flowdir-nodata:non-default")
    if case.get("bounded"):
        ctx.tag("bounded-grid")
    if case.get("layout", "C") != "C" and min(codes.shape) > 1:
        ctx.tag("layout-variant")
    if case.get("fd_dtype", "i8") != "i8" or case.get("ta_dtype", "f8") != "f8":
        ctx.tag("dtype-variant")
    if ta is not None:
        nodata = float(ta.nodata)        # as stored in the grid's own type
        if math.isnan(nodata):
            ctx.tag("field-nodata:nan")
    fd_before = fd.data.copy()
    ta_before = None if ta is None else ta.data.copy()
    if cyc:
        ctx.risky(case)
    ctx.api("accumulate")
    try:
        acc = g.accumulate(fd, ta, nprint=case.get("nprint", 100),
                           max_accumulated_cells=maxacc)
    except Exception as e:
        ctx.check("accumulate.no-error", False, "accumulate|raises", case,
                  {"exc": repr(e), "cyclic": cyc})
        return
    ctx.check("accumulate.no-error", True)
    ctx.tag("inputs-unaltered")
    same = np.array_equal(np.asarray(fd.data, dtype=np.float64),
                          np.asarray(fd_before, dtype=np.float64)) and \
        (ta is None or np.array_equal(np.asarray(ta.data, dtype=np.float64),
                                      np.asarray(ta_before, dtype=np.float64),
                                      equal_nan=True))
    ctx.check("accumulate.inputs-unaltered", bool(same), "accumulate|alters-inputs",
              case, lambda: {"flowdir_after": fd.data.tolist(),
                             "field_after": None if ta is None else ta.data.tolist()})
    reduced = maxacc != -1 and maxacc < model.n
    if cyc:
        ctx.tag("cyclic")
        return
    if reduced:
        ctx.tag("reduced-max")
        return
    ctx.tag("acyclic")
    ctx.tag("field:" + case.get("fieldname", "default"))
    if field is not None and np.any(np.asarray(field) == 0):
        ctx.tag("field:zeros")
    f = np.ones(model.n) if field is None else np.asarray(field, float).ravel()
    ups = model.upstream_sets()
    a = np.asarray(acc.data, dtype=float).ravel()
    bad = None
    nontriv = False
    for c in range(model.n):
        if model.down[c] < 0:
            ctx.tag("terminal-cell")
            okc = a[c] == nodata or (math.isnan(nodata) and math.isnan(a[c]))
            exp = nodata
        else:
            exp = float(sum(f[u] for u in ups[c]))
            okc = a[c] == exp
            if len(ups[c]) > 1:
                ctx.tag("has-upstream")
                nontriv = True
            # local identity: own contribution + accumulated direct upstream cells
            loc = f[c] + sum(a[u] for u in model.up[c])
            okc = okc and a[c] == loc
        if not okc and bad is None:
            bad = (c, float(a[c]), exp)
    ctx.check("accumulate.sum-upstream", bad is None, "accumulate|value", case,
              lambda: {"cell,got,expected": bad, "accumulation": a.tolist(),
                       "terminal": [c for c in range(model.n) if model.down[c] < 0]})
    if field is None and case.get("fd_dtype", "i8") in ("i8", "i4") and \
            case.get("fd_nodata") is None and ctx.evaluations % 4 == 0:
        # the caller gives the flow grid another no-data marker and accumulates again:
        # cells that drain nowhere carry the marker the grid has *now*
        try:
            newnd = [-7, 99, -9999][int(a.size) % 3]
            oldnd = fd.nodata
            fd.nodata = newnd
            acc2 = np.asarray(g.accumulate(fd, nprint=10 ** 6).data, dtype=float).ravel()
            term = np.array([model.down[c] < 0 for c in range(model.n)])
            ctx.tag("default-field:marker-changed-between-calls")
            ctx.api("accumulate")
            ctx.check("accumulate.marker-follows-grid",
                      bool(np.all(acc2[term] == newnd)) and
                      bool(np.array_equal(acc2[~term], a[~term])),
                      "accumulate|stale-no-data-marker-after-the-grid's-marker-changed",
                      case, lambda: {"terminal_cells_now": acc2[term][:6].tolist(),
                                     "marker_now": newnd})
            fd.nodata = oldnd
        except Exception as e:
            ctx.extra["marker-change-refused"] += 1
    if nontriv:
        ctx.nontrivial(codes, f, nodata)
        if ctx.evaluations % 16 == 0:
            ctx.reuse("accumulate",
                      lambda: np.asarray(g.accumulate(fd, ta, nprint=10 ** 6,
                                                      max_accumulated_cells=maxacc).data),
                      [], np.array(acc.data, copy=True), case)


def run_terminal_case(ctx):
    """the same accumulation with standard output on a pipe (as in any test run) and on a
    terminal (an interactive session), progress lines on: same numbers"""
    from hyverif.core import stdout_is_a_terminal
    g = mods()
    rng = np.random.default_rng(ctx.seed + 3)
    for (nr, nc, nprint) in ((40, 45, 1), (30, 40, 1), (12, 12, 1), (400, 300, 100)):
        codes = gen_forest(rng, nr, nc, 0)
        fd = g.Grid("fd", nc, nr, dtype=np.int64)
        fd.data = codes
        ta = g.Grid("ta", nc, nr, dtype=np.float64, nodata=-9999.0)
        ta.data = rng.integers(0, 9, size=(nr, nc)) / 2.0
        base = np.asarray(g.accumulate(fd, ta, nprint=nprint).data, dtype=float)
        with stdout_is_a_terminal():
            try:
                tty = np.asarray(g.accumulate(fd, ta, nprint=nprint).data, dtype=float)
                err = None
            except Exception as e:
                tty, err = None, repr(e)[:200]
        ctx.evaluated()
        ctx.tag("stdout-is-a-terminal")
        ctx.api("accumulate", 2)
        ndiff = None if tty is None else int(np.sum(~((tty == base) |
                                                      (np.isnan(tty) & np.isnan(base)))))
        ctx.check("accumulate.terminal", err is None and ndiff == 0,
                  "accumulate|result-depends-on-stdout-being-a-terminal",
                  {"kind": "terminal", "shape": [nr, nc], "nprint": nprint},
                  lambda: {"cells_that_differ": ndiff, "exception": err})


def run_huge_grid(ctx):
    """a grid of 2^27 cells (1 GiB per array): 2^25 rows of four cells flowing east. Every
    row is the same little catchment, so every row of the answer equals the rows of the
    same pattern on a 1000-row grid (default unit field and a two-valued field)."""
    g = mods()
    outs = {}
    for nr in (1000, 2 ** 25):
        fd = g.Grid("fd", 4, nr, dtype=np.int64)
        fd.fill(1)
        for nm in ("default", "field"):
            ta = None
            if nm == "field":
                ta = g.Grid("ta", 4, nr, dtype=np.float64, nodata=-9999.0)
                ta.fill(0.5)
                ta.data[:, 1] = 2.0
            with warnings.catch_warnings():
                warnings.simplefilter("ignore")
                acc = g.accumulate(fd, ta, nprint=10 ** 9) if ta is not None else \
                    g.accumulate(fd, nprint=10 ** 9)
            a = np.asarray(acc.data)
            first = a[0].copy()
            uniform = bool(np.all(a == first[None, :]) if not np.isnan(first).any() else
                           np.all((a == first[None, :]) | np.isnan(a)))
            outs[(nr, nm)] = (first, uniform)
            del acc, a, ta
        del fd
    ctx.evaluated()
    ctx.tag("huge-grid")
    ctx.api("accumulate", 4)
    for nm in ("default", "field"):
        small, big = outs[(1000, nm)], outs[(2 ** 25, nm)]
        same = bool(np.all((small[0] == big[0]) | (np.isnan(small[0]) & np.isnan(big[0]))))
        ctx.check("accumulate.huge-grid", same and small[1] and big[1],
                  "accumulate|value|grid-of-2^27-cells",
                  {"kind": "hugegrid", "field": nm},
                  lambda: {"row_small_grid": small[0].tolist(),
                           "row_huge_grid": big[0].tolist(),
                           "all_rows_equal": [small[1], big[1]]})
    ctx.nontrivial("huge", 2 ** 27)


def run_long_path(ctx, variant=0):
    """one flow path much longer than any round limit (a river of 17 000 to 70 000 cells
    in a single row, column or snake): with the default options every cell holds the sum
    of the field over all cells upstream of it and itself"""
    g = mods()
    rng = np.random.default_rng(ctx.seed + 5 + variant)
    n = [17000, 33000, 16390, 70000][variant % 4]
    how = ["row-east", "column-south", "row-west", "row-east"][variant % 4]
    if how == "row-east":
        fd = g.Grid("fd", n, 1, dtype=np.int64); fd.fill(1)
    elif how == "row-west":
        fd = g.Grid("fd", n, 1, dtype=np.int64); fd.fill(16)
    else:
        fd = g.Grid("fd", 1, n, dtype=np.int64); fd.fill(4)
    fld = rng.integers(1, 9, size=n).astype(float) / 4.0
    ta = g.Grid("ta", fd.ncols, fd.nrows, dtype=np.float64, nodata=-9999.0)
    ta.data = fld.reshape(fd.shape)
    ctx.evaluated()
    ctx.tag("long-path")
    case = {"kind": "longpath", "variant": variant, "n": n, "how": how}
    for nm, field in (("default", None), ("field", ta)):
        ctx.api("accumulate")
        try:
            with warnings.catch_warnings():
                warnings.simplefilter("ignore")
                acc = g.accumulate(fd, nprint=10 ** 9) if field is None else \
                    g.accumulate(fd, field, nprint=10 ** 9)
            a = np.asarray(acc.data, dtype=float).ravel()
        except Exception as e:
            ctx.check("accumulate.long-path", False, "accumulate|long-path|raises", case,
                      {"exc": repr(e)[:200]})
            continue
        f_ = np.ones(n) if field is None else fld
        if how == "row-west":
            exp = np.cumsum(f_[::-1])[::-1].copy()
            term = 0
        else:
            exp = np.cumsum(f_)
            term = n - 1
        # (the last cell flows off the grid: a terminal cell holds the no-data value)
        keep = np.ones(n, dtype=bool); keep[term] = False
        bad = np.where(keep & ~(np.abs(a - exp) <= 1e-9 * exp))[0]
        ctx.check("accumulate.long-path", len(bad) == 0,
                  "accumulate|value|path-of-tens-of-thousands-of-cells", dict(case, field=nm),
                  lambda: {"first_wrong_cell": int(bad[0]), "got": float(a[bad[0]]),
                           "expected": float(exp[bad[0]]), "wrong_cells": int(len(bad))})
    ctx.nontrivial("longpath", n, how)


def run(ctx):
    maxc = 4 if ctx.tier == "quick" else 5
    rng = ctx.rng(1)
    idx = 0
    for (nr, nc) in shapes_upto(maxc):
        for combo in itertools.product(CODES, repeat=nr * nc):
            idx += 1
            if idx % ctx.nshards != ctx.shard:
                continue
            if ctx.out_of_time():
                ctx.notes.append("exhaustive enumeration cut by the time budget")
                ctx.info["exhaustive_complete"] = False
                break
            codes = np.array(combo, dtype=np.int64).reshape((nr, nc))
            codes[codes == 3] = INVALID[idx % len(INVALID)]
            model_cyc = FlowGraph(codes.tolist()).has_cycle()
            flds = fields_for(rng, nr, nc)
            if model_cyc:
                flds = flds[:1] + flds[3:4]
            else:
                # the two magnitude classes alternate to keep the enumeration affordable
                flds = flds[:5] + [flds[5 + idx % 2]]
            for nm, f, nd in flds:
                case = {"kind": "acc", "codes": codes.tolist(),
                        "field": None if f is None else f.tolist(), "nodata": nd,
                        "fieldname": nm,
                        "fd_dtype": ["i8", "i4", "u1", "f8", "i8", "u8", "u4", "f8", "i8",
                                     "u2", "i2", "f4"][idx % 12],
                        "ta_dtype": ["f8", "f4", "i8"][(idx // 4) % 3],
                        "layout": ["C", "F", "C", "T", "C", "S"][(idx // 3) % 6],
                        "bounded": (idx // 5) % 4 == 0}
                if nm == "default" and case["fd_dtype"] in ("i8", "i4"):
                    # the marker of the flow grid may itself be a valid direction code
                    case["fd_nodata"] = [0, 4, 1, 64, -1, 2, 255][(idx // 4) % 7]
                if nm in ("positive", "negatives") and (idx // 3) % 4 == 1:
                    case["other_geometry"] = True
                if nm == "default" and case["fd_dtype"] == "f8":
                    case["fd_nodata"] = [float("nan"), -0.5, float("inf"), -9999.0,
                                         float("-inf")][(idx // 4) % 5]
                if nm == "positive" and (idx // 7) % 3 == 0:
                    case["nodata"] = float("nan")
                run_case(ctx, case)
                if idx % 7919 == 0 and nm == "negatives":
                    ctx.sample(case)
            if idx % 5 == 0:
                run_case(ctx, {"kind": "acc", "codes": codes.tolist(), "field": None,
                               "nodata": 0.0, "fieldname": "default",
                               "max_accumulated_cells": int(rng.integers(1, 3))})
    ctx.info.setdefault("exhaustive_complete", True)
    # masks and counts stored in narrow integer types, on catchments convergent enough
    # for the totals to exceed what the type can hold (the totals are not cell values)
    nnar = 6 if ctx.tier == "quick" else 120
    for it in range(nnar):
        if ctx.out_of_time():
            break
        j = it + ctx.shard
        nr, nc = int(rng.integers(17, 26)), int(rng.integers(17, 26))
        if j % 2:
            codes = gen_forest(rng, nr, nc, j % 3)
        else:                          # everything drains to the bottom-left corner
            codes = np.full((nr, nc), 16, dtype=np.int64)
            codes[:, 0] = 4
            codes[nr - 1, 0] = 0
        tdt = ["u1", "i2", "i1", "u2"][j % 4]
        if tdt == "u1":
            f, nd = rng.integers(0, 2, size=(nr, nc)), 255
        elif tdt == "i1":
            f, nd = rng.integers(0, 3, size=(nr, nc)), -128
        elif tdt == "i2":
            f, nd = rng.integers(90, 121, size=(nr, nc)), -9999
        else:
            f, nd = rng.integers(150, 400, size=(nr, nc)), 65535
        ctx.tag("field:narrow-integer-type")
        run_case(ctx, {"kind": "acc", "codes": codes.tolist(),
                       "field": f.astype(float).tolist(), "nodata": float(nd),
                       "fieldname": "narrow-" + tdt, "ta_dtype": tdt})
    if ctx.tier == "thorough" and ctx.shard == 0:
        run_huge_grid(ctx)
    if ctx.shard == 1 % ctx.nshards:
        run_terminal_case(ctx)
    if ctx.shard == 2 % ctx.nshards:
        run_long_path(ctx, ctx.seed % 3)
    if ctx.tier == "thorough" and ctx.shard in (3, 4, 5, 6):
        run_long_path(ctx, ctx.shard - 3)
    nrand = 10 if ctx.tier == "quick" else 800
    for it in range(nrand):
        if ctx.out_of_time():
            break
        nr, nc = int(rng.integers(2, 16)), int(rng.integers(2, 16))
        if it % 4 == 0:
            nr, nc = [(1, 12), (12, 1), (2, 9), (9, 2)][(it // 4) % 4]
        codes = gen_forest(rng, nr, nc, it % 3)
        ctx.tag("random-forest")
        for nm, f, nd in fields_for(rng, nr, nc):
            run_case(ctx, {"kind": "acc", "codes": codes.tolist(),
                           "field": None if f is None else f.tolist(), "nodata": nd,
                           "fieldname": nm, "nprint": [100, 1, 7][it % 3],
                           "layout": ["C", "F", "T", "S"][(it // 3) % 4],
                           "bounded": it % 2 == 0})
        rc = rng.choice(CODES + INVALID, size=(nr, nc))
        run_case(ctx, {"kind": "acc", "codes": rc.tolist(), "field": None,
                       "nodata": 0.0, "fieldname": "default"})


def replay(ctx, case):
    if case.get("kind") == "hugegrid":
        return run_huge_grid(ctx)
    if case.get("kind") == "terminal":
        return run_terminal_case(ctx)
    if case.get("kind") == "longpath":
        return run_long_path(ctx, int(case.get("variant", 0)))
    run_case(ctx, case)
