"""C15 - point-in-polygon answers agree with the even-odd rule.

Monitor: exact rational crossing-parity oracle for every query point that is farther
than the tolerance from every edge; metamorphic relations (rotation / reversal of
the vertex list, closing the ring, translation, scaling) between observed calls."""
import math
from fractions import Fraction

import numpy as np

from hyverif.core import ND_PRESENTATIONS

ID = "C15"
SHARDS = {"quick": 8, "thorough": 16}
BUDGET = {"quick": 300, "thorough": 1800}
RULE = ("polygons with 3..12 vertices: star-shaped, random self-intersecting, "
        "integer-lattice polygons rich in horizontal / vertical / collinear edges "
        "and repeated vertices; query points random and on half-integer lattices "
        "(level with vertices, on extensions of edges), inside and outside the "
        "bounding box. Points closer than 1e-6 x polygon size to an edge are "
        "executed but not judged. Non-trivial: every judged (polygon, point); "
        "distinct by digest.")
ASSUMPTIONS = [
    "polygon coordinates differ by 0 or by >= 1e-3 (far above atol = 1e-8)",
    "expected parity computed with exact rational arithmetic from the float64 "
    "coordinates; distance-to-edge filter computed in float64 with a 1e-6 x size "
    "margin",
]
OBLIGATIONS = {"poly:star": 20, "poly:selfintersecting": 20, "poly:lattice": 20,
               "poly:repeated-vertex": 5, "pt:inside": 500, "pt:outside-in-bbox": 300,
               "pt:outside-bbox": 100, "pt:level-with-vertex": 200, "meta": 100,
               "cells_inside_polygon": 10, "inside-buffer": 50, "options": 50,
               "poly:far-from-origin": 20, "poly:far-open>3": 10,
               "cells:grid-moved-after-use": 20, "cells:polygon-at-one-end": 3, "cells:polygon-within-one-row-or-column": 10,
               "cells:big-grid": 4, "poly:finely-digitised": 6, "poly:thousands-of-vertices-points-level-with-vertices": 6, "poly:near-rectangle": 20}


def P():
    from hydrodiy.gis import gutils
    return gutils


def parity_exact(poly, x, y):
    fx, fy = Fraction(float(x)), Fraction(float(y))
    n = len(poly)
    inside = False
    for i in range(n):
        x1, y1 = Fraction(float(poly[i][0])), Fraction(float(poly[i][1]))
        x2, y2 = Fraction(float(poly[(i + 1) % n][0])), \
            Fraction(float(poly[(i + 1) % n][1]))
        if (y1 > fy) != (y2 > fy):
            xint = x1 + (fy - y1) * (x2 - x1) / (y2 - y1)
            if fx < xint:
                inside = not inside
    return inside


def dist_to_edges(poly, pts):
    """min distance of each point to the polygon edges (float)"""
    p = np.asarray(poly, float)
    q = np.roll(p, -1, axis=0)
    d = np.full(len(pts), np.inf)
    for a, b in zip(p, q):
        ab = b - a
        L2 = float(ab @ ab)
        if L2 == 0:
            t = np.zeros(len(pts))
        else:
            t = np.clip(((pts - a) @ ab) / L2, 0, 1)
        proj = a + t[:, None] * ab
        d = np.minimum(d, np.hypot(*(pts - proj).T))
    return d


def gen_polygon(rng, it):
    k = it % 3
    nv = int(rng.integers(3, 13))
    if k == 0:
        ang = np.sort(rng.uniform(0, 2 * np.pi, size=nv))
        rad = rng.uniform(0.3, 1.0, size=nv)
        sc = 10.0 ** rng.integers(-2, 4)
        c = rng.normal(size=2) * sc
        poly = np.column_stack([np.cos(ang) * rad, np.sin(ang) * rad]) * sc + c
        tag = "poly:star"
        if rng.random() < 0.5:
            poly = poly[::-1]
    elif k == 1:
        sc = 10.0 ** rng.integers(-2, 4)
        poly = np.round(rng.uniform(-1, 1, size=(nv, 2)), 3) * sc
        tag = "poly:selfintersecting"
    else:
        poly = rng.integers(-4, 5, size=(nv, 2)).astype(float)
        if it % 9 == 2:
            # axis-aligned square [a, b] x [a, b]: only two distinct coordinate values
            a, b = sorted(rng.choice(np.arange(-4, 6), size=2, replace=False))
            poly = np.array([[a, a], [b, a], [b, b], [a, b]], dtype=float)
            poly = np.roll(poly, int(rng.integers(0, 4)), axis=0)
            if rng.random() < 0.5:
                poly = poly[::-1].copy()
        elif rng.random() < 0.5:
            # rectilinear-ish: alternate horizontal / vertical moves
            pts = [poly[0]]
            for i in range(1, nv):
                p = pts[-1].copy()
                p[i % 2] = poly[i][i % 2]
                pts.append(p)
            poly = np.array(pts)
        tag = "poly:lattice"
    if it % 16 == 10:
        # almost a rectangle: a box with one corner cut by a small chamfer, or with one
        # vertex pushed in (a map sheet after re-projection), given open or closed
        w_, h_ = float(rng.integers(2, 12)), float(rng.integers(2, 12))
        f_ = float(rng.choice([4e-3, 2e-3, 1e-3, 4e-4]))
        box = [[0.0, 0.0], [w_, 0.0], [w_, h_], [0.0, h_]]
        j_ = int(rng.integers(0, 4))
        cx_, cy_ = box[j_]
        sx_, sy_ = (1 if cx_ == 0 else -1), (1 if cy_ == 0 else -1)
        if rng.random() < 0.5:
            cut = [[cx_ + sx_ * f_ * w_, cy_], [cx_, cy_ + sy_ * f_ * h_]]
            if (j_ % 2 == 0):
                cut = cut[::-1]
            box[j_:j_ + 1] = cut
        else:
            box[j_] = [cx_ + sx_ * f_ * w_, cy_ + sy_ * f_ * h_]
        poly = np.array(box, dtype=float)
        sc = 10.0 ** rng.integers(-1, 3)
        poly = poly * sc + np.round(rng.normal(size=2) * sc, 2)
        if rng.random() < 0.5:
            poly = np.vstack([poly, poly[:1]])
        if rng.random() < 0.5:
            poly = poly[::-1].copy()
        tag = "poly:near-rectangle"
    if it % 13 == 8 and tag in ("poly:star", "poly:lattice", "poly:selfintersecting"):
        # a very small polygon (a building footprint in degrees, a sample plot in km):
        # a few 1e-5 across, vertices still thousands of tolerances apart
        ext_ = float(max(poly.max(axis=0) - poly.min(axis=0))) or 1.0
        poly = (poly - poly.min(axis=0)) / ext_ * float(rng.choice([2e-5, 2.0 ** -16, 6e-5,
                                                                    1.5e-4]))
        poly = poly + np.round(rng.normal(size=2), 3) * (it % 2)
    rep = False
    if it % 5 == 0 and len(poly) >= 3 and tag != "poly:near-rectangle":
        j = int(rng.integers(0, len(poly)))
        poly = np.insert(poly, j, poly[j], axis=0)
        rep = True
    if it % 7 in (3, 5) and tag != "poly:near-rectangle":
        # map coordinates: a polygon of ordinary size far from the origin (projected
        # metres, or degrees of longitude / latitude)
        size = float(max(poly.max(axis=0) - poly.min(axis=0))) or 1.0
        if size < 1.0:
            poly = poly * (2.0 ** math.ceil(math.log2(1.0 / size)))
        off = FAR[(it // 7) % len(FAR)]
        poly = poly + np.array(off)
        tag = tag + "+far"
    return np.ascontiguousarray(poly, dtype=float), tag, rep


FAR = [(6.5e5, 5.8e6), (-3e6, 1e7), (1e5, 2e5), (144.5, -37.25), (2 ** 20, -2 ** 22),
       (5e7, 5e7)]


def gen_points(rng, poly, lattice):
    lo, hi = poly.min(axis=0), poly.max(axis=0)
    size = float(max(hi - lo)) or 1.0
    npt = 60
    pts = [rng.uniform(lo - 0.3 * size, hi + 0.3 * size, size=(npt, 2))]
    # level with vertices / on extensions of edges
    vy = poly[rng.integers(0, len(poly), size=20), 1]
    pts.append(np.column_stack([rng.uniform(lo[0] - 0.2 * size, hi[0] + 0.2 * size,
                                            size=20), vy]))
    vx = poly[rng.integers(0, len(poly), size=10), 0]
    pts.append(np.column_stack([vx, rng.uniform(lo[1] - 0.2 * size, hi[1] + 0.2 * size,
                                                size=10)]))
    if lattice:
        c0 = np.round((lo + hi) / 2)
        pts.append(c0 + rng.integers(-10, 11, size=(40, 2)) / 2.0)
    # close to vertices and to the corners of the extent, at several scales (a cut
    # corner, a displaced vertex or a notch is small relative to the polygon)
    anchors = np.vstack([poly[rng.integers(0, len(poly), size=12)],
                         [[lo[0], lo[1]], [lo[0], hi[1]], [hi[0], lo[1]], [hi[0], hi[1]]]])
    for a_ in anchors:
        sc_ = size * 10.0 ** -float(rng.integers(2, 5))
        pts.append(a_ + rng.uniform(-1, 1, size=(2, 2)) * sc_)
    # the same location asked for several times in one call (stations sharing a site),
    # next to each other and with other points - far outside the polygon - in between
    base = np.vstack(pts)
    far = np.array([[hi[0] + 5 * size, hi[1] + 5 * size], [lo[0] - 7 * size, lo[1]]])
    rep = base[rng.integers(0, len(base), size=6)]
    inter = []
    for q in rep:
        inter += [q, far[0], q, q, far[1], far[0], q]
    pts.append(np.array(inter))
    return np.ascontiguousarray(np.vstack(pts), dtype=float), size


def run_case(ctx, case):
    gu = P()
    poly = np.ascontiguousarray(case["polygon"], dtype=float)
    pts = np.ascontiguousarray(case["points"], dtype=float)
    ctx.evaluated()
    tg = case.get("tag", "poly:lattice")
    ctx.tag(tg.replace("+far", ""))
    if tg.endswith("+far"):
        ctx.tag("poly:far-from-origin")
        if len(poly) > 3 and not np.array_equal(poly[0], poly[-1]):
            ctx.tag("poly:far-open>3")
    if case.get("repeated"):
        ctx.tag("poly:repeated-vertex")
    lo, hi = poly.min(axis=0), poly.max(axis=0)
    size = float(max(hi - lo)) or 1.0
    ctx.api("points_inside_polygon")
    got = np.asarray(gu.points_inside_polygon(pts.copy(), poly.copy()))
    d = dist_to_edges(poly, pts)
    judged = d > 1e-6 * size
    ctx.evaluated(int(judged.sum()))
    ctx.extra["points-near-edge-not-judged"] += int((~judged).sum())
    bad = None
    vys = set(poly[:, 1].tolist())
    for i in np.where(judged)[0]:
        exp = parity_exact(poly, pts[i, 0], pts[i, 1])
        inb = bool(np.all(pts[i] >= lo) and np.all(pts[i] <= hi))
        ctx.tag("pt:inside" if exp else ("pt:outside-in-bbox" if inb
                                         else "pt:outside-bbox"))
        if float(pts[i, 1]) in vys:
            ctx.tag("pt:level-with-vertex")
        if int(got[i]) != int(exp) and bad is None:
            bad = (float(pts[i, 0]), float(pts[i, 1]), int(got[i]), int(exp),
                   float(d[i]))
        ctx.nontrivial(poly, pts[i])
    ctx.check("inside.even-odd", bad is None, "points_inside_polygon|even-odd", case,
              lambda: {"x,y,got,expected,dist_to_edge": bad})
    ctx.check("inside.values-0-1", bool(np.all((got == 0) | (got == 1))),
              "points_inside_polygon|values", case, None)

    # ---- the same coordinates in another memory layout / container (np.array([x, y]).T
    # is Fortran-ordered)
    ctx.presentations("points_inside_polygon",
                      lambda q_, p_: np.asarray(gu.points_inside_polygon(q_, p_)),
                      [pts, poly], got, case,
                      np.random.default_rng(int(case.get("seed", 0)) + 1), n=2,
                      kinds=ND_PRESENTATIONS + ["int"])
    ctx.reuse("points_inside_polygon",
              lambda q_, p_: np.asarray(gu.points_inside_polygon(q_, p_)), [pts, poly], got,
              case)
    # ---- options: a smaller tolerance and the progress log must not change answers
    for kw in ({"atol": 0.0}, {"atol": 1e-12}, {"nprint": 1}, {"nprint": 7}):
        ctx.api("points_inside_polygon(opts)")
        ctx.tag("options")
        g3 = np.asarray(gu.points_inside_polygon(pts.copy(), poly.copy(), **kw))
        diff = np.where(judged & (g3 != got))[0]
        ctx.check("inside.options", len(diff) == 0,
                  "points_inside_polygon|option-changes-answer", case,
                  lambda: {"options": kw, "point": pts[diff[0]].tolist()})
    # ---- caller-supplied answer vector (documented output): whatever it holds
    # before the call, the answer must be the same as with a fresh vector
    for fillv in (1, 0, 7):
        buf = np.full(len(pts), fillv, dtype=np.int32)
        ctx.api("points_inside_polygon(inside=)")
        ctx.tag("inside-buffer")
        gb = np.asarray(gu.points_inside_polygon(pts.copy(), poly.copy(), inside=buf))
        ctx.check("inside.buffer-independent", bool(np.array_equal(gb, got)) and
                  bool(np.array_equal(buf, got)), "points_inside_polygon|inside-buffer",
                  case, lambda: {"prefill": fillv, "differ": int((gb != got).sum())})
    # ---- metamorphic relations on observed executions
    rng = np.random.default_rng(int(case.get("seed", 0)))
    n = len(poly)
    variants = {
        "rotate": (np.roll(poly, int(rng.integers(1, n)), axis=0), pts),
        "reverse": (poly[::-1].copy(), pts),
        "close-ring": (np.vstack([poly, poly[:1]]), pts),
    }
    t = np.round(rng.normal(size=2) * size, 3)
    variants["translate"] = (poly + t, pts + t)
    variants["scale-pow2"] = (poly * 8.0, pts * 8.0)
    variants["scale"] = (poly * 3.7, pts * 3.7)
    # very large and very small units (exact powers of two: every comparison the
    # even-odd rule makes is the same; the tolerance is scaled with the unit)
    for k_ in (532, 900, -300, -532, -900):
        variants[f"scale-2**{k_}"] = (poly * 2.0 ** k_, pts * 2.0 ** k_,
                                      {"atol": 1e-8 * 2.0 ** k_} if k_ < 0 else {})
    for nm, var in variants.items():
        pv, qv = var[:2]
        kwv = var[2] if len(var) > 2 else {}
        ctx.tag("meta")
        if nm.startswith("scale-2**"):
            ctx.tag("meta:extreme-units")
        ctx.api("points_inside_polygon")
        g2 = np.asarray(gu.points_inside_polygon(np.ascontiguousarray(qv),
                                                 np.ascontiguousarray(pv), **kwv))
        # judged points stay > margin away from the edges after the map
        diff = np.where(judged & (g2 != got))[0]
        ctx.check("inside.meta." + nm, len(diff) == 0,
                  "points_inside_polygon|meta|" + nm, case,
                  lambda: {"point": pts[diff[0]].tolist(), "base": int(got[diff[0]]),
                           "variant": int(g2[diff[0]])})


def run_cells_case(ctx, case):
    from hydrodiy.gis.grid import Grid
    poly = np.ascontiguousarray(case["polygon"], dtype=float)
    nr, nc = int(case["nrows"]), int(case["ncols"])
    xll, yll, csz = float(case["xll"]), float(case["yll"]), float(case["csz"])
    ctx.evaluated()
    ctx.tag("cells_inside_polygon")
    gr = Grid("g", nc, nr, cellsize=csz, xllcorner=xll, yllcorner=yll)
    if int(poly.sum() * 4 + nr) % 3 == 0:
        # a grid (or its clone) that already answered for another position and cell
        # size, then moved onto the target geometry by assigning its attributes
        ctx.tag("cells:grid-moved-after-use")
        gr = Grid("g", nc, nr, cellsize=csz * 2.0, xllcorner=xll - 3.5 * csz,
                  yllcorner=yll + 2.25 * csz)
        gr.cells_inside_polygon(poly.copy())
        if int(poly.sum()) % 2:
            gr = gr.clone()
        try:
            gr.xllcorner = xll
            gr.yllcorner = yll
            gr.cellsize = csz
        except AttributeError:
            gr = Grid("g", nc, nr, cellsize=csz, xllcorner=xll, yllcorner=yll)
    # what the grid *holds* is irrelevant to the question: data bounds, no-data value,
    # cell type and cell values vary
    k_ = int(abs(poly.sum()) * 8 + nc) % 6
    if k_ in (1, 2, 3, 4) and hasattr(type(gr), "mindata"):
        ctx.tag("cells:grid-with-data-bounds")
        try:
            if k_ == 1:
                gr.mindata = 1.0
                gr.fill(4)
            elif k_ == 2:
                gr.maxdata = -0.5
                gr.fill(-3)
            elif k_ == 3:
                gr.mindata, gr.maxdata = 1e-3, 0.9
                gr.fill(0.5)
            else:
                gr.mindata, gr.maxdata = 2.0, 128.0
                gr.nodata = 255
        except Exception:
            pass
    ctx.api("cells_inside_polygon")
    df = gr.cells_inside_polygon(poly.copy())
    cells = set(int(c) for c in df["cell"].values)
    size = float(max(poly.max(axis=0) - poly.min(axis=0))) or 1.0
    centres = np.array([[xll + (k + 0.5) * csz, yll + (nr - 1 - r + 0.5) * csz]
                        for r in range(nr) for k in range(nc)])
    d = dist_to_edges(poly, centres)
    bad = None
    for c in range(nr * nc):
        if d[c] <= 1e-6 * size:
            continue
        exp = parity_exact(poly, centres[c, 0], centres[c, 1])
        if (c in cells) != exp and bad is None:
            bad = (c, centres[c].tolist(), c in cells, exp)
    ctx.check("cells_inside.set", bad is None, "cells_inside_polygon|set", case,
              lambda: {"cell,centre,reported,expected": bad})
    okxy = True
    for c, x, y in zip(df["cell"].values, df["x"].values, df["y"].values):
        okxy &= abs(x - centres[int(c), 0]) < 1e-9 * max(1, abs(x)) and \
            abs(y - centres[int(c), 1]) < 1e-9 * max(1, abs(y))
    ctx.check("cells_inside.xy", bool(okxy), "cells_inside_polygon|xy", case, None)
    # the same map drawn in a much smaller unit (2**-40), the caller giving the tolerance
    # in that unit: the same cells
    un = 2.0 ** -40
    gs = Grid("s", nc, nr, cellsize=csz * un, xllcorner=xll * un, yllcorner=yll * un)
    ctx.api("cells_inside_polygon")
    ctx.tag("cells:small-unit-with-caller-tolerance")
    try:
        dfs = gs.cells_inside_polygon(poly * un, atol=1e-8 * un)
        cells_s = set(int(c) for c in dfs["cell"].values)
        dif = sorted(c for c in cells ^ cells_s if d[c] > 1e-6 * size)
        ctx.check("cells_inside.small-unit", not dif,
                  "cells_inside_polygon|differs-in-a-small-unit-with-the-tolerance-given",
                  case, lambda: {"unit": "2**-40", "atol": 1e-8 * un, "cells_differing": dif[:6],
                                 "n_base": len(cells), "n_small": len(cells_s)})
    except Exception as ex:
        ctx.check("cells_inside.small-unit", False,
                  "cells_inside_polygon|raises-in-a-small-unit", case, {"exc": repr(ex)[:200]})
    ctx.nontrivial(poly, nr, nc, xll, yll, csz)


def parity_float(poly, pts):
    """even-odd rule in floating point, vectorised over the edges (for outlines of tens
    of thousands of vertices; only trusted for points well away from the boundary)"""
    p = np.asarray(poly, float)
    q = np.roll(p, -1, axis=0)
    out = np.zeros(len(pts), dtype=bool)
    for i, (x, y) in enumerate(pts):
        cr = (p[:, 1] > y) != (q[:, 1] > y)
        with np.errstate(all="ignore"):
            xi = p[cr, 0] + (y - p[cr, 1]) * (q[cr, 0] - p[cr, 0]) / (q[cr, 1] - p[cr, 1])
        out[i] = bool(np.sum(x < xi) % 2)
    return out


def dist_to_edges_vec(poly, pts):
    p = np.asarray(poly, float)
    ab = np.roll(p, -1, axis=0) - p
    L2 = np.einsum("ij,ij->i", ab, ab)
    d = np.empty(len(pts))
    for i, pt in enumerate(pts):
        with np.errstate(all="ignore"):
            t = np.where(L2 > 0, np.einsum("ij,ij->i", pt - p, ab) / np.where(L2 > 0, L2, 1),
                         0.0)
        t = np.clip(t, 0, 1)
        proj = p + t[:, None] * ab
        d[i] = float(np.min(np.hypot(pt[0] - proj[:, 0], pt[1] - proj[:, 1])))
    return d


def digitised_outline(kind, nv, csz):
    if kind == "half-disc":
        # a box whose right-hand side is half a circle of radius 5.7 cells
        th = np.linspace(-np.pi / 2, np.pi / 2, nv)
        arc = np.column_stack([7.1 + 5.7 * np.cos(th), 6.9 + 5.7 * np.sin(th)])
        poly = np.vstack([[[1.3, 1.2]], arc, [[1.3, 12.6]]])
    elif kind == "disc":
        th = np.linspace(0, 2 * np.pi, nv, endpoint=False)
        poly = np.column_stack([7.2 + 5.4 * np.cos(th), 6.8 + 5.4 * np.sin(th)])
    else:
        # a coastline: straight sides, one side a finely digitised sine of 3 cells
        t = np.linspace(0, 1, nv)
        wave = np.column_stack([1.2 + 11.5 * t, 9.3 + 3.1 * np.sin(4 * np.pi * t)])
        poly = np.vstack([wave, [[12.7, 1.1], [1.2, 1.4]]])
    return poly * csz


def run_digitised_case(ctx, case):
    """outlines digitised much more finely than the grid (vertex spacing 1e-4 .. 1e-2 of
    a cell, four to five orders of magnitude above the tolerance)"""
    from hydrodiy.gis.grid import Grid
    gu = P()
    csz = float(case["csz"])
    poly = digitised_outline(case["outline"], int(case["nv"]), csz)
    if case.get("reverse"):
        poly = poly[::-1].copy()
    nr = nc = 14
    ctx.evaluated()
    ctx.tag("poly:finely-digitised")
    gr = Grid("g", nc, nr, cellsize=csz, xllcorner=0.0, yllcorner=0.0)
    centres = np.array([[(k + 0.5) * csz, (nr - 1 - r + 0.5) * csz]
                        for r in range(nr) for k in range(nc)])
    d = dist_to_edges_vec(poly, centres)
    judged = d > 1e-3 * csz
    exp = parity_float(poly, centres)
    ctx.api("cells_inside_polygon")
    df = gr.cells_inside_polygon(poly.copy())
    got = np.zeros(nr * nc, dtype=bool)
    got[df["cell"].values.astype(int)] = True
    diff = np.where(judged & (got != exp))[0]
    ctx.check("cells_inside.digitised", len(diff) == 0,
              "cells_inside_polygon|set|finely-digitised", case,
              lambda: {"n_wrong": int(len(diff)), "cell": int(diff[0]),
                       "centre": centres[diff[0]].tolist(),
                       "reported": bool(got[diff[0]]), "expected": bool(exp[diff[0]]),
                       "dist_to_outline_in_cells": float(d[diff[0]] / csz)})
    ctx.api("points_inside_polygon")
    g2 = np.asarray(gu.points_inside_polygon(centres.copy(), poly.copy())).astype(bool)
    diff2 = np.where(judged & (g2 != exp))[0]
    ctx.check("inside.digitised", len(diff2) == 0,
              "points_inside_polygon|even-odd|finely-digitised", case,
              lambda: {"n_wrong": int(len(diff2)), "point": centres[diff2[0]].tolist()})
    ctx.evaluated(int(judged.sum()))
    ctx.nontrivial("digitised", case["outline"], case["nv"], csz)


def smooth_sizes(lo, hi):
    """numbers of points at which block-wise processing changes hands: block lengths
    are powers of two times a small factor (3 x 2^18 = 12 MiB of coordinates, 5 x 2^17
    ...) or round decimal numbers; each with its two neighbours"""
    s = set()
    for a_ in range(10, 24):
        for f_ in (1, 3, 5, 7, 9, 15):
            v = f_ * 2 ** a_
            for mult in (1, 2, 3):
                s.update((v * mult - 1, v * mult, v * mult + 1))
    for r in (100000, 125000, 200000, 250000, 500000, 750000, 1000000, 1500000, 2000000):
        s.update((r - 1, r, r + 1))
    return sorted(v for v in s if lo <= v <= hi)


def run_many_points(ctx, sizes):
    """hundreds of thousands to millions of points in one call, all of them inside a
    plain quadrilateral except a known few: the answer vector is known in closed form"""
    gu = P()
    poly = np.array([[0.0, 0.0], [8.0, 0.5], [8.5, 7.0], [-0.5, 6.5]])
    rng = np.random.default_rng(len(sizes))
    big = rng.uniform(1.0, 6.0, size=(max(sizes), 2))        # strictly inside
    for n in sizes:
        pts = big[:n].copy()
        out = np.unique(np.concatenate([rng.integers(0, n, size=5), [0, n // 2]]))
        out = out[out < n - 1]                # the last point stays inside
        pts[out] = [20.0, 3.0]
        exp = np.ones(n, dtype=np.int32)
        exp[out] = 0
        ctx.evaluated()
        ctx.tag("pip:many-points")
        ctx.api("points_inside_polygon")
        got = np.asarray(gu.points_inside_polygon(pts, poly))
        bad = np.where(got != exp)[0]
        ctx.check("inside.many-points", got.shape == exp.shape and len(bad) == 0,
                  "points_inside_polygon|even-odd|many-points",
                  {"kind": "manypoints", "n": int(n)},
                  lambda: {"n": int(n), "n_wrong": int(len(bad)),
                           "first_wrong_index": int(bad[0]) if len(bad) else None,
                           "got": int(got[bad[0]]) if len(bad) else None})
        ctx.nontrivial("manypoints", n)


def run_big_grid(ctx):
    """grids of more than a million cells (a 1000 x 1250 raster and a 2^20 + 1 cell one):
    small non-convex polygons placed at the start, across cell number 10^6 / 2^20 and at
    the very end of the numbering; expected cells from the exact oracle on the cells of
    the polygon's bounding box (every other centre is outside)"""
    from hydrodiy.gis.grid import Grid
    def star(n_, k_, flip=False):
        a_ = np.pi / 2 + 2 * np.pi * k_ * np.arange(n_) / n_ * (-1 if flip else 1)
        return np.column_stack([3.3 + 2.9 * np.cos(a_), 2.7 + 2.45 * np.sin(a_)])
    # a non-convex pentagon, convex outlines, and outlines that turn the same way at every
    # vertex while crossing themselves (pentagram, {7/3} star: their core is *outside*
    # under the even-odd rule)
    shapes = [np.array([[0.2, 0.1], [6.3, 0.4], [6.1, 4.2], [3.1, 1.7], [0.4, 4.4]]),
              star(5, 2), star(7, 3), star(6, 1), star(5, 2, True), star(3, 1), star(9, 4)]
    for gi, (nr, nc) in enumerate(((1000, 1250), (1025, 1025))):
        gr = Grid("big", nc, nr, cellsize=1.0, xllcorner=0.0, yllcorner=0.0)
        marks = [0, 10 ** 6, 2 ** 20, nr * nc - 1 - 7 * nc]
        for mk, shape in [(mk_, sh_) for mi, mk_ in enumerate(marks)
                          for si, sh_ in enumerate(shapes)
                          if si == 0 or (si + mi + gi) % 2 == 0]:
            if mk >= nr * nc:
                continue
            r0, k0 = divmod(mk, nc)
            # lower-left corner of the shape a little inside the cell block around mk
            ox = float(min(max(k0 - 3, 0), nc - 8))
            oy = float(min(max(nr - 1 - r0 - 2, 0), nr - 6))
            poly = shape + np.array([ox, oy])
            ctx.evaluated()
            ctx.tag("cells:big-grid")
            ctx.api("cells_inside_polygon")
            df = gr.cells_inside_polygon(poly.copy())
            got = sorted(int(c) for c in df["cell"].values)
            exp = []
            for k in range(int(ox), int(ox) + 8):
                for j in range(int(oy), int(oy) + 6):
                    cx, cy = k + 0.5, j + 0.5
                    if dist_to_edges(poly, np.array([[cx, cy]]))[0] > 1e-6 and \
                            parity_exact(poly, cx, cy):
                        exp.append((nr - 1 - j) * nc + k)
            exp = sorted(exp)
            case = {"kind": "bigcells", "nrows": nr, "ncols": nc, "mark": mk}
            ctx.check("cells_inside.big-grid", got == exp, "cells_inside_polygon|set|big-grid",
                      case, lambda: {"got": got[:12], "expected": exp[:12],
                                     "n_got": len(got), "n_expected": len(exp)})
            ctx.nontrivial("big", nr, nc, mk)


def run_level_case(ctx, case):
    """outlines of a few thousand vertices (round and power-of-two counts) queried with
    points exactly level with their vertices - every 16th vertex and a random sample -
    inside and outside, for three starting vertices and both orientations"""
    gu = P()
    nv, shape = int(case["nv"]), case["shape"]
    rng = np.random.default_rng(int(case["seed"]))
    ang = 2 * np.pi * (np.arange(nv) + 0.25) / nv
    rad = 10.0 if shape == "circle" else 10.0 + 2.0 * np.sin(7 * ang)
    base = np.column_stack([rad * np.cos(ang), rad * np.sin(ang)])
    ks = np.unique(np.concatenate([np.arange(0, nv, 16), rng.integers(0, nv, 150)]))
    ys = base[ks, 1]
    pts = np.concatenate([np.column_stack([0.3 * base[ks, 0], ys]),
                          np.column_stack([-0.55 * base[ks, 0], ys]),
                          np.column_stack([1.6 * base[ks, 0], ys])])
    d = dist_to_edges_vec(base, pts)
    judged = d > 1e-5 * 20.0
    exp = parity_float(base, pts)
    ctx.evaluated(int(judged.sum()))
    ctx.tag("poly:thousands-of-vertices-points-level-with-vertices")
    for start in (0, int(rng.integers(1, nv)), 511 % nv):
        for rev in (False, True):
            poly = np.roll(base, -start, axis=0)
            if rev:
                poly = poly[::-1].copy()
            ctx.api("points_inside_polygon")
            got = np.asarray(gu.points_inside_polygon(pts.copy(), np.ascontiguousarray(poly))
                             ).astype(bool)
            diff = np.where(judged & (got != exp))[0]
            ctx.check("inside.level-with-vertices", len(diff) == 0,
                      "points_inside_polygon|even-odd|thousands-of-vertices", case,
                      lambda: {"n_wrong": int(len(diff)), "point": pts[diff[0]].tolist(),
                               "reported": bool(got[diff[0]]), "expected": bool(exp[diff[0]]),
                               "start_vertex": start, "reversed": rev})
    ctx.nontrivial("level", nv, shape)


def run(ctx):
    lv = [(2048, "circle"), (4096, "circle"), (2047, "star"), (3000, "star"), (5000, "circle"),
          (1024, "star"), (8192, "star"), (2049, "circle")]
    for j, (nv_, shp_) in enumerate(lv):
        if j % ctx.nshards == (ctx.shard + 5) % ctx.nshards or ctx.nshards <= 1:
            run_level_case(ctx, {"kind": "level", "nv": nv_, "shape": shp_,
                                 "seed": ctx.seed + j})
    if ctx.shard == 1 % ctx.nshards:
        run_big_grid(ctx)
    ms = smooth_sizes(100000, 2400000 if ctx.tier == "quick" else 9000000)
    mine = [v for j, v in enumerate(ms) if ctx.nshards <= 1 or
            j % ctx.nshards == ctx.shard % ctx.nshards]
    if mine:
        run_many_points(ctx, mine)
    dig = [("half-disc", 24000, 1.0), ("disc", 50000, 1.0), ("coast", 30000, 250.0),
           ("half-disc", 3000, 0.05), ("disc", 6000, 1000.0), ("coast", 100000, 1.0)]
    if ctx.tier == "thorough":
        dig += [("half-disc", 200000, 1.0), ("disc", 400000, 0.5), ("coast", 12000, 1.0),
                ("half-disc", 60000, 25.0)]
    for j, (ol, nv, csz) in enumerate(dig):
        if ctx.nshards > 1 and j % ctx.nshards != ctx.shard % ctx.nshards:
            continue
        run_digitised_case(ctx, {"kind": "digitised", "outline": ol, "nv": nv, "csz": csz,
                                 "reverse": bool(j % 2)})
    rng = ctx.rng(1)
    nrep = 60 if ctx.tier == "quick" else 4000
    for it0 in range(nrep):
        it = it0 + ctx.shard
        if ctx.out_of_time():
            ctx.notes.append(f"stopped at {it0}")
            break
        poly, tag, rep = gen_polygon(rng, it)
        pts, size = gen_points(rng, poly, tag.startswith("poly:lattice"))
        case = {"kind": "pip", "polygon": poly, "points": pts, "tag": tag,
                "repeated": rep, "seed": int(rng.integers(0, 2 ** 31))}
        run_case(ctx, case)
        if it0 % 25 == 0:
            ctx.sample({"polygon": poly, "points": pts[:5], "tag": tag})
        if it0 % 12 == 6:
            # tall and wide grids with the polygon confined to one end
            nr_, nc_ = [(12, 3), (9, 2), (8, 1), (3, 12), (1, 8)][(it0 // 12) % 5]
            unit = np.array([[0.2, 0.1], [0.9, 0.3], [0.5, 0.95]])
            if nr_ > nc_:       # top end of a tall grid
                tri = unit * np.array([nc_, 1.5]) + np.array([0.0, nr_ - 1.8])
            else:               # right end of a wide grid
                tri = unit * np.array([1.5, nr_]) + np.array([nc_ - 1.8, 0.0])
            ctx.tag("cells:polygon-at-one-end")
            run_cells_case(ctx, {"kind": "cells", "polygon": tri, "nrows": nr_,
                                 "ncols": nc_, "xll": 0.0, "yll": 0.0, "csz": 1.0})
        if it0 % 6 == 1:
            # small and flat polygons: a river reach lying within one row (or column) of
            # cells and covering some of their centres, a paddock smaller than a cell
            # around one centre
            nr_, nc_ = int(rng.integers(1, 10)), int(rng.integers(1, 10))
            cs_ = [1.0, 0.5, 2.0, 0.25][it0 // 6 % 4]
            x0_, y0_ = float(rng.integers(-3, 4)), float(rng.integers(-3, 4))
            r_, c_ = int(rng.integers(0, nr_)), int(rng.integers(0, nc_))
            yc = y0_ + (nr_ - 1 - r_ + 0.5) * cs_
            xc = x0_ + (c_ + 0.5) * cs_
            kindp = it0 // 6 % 3
            if kindp == 0:
                ca, cb = sorted([float(rng.uniform(-0.4, nc_ + 0.4)) for _ in range(2)])
                cb = max(cb, ca + 0.3)
                flat = np.array([[x0_ + ca * cs_, yc - 0.3 * cs_], [x0_ + cb * cs_, yc - 0.25 * cs_],
                                 [x0_ + cb * cs_, yc + 0.35 * cs_], [x0_ + ca * cs_, yc + 0.2 * cs_]])
            elif kindp == 1:
                ra, rb = sorted([float(rng.uniform(-0.4, nr_ + 0.4)) for _ in range(2)])
                rb = max(rb, ra + 0.3)
                flat = np.array([[xc - 0.3 * cs_, y0_ + ra * cs_], [xc + 0.2 * cs_, y0_ + ra * cs_],
                                 [xc + 0.35 * cs_, y0_ + rb * cs_], [xc - 0.25 * cs_, y0_ + rb * cs_]])
            else:
                flat = np.array([[xc - 0.2 * cs_, yc - 0.1 * cs_], [xc + 0.3 * cs_, yc - 0.2 * cs_],
                                 [xc + 0.1 * cs_, yc + 0.25 * cs_]])
            ctx.tag("cells:polygon-within-one-row-or-column")
            run_cells_case(ctx, {"kind": "cells", "polygon": flat, "nrows": nr_,
                                 "ncols": nc_, "xll": x0_, "yll": y0_, "csz": cs_})
        if it0 % 4 == 0:
            poly2 = rng.integers(0, 9, size=(int(rng.integers(3, 9)), 2)).astype(float)
            off = np.array(FAR[(it0 // 8) % len(FAR)]) if it0 % 8 == 0 else np.zeros(2)
            run_cells_case(ctx, {"kind": "cells", "polygon": poly2 + off,
                                 "nrows": int(rng.integers(1, 12)),
                                 "ncols": int(rng.integers(1, 12)),
                                 "xll": float(rng.integers(-2, 3)) + off[0],
                                 "yll": float(rng.integers(-2, 3)) + off[1],
                                 "csz": [1.0, 0.5, 0.7][it % 3]})


def replay(ctx, case):
    if case["kind"] == "bigcells":
        return run_big_grid(ctx)
    if case["kind"] == "digitised":
        return run_digitised_case(ctx, case)
    if case.get("kind") == "level":
        return run_level_case(ctx, case)
    if case["kind"] == "manypoints":
        return run_many_points(ctx, [int(case["n"])])
    if case["kind"] == "pip":
        run_case(ctx, case)
    else:
        run_cells_case(ctx, case)
