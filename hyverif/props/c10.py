"""C10 - rank- and PIT-based diagnostics depend only on ranks and stay in range.

Monitor: Weigel-Mason pairwise mid-rank reference for ensrank; range / ordering
post-conditions and metamorphic (monotone map, permutation) relations on dscore;
post-conditions on pit; textbook formulas for the CvM / AD statistics."""
import math
import warnings

import numpy as np

from hyverif.core import digest, same_result, scalar_forms

ID = "C10"
SHARDS = {"quick": 8, "thorough": 16}
BUDGET = {"quick": 300, "thorough": 1800}
RULE = ("forecast sets with n in 2..40 forecasts, m in 1..12 members, values on the "
        "k/2 lattice in [-3, 3] (exact ties; gaps >> the 1e-6 / 1e-8 tie tolerances "
        "also after exp / arctan / x^3+x / affine maps), incl. ensembles identical "
        "across forecasts, heavy ties, single member, perfectly and inversely "
        "ordered sets; PIT with random in {False, True}, cst in [0, 0.5], censor "
        "thresholds; uniformity samples of 1..500 values in (0, 1) in any order + "
        "rejected inputs. Non-trivial: dscore strictly between 0 and 1 / sample "
        "size >= 2; distinct by digest of the inputs.")
ASSUMPTIONS = [
    "forecast values are exactly tied or at least 3.8e-6 apart (after any of the "
    "maps applied to them), above the kernel's tie tolerance of 1e-6",
    "PIT strict monotonicity is judged between forecasts of the same ensemble size "
    "whose observation is not tied with a member",
    "p-values and PIT values may leave [0, 1] by at most 1e-12 (rounding: scipy's "
    "percentileofscore returns 100.00000000000001 for an observation above all "
    "members of an 11-member ensemble)",
]
OBLIGATIONS = {"dscore:m=1": 20, "dscore:m>=2": 50, "dscore:perfect": 20,
               "dscore:inverse": 20, "dscore:heavy-ties": 20,
               "dscore:identical-ens": 10, "dscore:wide-range": 20, "dscore:fine-lattice": 10, "eps:non-default": 20, "eps:below-small-gaps": 20,
               "dscore:constant-members": 5, "dscore:definition": 50, "pit:long-series": 4,
               "ad:extreme-values": 3, "ad:near-duplicates": 10, "ad:reject:several-outside": 10, "ensrank:ref": 50, "pit:random": 30,
               "pit:plain": 30, "pit:sudo": 30, "pit:values-a-hair-above-the-threshold": 10, "cvm": 50, "ad": 50, "ad:reject": 30,
               "alpha": 20, "n=1-sample": 5, "dscore:huge-ensemble": 3}


def M():
    from hydrodiy.stat import metrics
    return metrics


def C():
    import c_hydrodiy_stat
    return c_hydrodiy_stat


MAPS = {
    "exp": np.exp,
    "arctan": np.arctan,
    "cubic": lambda x: x ** 3 + x,
    "affine": lambda x: 2.5 * x - 7.0,
    "affine2": lambda x: 0.125 * x + 100.0,
    # exact shifts and scalings to large magnitudes (values are multiples of 2^-15 at
    # most a few thousands: every sum below is exact, gaps and ties are kept as they are)
    "shift36": lambda x: x + 2.0 ** 36,
    "negshift40": lambda x: x - 2.0 ** 37,
    "scale34": lambda x: x * 2.0 ** 34,
    # ... and to units in which adding 1 to a value changes nothing
    "scale60": lambda x: x * 2.0 ** 60,
    "scale900": lambda x: x * 2.0 ** 900,
    # ... up to the last decades of the double range (values times the tolerance are still
    # doubles, values divided by it are not)
    "scale1010": lambda x: x * (2.0 ** 1010 if np.max(np.abs(x)) < 1e4 else 2.0 ** 900),
}


# ---------------------------------------------------------------- reference ----
def midrank_pooled(a, b):
    """sum of the mid-ranks of the members of a within the pooled sample a+b"""
    pooled = np.sort(np.concatenate([a, b]))
    less = np.searchsorted(pooled, a, side="left")
    eq = np.searchsorted(pooled, a, side="right") - less
    return float(math.fsum((less + (eq + 1) / 2.0).tolist()))


def ensrank_ref(sim):
    n, m = sim.shape
    fmat = np.zeros((n, n))
    ranks = np.ones(n)
    for i1 in range(n):
        for i2 in range(i1 + 1, n):
            sr = midrank_pooled(sim[i1], sim[i2])
            F = (sr - m * (m + 1) / 2.0) / (m * m)
            fmat[i1, i2] = F
            u = 0.0 if F < 0.5 - 1e-8 else (1.0 if F > 0.5 + 1e-8 else 0.5)
            ranks[i1] += u
            ranks[i2] += 1 - u
    return fmat, ranks


# ---------------------------------------------------------------- generator ----
def gen_forecasts(rng, it, tier):
    kinds = ["random", "heavy", "identical", "perfect", "inverse", "m1", "random",
             "perfect-ens", "inverse-ens", "wide", "perfect", "inverse", "fine",
             "const-members"]
    kind = kinds[it % len(kinds)]
    n = int(rng.integers(2, 41 if tier == "thorough" else 25))
    m = int(rng.integers(1, 13))
    if (it // 13) % 4 == 1:
        n = [2, 3, 4][it % 3]                 # the smallest forecast sets
    if (it // 13) % 4 == 2:
        m = [2, 3, 2, 12][it % 4]
    tags = []
    if kind == "m1":
        m = 1
    lat = np.arange(-6, 7) / 2.0    # -3..3 step 0.5
    # wide dynamic range: gaps of 1/1024 (1000 x the tie tolerance) next to values
    # of several thousands
    wide = np.sort(np.concatenate([np.arange(-3, 4) / 1024.0,
                                   1024.0 * np.arange(1, 4), -1024.0 * np.arange(1, 4)]))
    usewide = kind == "wide" or (kind in ("perfect", "inverse") and (it // len(kinds)) % 2)
    if usewide:
        tags.append("dscore:wide-range")
    if kind == "const-members":
        # every forecast is an ensemble of identical members (m >= 2), several
        # forecasts share the same value
        m = max(m, 2)
        sim = np.repeat(rng.choice(lat[3:9], size=n)[:, None], m, axis=1)
        obs = rng.permutation(np.arange(n) / 2.0 - 2.0)        # distinct observations
        tags.append("dscore:constant-members")
        kind = "random"
    elif kind == "fine":
        # distinct in binary64 and 30 x the tie tolerance apart, but equal once rounded
        # to single precision
        fine = 1024.0 + np.arange(-6, 7) / 32768.0
        sim = rng.choice(fine, size=(n, m))
        obs = rng.choice(fine, size=n)
        tags.append("dscore:fine-lattice")
        kind = "random"
    elif kind == "wide":
        sim = rng.choice(wide, size=(n, m))
        obs = rng.choice(wide, size=n)
        # every set holds both scales
        sim[0, 0] = wide[-1]
        sim[-1, -1] = wide[6]
        kind = "random"
    elif kind == "random":
        sim = rng.choice(lat, size=(n, m))
        obs = rng.choice(lat, size=n)
    elif kind == "heavy":
        sim = rng.choice(lat[5:8], size=(n, m))
        obs = rng.choice(lat[5:8], size=n)
        tags.append("dscore:heavy-ties")
    elif kind == "identical":
        row = rng.choice(lat, size=m)
        sim = np.repeat(row[None, :], n, axis=0)
        obs = rng.choice(lat, size=n)
        tags.append("dscore:identical-ens")
    elif kind in ("perfect", "inverse", "perfect-ens", "inverse-ens", "m1"):
        # distinct observations; forecasts strictly ordered like (or against) them
        n = min(n, 13)
        obs = rng.permutation(lat)[:n].copy()
        order = np.argsort(np.argsort(obs))        # 0..n-1
        if kind.endswith("-ens") and m >= 2:
            # fully separated ensembles: member values inside a private band
            base = order * 0.5 - 3.0
            sim = base[:, None] + rng.choice([0.0, 0.0625, 0.125, 0.25], size=(n, m))
        elif kind == "m1" and rng.random() < 0.5:
            sim = rng.choice(lat, size=(n, 1))
            kind = "random"
        elif usewide:
            sim = np.repeat(wide[order][:, None], m, axis=1)
        else:
            sim = np.repeat((order * 0.5 - 3.0)[:, None], m, axis=1)
        if kind.startswith("inverse"):
            sim = -sim
            tags.append("dscore:inverse")
        elif kind != "random":
            tags.append("dscore:perfect")
    tags.append("dscore:m=1" if m == 1 else "dscore:m>=2")
    case = {"kind": "dscore", "gen": kind, "obs": obs.astype(float),
            "sim": sim.astype(float), "tags": tags}
    if not usewide and "dscore:fine-lattice" not in tags and \
            not (kind.endswith("-ens") and m >= 2):
        # values on the k/2 lattice: gaps of 0.5
        case["eps"] = [1e-6, 1e-9, 1e-3, 0.05, 0.2][(it // 3) % 5]
    if usewide:
        case["maps"] = ["arctan", "cubic", "affine", "affine2", "shift36", "negshift40",
                        "scale34", "scale60", "scale900", "scale1010"]   # exp would overflow
    if "dscore:fine-lattice" in tags:
        case["maps"] = ["affine", "affine2", "shift36", "negshift40", "scale34", "scale60",
                        "scale900", "scale1010"]
        # (the others merge neighbours)
    return case


def call(fn, *a, **k):
    with warnings.catch_warnings():
        warnings.simplefilter("ignore")
        with np.errstate(all="ignore"):
            return fn(*a, **k)


def run_dscore_case(ctx, case, rng=None):
    m_ = M()
    obs = np.asarray(case["obs"], dtype=float)
    sim = np.asarray(case["sim"], dtype=float)
    if sim.ndim == 1:
        sim = sim[:, None]
    n, m = sim.shape
    rng = rng or np.random.default_rng(5)
    for t in case.get("tags", []):
        ctx.tag(t)
    ctx.evaluated()
    ctx.api("dscore")
    D = call(m_.dscore, obs, sim)
    degenerate = (len(np.unique(obs)) == 1)
    if m > 1:
        ctx.tag("ensrank:ref")
        fm = np.zeros((n, n))
        rk = np.zeros(n)
        ctx.api("ensrank")
        # tie tolerance: any value below the smallest gap between distinct values
        # gives the same pairwise comparison
        eps = float(case.get("eps", 1e-6))
        if eps != 1e-6:
            ctx.tag("eps:non-default")
        ierr = C().ensrank(eps, np.ascontiguousarray(sim), fm, rk)
        rf, rr = ensrank_ref(sim)
        ctx.check("ensrank.ierr", ierr == 0, "ensrank|ierr", case, {"ierr": ierr})
        ctx.check("ensrank.fmat", bool(np.allclose(fm, rf, rtol=0, atol=1e-12)),
                  "ensrank|fmat", case,
                  lambda: {"fmat": fm.tolist()[:6], "ref": rf.tolist()[:6]})
        ctx.check("ensrank.ranks", bool(np.allclose(rk, rr, rtol=0, atol=1e-12)),
                  "ensrank|ranks", case, lambda: {"ranks": rk.tolist(),
                                                  "ref": rr.tolist()})
        ctx.check("ensrank.ranks-sum", abs(rk.sum() - n * (n + 1) / 2) < 1e-9,
                  "ensrank|ranks-sum", case, lambda: {"sum": rk.sum()})
        frank_const = len(np.unique(rr)) == 1
    else:
        # a single-member forecast is an ensemble of one: the same pairwise comparison
        # (tied forecasts share a mid-rank)
        rf, rr = ensrank_ref(sim)
        frank_const = len(np.unique(sim[:, 0])) == 1
        if len(np.unique(sim[:, 0])) < n:
            ctx.tag("dscore:m=1-with-tied-forecasts")
    if degenerate or frank_const:
        # correlation undefined: nothing is promised
        ctx.extra["dscore.degenerate-ranks"] += 1
        return
    if len(np.unique(obs)) == n:
        # the score itself: rank correlation between the (untied) observations and the
        # Weigel-Mason ensemble ranks, mapped to [0, 1]
        orank = np.argsort(np.argsort(obs)).astype(float)
        with np.errstate(all="ignore"):
            dref = (float(np.corrcoef(orank, rr)[0, 1]) + 1) / 2
        ctx.tag("dscore:definition")
        ctx.check("dscore.definition", abs(D - dref) <= 1e-12, "dscore|definition", case,
                  lambda: {"D": D, "from_reference_ranks": dref, "ranks_ref": rr.tolist()})
    if case.get("eps", 1e-6) != 1e-6:
        De = call(m_.dscore, obs, sim, eps=float(case["eps"]))
        ctx.api("dscore")
        ctx.check("dscore.tolerance-below-gap", abs(De - D) <= 1e-12,
                  "dscore|depends-on-tie-tolerance-below-the-gaps", case,
                  lambda: {"eps": case["eps"], "D_default": D, "D_eps": De})
    if "eps" in case and m > 1:
        # the same forecasts in a small unit (all values times 2**-30 or 2**-40: ties stay
        # exact, the gaps of 0.5 become 4.7e-10 / 4.5e-13), with a tie tolerance the
        # caller chose below those gaps: the same comparison, ranks and score
        for k, epss in ((30, 1e-11), (40, 1e-14)):
            ctx.tag("eps:below-small-gaps")
            sims = np.ascontiguousarray(sim * 2.0 ** -k)
            fms = np.zeros((n, n))
            rks = np.zeros(n)
            ctx.api("ensrank")
            ierr = C().ensrank(epss, sims, fms, rks)
            ctx.check("ensrank.small-unit", ierr == 0 and
                      bool(np.allclose(fms, rf, rtol=0, atol=1e-12)) and
                      bool(np.allclose(rks, rr, rtol=0, atol=1e-12)),
                      "ensrank|differs-for-values-in-a-small-unit-with-a-smaller-tolerance",
                      case, lambda: {"unit": f"2**-{k}", "eps": epss, "ierr": ierr,
                                     "ranks": rks.tolist(), "ref": rr.tolist()})
            ctx.api("dscore")
            Ds = call(m_.dscore, obs, sims, eps=epss)
            ctx.check("dscore.small-unit", abs(Ds - D) <= 1e-12,
                      "dscore|differs-for-values-in-a-small-unit-with-a-smaller-tolerance",
                      case, lambda: {"unit": f"2**-{k}", "eps": epss, "D": D, "D_small": Ds})
    ctx.check("dscore.range", isinstance(D, float) and -1e-12 <= D <= 1 + 1e-12,
              "dscore|range", case, lambda: {"D": repr(D)})
    tags = case.get("tags", [])
    if "dscore:perfect" in tags:
        ctx.check("dscore.perfect", abs(D - 1) <= 1e-12, "dscore|perfect", case,
                  lambda: {"D": D})
    if "dscore:inverse" in tags:
        ctx.check("dscore.inverse", abs(D) <= 1e-12, "dscore|inverse", case,
                  lambda: {"D": D})
    if 0 < D < 1:
        ctx.nontrivial("ds", obs, sim)
    # monotone re-scalings of the observations / of all forecast values
    for nm, f in MAPS.items():
        if nm not in case.get("maps", MAPS):
            continue
        Do = call(m_.dscore, f(obs), sim)
        Ds = call(m_.dscore, obs, f(sim))
        ctx.api("dscore", 2)
        ctx.check("dscore.monotone-obs", abs(Do - D) <= 1e-12,
                  f"dscore|monotone-map-obs", case,
                  lambda: {"map": nm, "D": D, "mapped": Do})
        ctx.check("dscore.monotone-sim", abs(Ds - D) <= 1e-12,
                  f"dscore|monotone-map-sim", case,
                  lambda: {"map": nm, "D": D, "mapped": Ds})
    # the same numbers in another memory layout / container / exact dtype
    ctx.presentations("dscore", lambda o_, s_: call(m_.dscore, o_, s_), [obs, sim], D,
                      case, np.random.default_rng(digest(obs, sim) % 2 ** 32), n=1)
    # member permutation, independently per forecast
    if m > 1:
        sp = np.array([rng.permutation(r) for r in sim])
        Dp = call(m_.dscore, obs, sp)
        ctx.api("dscore")
        ctx.check("dscore.member-permutation", abs(Dp - D) <= 1e-12,
                  "dscore|member-permutation", case, lambda: {"D": D, "perm": Dp})


# ----------------------------------------------------------------------- PIT ----
def run_pit_case(ctx, case):
    m_ = M()
    obs = np.asarray(case["obs"], dtype=float)
    ens = np.asarray(case["ens"], dtype=float)
    n, m = ens.shape
    rnd = case["random"]
    cst = case["cst"]
    censor = case["censor"]
    ctx.evaluated()
    ctx.tag("pit:random" if rnd else "pit:plain")
    np.random.seed(case.get("npseed", 3))
    ctx.api("pit")
    kind = case.get("pitkind", "rank")
    pits, sudo = call(m_.pit, obs, ens, random=rnd, cst=cst, censor=censor, kind=kind)
    pits = np.asarray(pits, dtype=float)
    ctx.check("pit.range", pits.shape == (n,) and bool(np.all((pits >= -1e-12) & (pits <= 1 + 1e-12))),
              "pit|range", case, lambda: {"pits": pits.tolist()})
    below = (ens < obs[:, None]).sum(axis=1)
    tied = (ens == obs[:, None]).any(axis=1)
    idx = np.where(~tied)[0]
    okm = True
    wit = None
    # (vectorised: forecasts grouped by their count of members below the observation;
    # equal counts -> equal PIT, larger count -> strictly larger PIT)
    if len(idx):
        o = idx[np.argsort(below[idx], kind="stable")]
        bs, ps = below[o], pits[o]
        same = bs[1:] == bs[:-1]
        bad_eq = np.where(same & (np.abs(ps[1:] - ps[:-1]) > 1e-12))[0]
        # between consecutive groups: max of the lower group < min of the upper group
        starts = np.concatenate([[0], np.where(~same)[0] + 1])
        gmin = np.minimum.reduceat(ps, starts)
        gmax = np.maximum.reduceat(ps, starts)
        bad_lt = np.where(~(gmax[:-1] < gmin[1:]))[0]
        if len(bad_eq):
            okm, wit = False, (int(o[bad_eq[0]]), int(o[bad_eq[0] + 1]))
        elif len(bad_lt):
            okm = False
            wit = (int(o[starts[bad_lt[0]]]), int(o[starts[bad_lt[0] + 1]]))
    ctx.check("pit.strictly-increasing-in-count-below", okm, "pit|monotone", case,
              lambda: {"pair": wit, "below": below.tolist(), "pits": pits.tolist()})
    want = (obs <= censor) & ((ens <= censor).sum(axis=1) > 0)
    if want.any():
        ctx.tag("pit:sudo")
    ctx.check("pit.sudo-flag", np.array_equal(np.asarray(sudo, dtype=bool), want),
              "pit|sudo-flag", case, lambda: {"flag": np.asarray(sudo).tolist(),
                                              "want": want.tolist()})
    ctx.nontrivial("pit", obs, ens, rnd, cst, censor)
    if not rnd and not case.get("hair"):
        # (values 1e-10 above the threshold do not survive a shift by millions: skipped)
        # the same forecasts in units where the threshold is a large number (volumes in
        # ML, levels above a far datum): everything shifted by the same exact amount -
        # same PIT values, same flags
        for K in (2.0 ** 22, -2.0 ** 30, 1e7):
            ctx.tag("pit:large-threshold")
            ctx.api("pit")
            pk, sk = call(m_.pit, obs + K, ens + K, random=False, cst=cst,
                          censor=censor + K, kind=kind)
            ctx.check("pit.shifted-threshold", same_result(np.asarray(pk, dtype=float),
                                                           pits, 1e-12, 1e-12) and
                      bool(np.array_equal(np.asarray(sk, dtype=bool), want)),
                      "pit|sudo-flag|large-threshold", case,
                      lambda: {"shift": K, "flag": np.asarray(sk).tolist(),
                               "want": want.tolist()})
        k = n + m
        try:
            psf = call(m_.pit, obs, ens, random=False, cst=scalar_forms(cst, k),
                       censor=scalar_forms(censor, k + 1), kind=kind)
            ctx.check("pit.scalar-forms", same_result(psf, (pits, np.asarray(sudo))),
                      "pit|result-depends-on-scalar-type-of-options", case, None)
        except Exception as e:
            ctx.check("pit.scalar-forms", False, "pit|raises-on-numpy-scalar-option", case,
                      {"exc": repr(e)})
        ctx.reuse("pit", lambda o_, e_: call(m_.pit, o_, e_, random=False, cst=cst,
                                             censor=censor, kind=kind), [obs, ens],
                  (pits, np.asarray(sudo)), case)
        ctx.presentations("pit", lambda o_, e_: call(m_.pit, o_, e_, random=False, cst=cst,
                                                     censor=censor, kind=kind),
                          [obs, ens], (pits, np.asarray(sudo)), case,
                          np.random.default_rng(digest(obs, ens) % 2 ** 32), n=1)
        # single-precision copies of the same numbers (the lattice values are exact in
        # float32): ensemble functions convert their data to double before comparing
        # them with the threshold, so the answers are the same
        ctx.presentations("pit", lambda o_, e_: call(m_.pit, o_, e_, random=False, cst=cst,
                                                     censor=censor, kind=kind),
                          [obs, ens], (pits, np.asarray(sudo)), case,
                          np.random.default_rng(digest(obs, ens, 7) % 2 ** 32), n=1,
                          kinds=["f32"])


# --------------------------------------------------- uniformity statistics ----
def cvm_ref(u):
    s = np.sort(u)
    n = len(s)
    return 1.0 / (12 * n) + math.fsum(((2 * i + 1) / (2.0 * n) - s[i]) ** 2
                                      for i in range(n))


def ad_ref(u):
    s = np.sort(u)
    n = len(s)
    z = math.fsum((2 * i + 1) * (math.log(s[i]) + math.log1p(-s[n - 1 - i]))
                  for i in range(n))
    return -n - z / n


def run_unif_case(ctx, case):
    m_ = M()
    u = np.asarray(case["u"], dtype=float)
    n = len(u)
    ctx.evaluated()
    if n == 1:
        ctx.tag("n=1-sample")
    perm = np.asarray(case["perm"], dtype=int)
    if case.get("near"):
        ctx.tag("ad:near-duplicates")
    # Cramer - von Mises
    ctx.tag("cvm")
    ctx.api("cramer_von_mises_test")
    st, pv = call(m_.cramer_von_mises_test, u.copy())
    ref = cvm_ref(u)
    ctx.check("cvm.stat", abs(st - ref) <= 1e-10 * max(1.0, abs(ref)), "cvm|statistic",
              case, lambda: {"stat": st, "ref": ref})
    ctx.check("cvm.pvalue-range", -1e-12 <= pv <= 1 + 1e-12, "cvm|pvalue-range", case,
              lambda: {"pvalue": pv})
    st2, pv2 = call(m_.cramer_von_mises_test, u[perm].copy())
    ctx.check("cvm.order-independent", abs(st2 - st) <= 1e-12 * max(1.0, abs(st)) and
              abs(pv2 - pv) <= 1e-12, "cvm|order", case,
              lambda: {"a": [st, pv], "b": [st2, pv2]})
    # Anderson - Darling
    ctx.tag("ad")
    ctx.api("anderson_darling_test")
    try:
        ast, apv = call(m_.anderson_darling_test, u.copy())
    except Exception as e:
        ctx.check("ad.runs", False, "ad|raises-on-valid", case, {"exc": repr(e)})
        return
    aref = ad_ref(u)
    ctx.check("ad.stat", abs(ast - aref) <= 1e-10 * max(1.0, abs(aref)), "ad|statistic",
              case, lambda: {"stat": ast, "ref": aref})
    ctx.check("ad.pvalue-range", -1e-12 <= apv <= 1 + 1e-12, "ad|pvalue-range", case,
              lambda: {"pvalue": apv, "stat": ast, "n": n})
    ast2, apv2 = call(m_.anderson_darling_test, u[perm].copy())
    ctx.check("ad.order-independent", abs(ast2 - ast) <= 1e-12 * max(1.0, abs(ast)) and
              abs(apv2 - apv) <= 1e-12, "ad|order", case,
              lambda: {"a": [ast, apv], "b": [ast2, apv2]})
    if n >= 2:
        ctx.nontrivial("unif", u)
    ctx.reuse("anderson_darling_test", lambda u_: call(m_.anderson_darling_test, u_), [u],
              (ast, apv), case)
    ctx.presentations("anderson_darling_test",
                      lambda u_: call(m_.anderson_darling_test, u_), [u], (ast, apv), case,
                      np.random.default_rng(digest(u) % 2 ** 32), n=1)
    ctx.presentations("cramer_von_mises_test",
                      lambda u_: call(m_.cramer_von_mises_test, u_), [u], (st, pv), case,
                      np.random.default_rng(digest(u, 1) % 2 ** 32), n=1)


def run_reject_case(ctx, case):
    m_ = M()
    u = np.asarray(case["u"], dtype=float)
    ctx.evaluated()
    ctx.tag("ad:reject")
    ctx.api("anderson_darling_test")
    try:
        r = call(m_.anderson_darling_test, u.copy())
        ctx.check("ad.reject", False, "ad|accepts-invalid", case,
                  lambda: {"returned": [float(r[0]), float(r[1])]})
    except Exception:
        ctx.check("ad.reject", True)


def run_alpha_case(ctx, case):
    m_ = M()
    obs = np.asarray(case["obs"], dtype=float)
    ens = np.asarray(case["ens"], dtype=float)
    ctx.evaluated()
    ctx.tag("alpha")
    for typ in ("CV", "KS", "AD"):
        np.random.seed(case.get("npseed", 1))
        ctx.api("alpha")
        try:
            st, pv, sudo = call(m_.alpha, obs, ens, type=typ)
        except Exception as e:
            ctx.check("alpha.runs", False, f"alpha|{typ}|raises", case,
                      {"exc": repr(e)})
            continue
        ctx.check("alpha.pvalue-range", -1e-12 <= pv <= 1 + 1e-12,
                  f"alpha|{typ}|pvalue-range", case, lambda: {"pvalue": pv, "stat": st})
    ctx.nontrivial("alpha", obs, ens)


def run(ctx):
    rng = ctx.rng(1)
    nrep = 120 if ctx.tier == "quick" else 5000
    for it in range(nrep):
        if ctx.out_of_time():
            ctx.notes.append(f"stopped at {it}")
            break
        case = gen_forecasts(rng, it + ctx.shard, ctx.tier)
        run_dscore_case(ctx, case, rng)
        if it % 40 == 0 and case["sim"].size <= 30:
            ctx.sample(case)
        if it % 30 == 11:
            # ensembles of tens of thousands of members (re-sampled or pooled
            # forecasts): sizes around sqrt(2^31), 2^16 and 1e5
            itg = it // 30 + ctx.shard
            mh = [46341, 65537, 100001, 46340, 65535, 92683][itg % 6]
            nh = [2, 3][itg % 2]
            lat_ = np.arange(-6, 7) / 2.0
            obs_h = rng.permutation(lat_)[:nh].copy()
            order_h = np.argsort(np.argsort(obs_h))
            gk = ["perfect", "inverse", "overlap"][(itg // 2) % 3]
            tg = ["dscore:huge-ensemble", "dscore:m>=2"]
            if gk == "overlap":
                sim_h = rng.choice(lat_, size=(nh, mh))
            else:
                sim_h = (order_h * 0.5 - 3.0)[:, None] + \
                    rng.choice([0.0, 0.0625, 0.125, 0.25], size=(nh, mh))
                if gk == "inverse":
                    sim_h = -sim_h
                tg.append("dscore:" + gk)
            run_dscore_case(ctx, {"kind": "dscore", "gen": "huge-" + gk, "obs": obs_h,
                                  "sim": sim_h, "tags": tg,
                                  "maps": ["affine", "shift36"]}, rng)
        # pit
        n = int(rng.integers(2, 25))
        m = int(rng.integers(1, 13))
        lat = np.arange(-6, 7) / 2.0
        ens = rng.choice(lat, size=(n, m))
        obs = rng.choice(np.concatenate([lat, lat + 0.25]), size=n)
        censor = float(rng.choice([-10.0, -1.0, 0.0, 0.25, 1.5, -2.5, -1.5, -2.75, 2.5]))
        if it % 6 == 4 and m >= 3:
            # closely spaced members next to one member (or observation) 13 to 17 decades
            # larger: still distinct numbers, each counted on its own
            ens = 1.0 + rng.integers(0, 40, size=(n, m)) / 1024.0
            obs = 1.0 + (rng.integers(0, 40, size=n) + 0.5) / 1024.0
            big = float(rng.choice([5e13, 2.0 ** 50, 1e17, -3e15]))
            ens[np.arange(n), rng.integers(0, m, size=n)] = big
            if it % 12 == 4:
                obs[int(rng.integers(0, n))] = big * 2
            censor = 0.0
        if it % 6 in (1, 2):
            # observations, or lowest members, a hair (1.5e-10 .. 1.9e-10, beyond the 1e-10
            # allowance of the threshold test) above the censoring threshold: not flagged
            for i_ in range(0, n, 2):
                d_ = float(rng.choice([1.5e-10, 1.9e-10, 1.2e-10]))
                if i_ % 4 == 0:
                    obs[i_] = censor + d_
                    ens[i_] = np.where(np.abs(ens[i_] - censor) < 0.3, censor + 0.5, ens[i_])
                    ens[i_, 0] = censor - 0.5
                else:
                    obs[i_] = censor - 1.0
                    ens[i_] = np.where(ens[i_] <= censor + 0.3, censor + 0.5, ens[i_])
                    ens[i_, 0] = censor + d_
            ctx.tag("pit:values-a-hair-above-the-threshold")
        run_pit_case(ctx, {"kind": "pit", "obs": obs, "ens": ens, "hair": it % 6 in (1, 2),
                           "random": bool(it % 2), "cst": float(rng.uniform(0, 0.5))
                           if it % 5 else [0.0, 0.5][it % 2],
                           "censor": censor, "npseed": int(rng.integers(0, 2 ** 31)),
                           "pitkind": ["rank", "weak", "strict", "mean"][(it // 2) % 4]})
        # long series: lengths at which an implementation may start working in blocks
        if it % 30 == 7:
            from hyverif.core import size_edges
            ed = [v for v in size_edges(1000, 10001 if ctx.tier == "quick" else 66000)]
            nl = ed[((it // 30) * ctx.nshards + ctx.shard) % len(ed)]
            ctx.tag("pit:long-series")
            el = rng.choice(lat, size=(nl, 5))
            ol = rng.choice(np.concatenate([lat, lat + 0.25]), size=nl)
            for rnd_ in (False, True):
                run_pit_case(ctx, {"kind": "pit", "obs": ol, "ens": el, "random": rnd_,
                                   "cst": 0.3, "censor": -10.0,
                                   "npseed": int(rng.integers(0, 2 ** 31)),
                                   "pitkind": "rank"})
        # uniformity statistics
        nn = int(rng.integers(1, 12)) if it % 3 == 0 else int(rng.integers(1, 501))
        kind = it % 4
        if kind == 0:
            u = rng.random(nn)
        elif kind == 1:
            u = rng.beta(0.5, 0.5, size=nn)
        elif kind == 2:
            u = (rng.integers(1, 64, size=nn)) / 64.0        # ties
        else:
            u = rng.beta(5, 1, size=nn)
        u = np.clip(u, 1e-12, 1 - 1e-12)
        near = False
        if it % 5 == 1 and nn >= 2:
            # distinct values closer than any tolerance, in both orders, incl. next to
            # the ends of the interval
            near = True
            for _ in range(int(rng.integers(1, 4))):
                i, j = rng.choice(nn, size=2, replace=False)
                u[j] = u[i] + float(rng.choice([1e-9, -1e-9, 3e-11, -2e-10]))
            if nn >= 4:
                a, b, c, d = rng.choice(nn, size=4, replace=False)
                u[a], u[b] = 7e-9, 2e-9
                u[c], u[d] = 1 - 6e-9, 1 - 1e-9
            u = np.clip(u, 1e-12, 1 - 1e-12)
            if nn >= 3 and it % 10 == 1:
                # inside (0, 1) but closer to an end than machine epsilon
                ctx.tag("ad:extreme-values")
                a, b, c = rng.choice(nn, size=3, replace=False)
                u[a] = [1e-18, 1e-300, 5e-324, 3e-17, 1e-310][it // 10 % 5]
                u[b] = np.nextafter(1.0, 0.0)
                u[c] = 1 - 2.0 ** -52
        run_unif_case(ctx, {"kind": "unif", "u": u, "perm": rng.permutation(nn),
                            "near": near})
        # rejection
        bad = u.copy()
        j = int(rng.integers(0, nn))
        bad[j] = [1.0 + 1e-9, -1e-9, 1.5, -0.5, np.nan, np.inf, -np.inf,
                  # outside by the smallest possible amounts
                  -5e-324, -1e-300, -1e-310, float(np.nextafter(1.0, 2.0)), -2.3e-308,
                  -1e-301, 1e300][it % 14]
        run_reject_case(ctx, {"kind": "reject", "u": bad})
        if nn >= 2 and it % 3 == 0:
            # several values outside, on both sides in equal or unequal numbers, or all
            bad2 = u.copy()
            k = int(rng.integers(1, max(2, nn // 2 + 1)))
            pos = rng.permutation(nn)
            bad2[pos[:k]] = -rng.uniform(0.01, 3.0, size=k)
            k2 = [k, max(1, k - 1), 0][it % 9 // 3]
            k2 = min(k2, nn - k)
            if k2:
                bad2[pos[k:k + k2]] = 1 + rng.uniform(0.01, 3.0, size=k2)
            ctx.tag("ad:reject:several-outside")
            run_reject_case(ctx, {"kind": "reject", "u": bad2})
        if it % 4 == 0:
            n2 = int(rng.integers(5, 60))
            m2 = int(rng.integers(1, 20))
            ens2 = np.round(rng.normal(size=(n2, m2)) * 4) / 4
            obs2 = np.round(rng.normal(size=n2) * 4) / 4
            run_alpha_case(ctx, {"kind": "alpha", "obs": obs2, "ens": ens2,
                                 "npseed": int(rng.integers(0, 2 ** 31))})


def replay(ctx, case):
    k = case["kind"]
    {"dscore": run_dscore_case, "pit": run_pit_case, "unif": run_unif_case,
     "reject": run_reject_case, "alpha": run_alpha_case}[k](ctx, case)
