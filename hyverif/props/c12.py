"""C12 - bounded vectors keep their invariants under any history.

Monitor shapes: (a) invariant at a hook - after every operation on the live Vector
the invariants (values in bounds, NaN only if allowed, names/bounds/defaults
bit-identical to their construction-time snapshot) are asserted; (b) lock-step
reference model (deterministic, written from the property text); (c) read-only
monitor around every read-only method of a Transform."""
import copy
import itertools
import math

import numpy as np

ID = "C12"
SHARDS = {"quick": 16, "thorough": 16}
BUDGET = {"quick": 300, "thorough": 1800}
EXHAUSTIVE = True
RULE = ("Vector: all operation sequences of length 1..D (D=3 quick, 4 thorough) "
        "over an alphabet of 18-20 operations (set by attribute / by key / whole "
        "vector with values inside, on min, on max, beyond by 1e-6 and by 0.5, "
        "+-inf, NaN; reset; clone-and-continue; dict-round-trip-and-continue; "
        "failing assignments: NaN, wrong length, unknown key) x 16 configurations "
        "(0..2 names, finite / infinite / mixed bounds, check_hitbounds, "
        "accept_nan), enumerated completely; random sequences of length <=40 on "
        "0..4 names. Transforms: all interleavings of length <=L (3 quick, 4 "
        "thorough) of 6 read-only calls and 3 assignments for each of the 13 "
        "classes. Non-trivial: a sequence containing at least one accepted "
        "assignment that changes the state or is clipped; distinct by (config, "
        "sequence).")
ASSUMPTIONS = [
    "outside values are >=1e-6 beyond a bound or exactly on it (the whole-vector "
    "setter tolerates 1e-10, the named setter does not; the statement excludes the "
    "gap)",
    "with check_hitbounds off the flag is expected to stay False",
    "dictionary round trip is from_dict(to_dict()) on the python dictionary",
]
OBLIGATIONS = {"vec:exhaustive-seq": 1000, "vec:random-seq": 50,
               "vec:clone": 100, "vec:dict": 100, "vec:rejected": 100,
               "vec:clipped": 100, "vec:nan-stored": 20, "trans:seq": 500,
               "trans:params_sample": 100, "trans:assign": 100}

NAN = float("nan")
INF = float("inf")


# ---------------------------------------------------------------- the model ----
class Model:
    """Deterministic reference model of a bounded vector."""

    def __init__(self, names, defaults, mins, maxs, check_hitbounds, accept_nan):
        self.names = tuple(names)
        self.mins = tuple(float(v) for v in mins)
        self.maxs = tuple(float(v) for v in maxs)
        self.defaults = tuple(float(v) for v in defaults)
        self.values = list(self.defaults)
        self.check_hitbounds = bool(check_hitbounds)
        self.accept_nan = bool(accept_nan)
        self.hit = False

    def copy(self):
        return copy.deepcopy(self)

    def set_one(self, i, x):
        """returns True when accepted"""
        x = float(x)
        if math.isnan(x):
            if not self.accept_nan:
                return False
            self.values[i] = x
            if self.check_hitbounds:
                self.hit = False
            return True
        c = min(max(x, self.mins[i]), self.maxs[i])
        if self.check_hitbounds:
            self.hit = (c != x)
        self.values[i] = c
        return True

    def set_all(self, xs):
        if len(xs) != len(self.names):
            return False
        if any(math.isnan(x) for x in xs) and not self.accept_nan:
            return False
        hit = False
        new = []
        for x, mn, mx in zip(xs, self.mins, self.maxs):
            x = float(x)
            if math.isnan(x):
                new.append(x)
                continue
            c = min(max(x, mn), mx)
            hit |= (c != x)
            new.append(c)
        self.values = new
        self.hit = hit if self.check_hitbounds else False
        return True

    def reset(self):
        self.values = list(self.defaults)
        self.hit = False


def feq(a, b):
    """bitwise-ish equality of two float sequences (NaN == NaN, 0.0 == -0.0)"""
    a = np.asarray(a, dtype=float)
    b = np.asarray(b, dtype=float)
    return a.shape == b.shape and bool(np.all((a == b) | (np.isnan(a) & np.isnan(b))))


def observe(v):
    """Observable state of a live Vector through its public interface."""
    return {"names": [str(n) for n in v.names], "values": np.array(v.values, copy=True),
            "mins": np.array(v.mins, copy=True), "maxs": np.array(v.maxs, copy=True),
            "defaults": np.array(v.defaults, copy=True),
            "hitbounds": bool(v.hitbounds),
            "check_hitbounds": bool(v.check_hitbounds),
            "accept_nan": bool(v.accept_nan), "nval": int(v.nval)}


def state_diff(obs, m):
    d = []
    if obs["names"] != list(m.names):
        d.append("names")
    for k in ("mins", "maxs", "defaults", "values"):
        if not feq(obs[k], getattr(m, k)):
            d.append(k)
    if obs["hitbounds"] != m.hit:
        d.append("hitbounds")
    if obs["check_hitbounds"] != m.check_hitbounds:
        d.append("check_hitbounds")
    if obs["accept_nan"] != m.accept_nan:
        d.append("accept_nan")
    if obs["nval"] != len(m.names):
        d.append("nval")
    return d


def invariants(ctx, v, m, case, where):
    """M-VEC: invariant at a hook, on the live object."""
    vals = np.asarray(v.values, dtype=float)
    mins = np.asarray(v.mins, dtype=float)
    maxs = np.asarray(v.maxs, dtype=float)
    nan = np.isnan(vals)
    inb = (vals >= mins) & (vals <= maxs)
    ctx.check("inv.in-bounds", bool(np.all(inb | nan)), f"Vector|{where}|out-of-bounds",
              case, lambda: {"values": vals, "mins": mins, "maxs": maxs})
    ctx.check("inv.nan-only-if-allowed", (not nan.any()) or bool(v.accept_nan),
              f"Vector|{where}|nan-stored", case, lambda: {"values": vals})
    ctx.check("inv.frozen-meta",
              feq(mins, m.mins) and feq(maxs, m.maxs) and
              feq(v.defaults, m.defaults) and [str(n) for n in v.names] == list(m.names),
              f"Vector|{where}|meta-changed", case,
              lambda: {"mins": mins, "maxs": maxs, "defaults": v.defaults,
                       "names": list(v.names), "expected_mins": m.mins,
                       "expected_maxs": m.maxs})


# ------------------------------------------------------------ configurations ----
def configs():
    out = []
    for chk, nan in itertools.product([False, True], [False, True]):
        out.append(dict(names=["a"], defaults=[0.5], mins=[-1.0], maxs=[2.0],
                        check_hitbounds=chk, accept_nan=nan))
        out.append(dict(names=["a", "b"], defaults=[0.5, 3.0], mins=[-1.0, -INF],
                        maxs=[2.0, INF], check_hitbounds=chk, accept_nan=nan))
        out.append(dict(names=["p", "q"], defaults=[1.0, -2.0], mins=[0.0, -4.0],
                        maxs=[1.0, -1.0], check_hitbounds=chk, accept_nan=nan))
    out.append(dict(names=["a"], defaults=[0.0], mins=[-INF], maxs=[INF],
                    check_hitbounds=True, accept_nan=False))
    out.append(dict(names=["a"], defaults=[0.0], mins=[-INF], maxs=[INF],
                    check_hitbounds=False, accept_nan=True))
    # element names that look like private attributes / contain digits and capitals
    out.append(dict(names=["_k", "b"], defaults=[0.5, 0.5], mins=[0.0, 0.0],
                    maxs=[1.0, 1.0], check_hitbounds=True, accept_nan=False))
    out.append(dict(names=["X1", "__w"], defaults=[0.5, 0.0], mins=[0.0, -1.0],
                    maxs=[1.0, 1.0], check_hitbounds=True, accept_nan=True))
    # long element names (file paths, station descriptions), two of them sharing their
    # first 64 / 128 characters
    long_a = "rainfall_station_" + "x" * 60 + "_upstream_gauge_A"
    out.append(dict(names=[long_a, long_a[:-1] + "B"], defaults=[0.5, 0.5],
                    mins=[0.0, 0.0], maxs=[1.0, 2.0], check_hitbounds=True,
                    accept_nan=False))
    out.append(dict(names=["p" * 65, "q" * 300, "r" * 129 + "1", "r" * 129 + "2"],
                    defaults=[0.5, 0.0, 1.0, 1.0], mins=[0.0, -1.0, 0.0, 0.0],
                    maxs=[1.0, 1.0, 2.0, 2.0], check_hitbounds=False, accept_nan=True))
    # arguments left out at construction (the stored bounds / defaults are what the model
    # is given: -inf / +inf / zero clipped into the bounds)
    out.append(dict(names=["a"], defaults=[-1.0], mins=[-INF], maxs=[-1.0],
                    check_hitbounds=True, accept_nan=False, omit=("defaults", "mins")))
    out.append(dict(names=["a", "b"], defaults=[2.0, 0.0], mins=[2.0, -3.0], maxs=[INF, INF],
                    check_hitbounds=True, accept_nan=False, omit=("defaults", "maxs")))
    out.append(dict(names=["a", "b"], defaults=[0.0, -0.5], mins=[-1.0, -2.0],
                    maxs=[1.0, -0.5], check_hitbounds=False, accept_nan=True,
                    omit=("defaults",)))
    out.append(dict(names=["a"], defaults=[0.0], mins=[-INF], maxs=[INF],
                    check_hitbounds=True, accept_nan=False,
                    omit=("defaults", "mins", "maxs")))
    # a default sitting exactly on a bound (as the shift nu of the Log family does)
    out.append(dict(names=["a", "b"], defaults=[0.0, 1.0], mins=[0.0, -1.0], maxs=[1.0, 1.0],
                    check_hitbounds=True, accept_nan=False))
    # an element whose two bounds coincide (a parameter fixed by its bounds), next to a
    # free one
    out.append(dict(names=["fixed", "free"], defaults=[2.0, 0.5], mins=[2.0, 0.0],
                    maxs=[2.0, 1.0], check_hitbounds=True, accept_nan=False))
    out.append(dict(names=["free", "fixed"], defaults=[0.5, -1.0], mins=[0.0, -1.0],
                    maxs=[1.0, -1.0], check_hitbounds=True, accept_nan=True))
    # names made of digits, not in the order of their positions
    out.append(dict(names=["2", "0", "1"], defaults=[0.5, 1.5, 2.5], mins=[0.0, 1.0, 2.0],
                    maxs=[1.0, 2.0, 3.0], check_hitbounds=True, accept_nan=False))
    out.append(dict(names=["10", "1"], defaults=[0.5, 5.0], mins=[0.0, 4.0],
                    maxs=[1.0, 6.0], check_hitbounds=False, accept_nan=False))
    out.append(dict(names=[], defaults=[], mins=[], maxs=[], check_hitbounds=True,
                    accept_nan=False))
    out.append(dict(names=[], defaults=[], mins=[], maxs=[], check_hitbounds=False,
                    accept_nan=True))
    # names with blanks at their ends, two of them differing by such blanks only
    out.append(dict(names=[" lam", "nu "], defaults=[0.5, 3.0], mins=[-1.0, 0.0],
                    maxs=[2.0, INF], check_hitbounds=True, accept_nan=False))
    out.append(dict(names=["q ", "q", "x\t"], defaults=[0.5, 3.0, 0.0], mins=[-1.0, 0.0, -1.0],
                    maxs=[2.0, 5.0, 1.0], check_hitbounds=False, accept_nan=True))
    # the ways names (and the other arguments) are handed to the constructor: one bare
    # name with bare numbers, a list, a tuple, a pandas Index
    out.append(dict(names=["nu"], defaults=[1.0], mins=[0.0], maxs=[2.0],
                    check_hitbounds=True, accept_nan=False, names_form="bare"))
    out.append(dict(names=["a"], defaults=[0.5], mins=[-1.0], maxs=[2.0],
                    check_hitbounds=False, accept_nan=True, names_form="bare"))
    out.append(dict(names=["lam_of_model_7"], defaults=[0.0], mins=[-INF], maxs=[INF],
                    check_hitbounds=True, accept_nan=False, names_form="bare"))
    out.append(dict(names=["ab", "cd"], defaults=[0.5, 3.0], mins=[-1.0, -INF],
                    maxs=[2.0, 5.0], check_hitbounds=True, accept_nan=False,
                    names_form="list"))
    out.append(dict(names=["ab", "c"], defaults=[0.5, 3.0], mins=[-1.0, 0.0],
                    maxs=[2.0, INF], check_hitbounds=False, accept_nan=False,
                    names_form="tuple"))
    out.append(dict(names=["p", "qq", "r"], defaults=[0.5, 3.0, 0.0], mins=[-1.0, 0.0, -1.0],
                    maxs=[2.0, 5.0, 1.0], check_hitbounds=True, accept_nan=True,
                    names_form="index"))
    return out


def value_classes(mn, mx, default):
    """values inside, on, and beyond each bound (>=1e-6 away or exactly on it)"""
    lo = mn if math.isfinite(mn) else -1e3
    hi = mx if math.isfinite(mx) else 1e3
    mid = (lo + hi) / 2 + 0.123
    d = {"inside": mid, "inside2": lo + (hi - lo) * 0.25,
         "onmin": lo, "onmax": hi,
         "below6": lo - 1e-6 if math.isfinite(mn) else -1e300,
         "above6": hi + 1e-6 if math.isfinite(mx) else 1e300,
         "below": lo - 0.5, "above": hi + 0.5, "+inf": INF, "-inf": -INF,
         "nan": NAN}
    return d


def alphabet(cfg):
    """operation alphabet of a configuration: list of (opname, args)"""
    n = len(cfg["names"])
    ops = [("reset",), ("clone",), ("dict",), ("badkey",), ("all_wronglen",),
           ("all_self",)]
    if n == 0:
        ops += [("all", [])]
        return ops
    i0, i1 = 0, n - 1
    vc0 = value_classes(cfg["mins"][i0], cfg["maxs"][i0], cfg["defaults"][i0])
    vc1 = value_classes(cfg["mins"][i1], cfg["maxs"][i1], cfg["defaults"][i1])
    for k in ("inside", "onmin", "above6", "-inf", "nan"):
        ops.append(("attr", i0, vc0[k], k))
    for k in ("inside2", "onmax", "below", "+inf", "below6"):
        ops.append(("key", i1, vc1[k], k))
    ins = [value_classes(a, b, c)["inside"] for a, b, c in
           zip(cfg["mins"], cfg["maxs"], cfg["defaults"])]
    out_hi = list(ins)
    out_hi[i0] = vc0["above"]
    out_lo = list(ins)
    out_lo[i1] = vc1["below6"]
    wnan = list(ins)
    wnan[i0] = NAN
    ops += [("all", ins), ("all", out_hi), ("all", out_lo), ("all", wnan)]
    ops.append(("all_edit", i1, vc1["above"]))
    if n >= 2:
        # a missing component together with an out-of-bounds one in the same assignment
        wnan_out = list(ins)
        wnan_out[i0] = NAN
        wnan_out[i1] = vc1["above"]
        ops.append(("all", wnan_out))
    return ops


# ------------------------------------------------------------- sequence run ----
def make(cfg):
    from hydrodiy.data.containers import Vector
    # the names arrive as an array of strings which the caller re-uses afterwards
    narr = np.array(cfg["names"]) if len(cfg["names"]) else cfg["names"]
    omit = cfg.get("omit", ())
    form = cfg.get("names_form")
    if form:
        import pandas as pd
        nm_ = {"bare": lambda: str(cfg["names"][0]), "list": lambda: list(cfg["names"]),
               "tuple": lambda: tuple(cfg["names"]),
               "index": lambda: pd.Index(cfg["names"])}[form]()
        if form == "bare":
            v = Vector(nm_, cfg["defaults"][0], cfg["mins"][0], cfg["maxs"][0],
                       check_hitbounds=cfg["check_hitbounds"], accept_nan=cfg["accept_nan"])
        else:
            v = Vector(nm_, tuple(cfg["defaults"]), list(cfg["mins"]), np.array(cfg["maxs"]),
                       check_hitbounds=cfg["check_hitbounds"], accept_nan=cfg["accept_nan"])
        m = Model(cfg["names"], cfg["defaults"], cfg["mins"], cfg["maxs"],
                  cfg["check_hitbounds"], cfg["accept_nan"])
        return v, m
    if omit:
        # arguments left out by the caller: no bound on that side, and defaults equal to
        # zero moved inside the bounds
        kw = {k: cfg[k] for k in ("defaults", "mins", "maxs") if k not in omit}
        v = Vector(narr, check_hitbounds=cfg["check_hitbounds"],
                   accept_nan=cfg["accept_nan"], **kw)
    else:
        v = Vector(narr, cfg["defaults"], cfg["mins"], cfg["maxs"],
                   check_hitbounds=cfg["check_hitbounds"], accept_nan=cfg["accept_nan"])
    if len(cfg["names"]):
        narr[:] = "zz"
    m = Model(cfg["names"], cfg["defaults"], cfg["mins"], cfg["maxs"],
              cfg["check_hitbounds"], cfg["accept_nan"])
    return v, m


def compare(ctx, v, m, case, where, prefix="Vector"):
    obs = observe(v)
    d = state_diff(obs, m)
    ctx.check("model.state-equal", not d, f"{prefix}|{where}|state:" + "+".join(d),
              case, lambda: {"differs": d, "observed": obs,
                             "model": {"values": m.values, "hit": m.hit,
                                       "check_hitbounds": m.check_hitbounds,
                                       "accept_nan": m.accept_nan}})
    return not d


def independent(ctx, v, v2, m, case, where):
    """v2 must be an independent copy of v: mutate each, observe the other."""
    if len(m.names) == 0:
        return
    before = observe(v)
    i = 0
    newv = m.mins[i] if math.isfinite(m.mins[i]) else -7.25
    if feq([newv], [m.values[i]]):
        newv = m.maxs[i] if math.isfinite(m.maxs[i]) else 7.25
    # mutate the copy through its public interface and in place on every array
    v2[m.names[i]] = newv
    for arr in (v2.mins, v2.maxs, v2.defaults, v2.values):
        pass
    after = observe(v)
    same = all(feq(before[k], after[k]) for k in ("values", "mins", "maxs", "defaults"))
    same &= before["hitbounds"] == after["hitbounds"]
    ctx.check("copy.independent", same, f"Vector|{where}|aliases-original", case,
              lambda: {"before": before, "after": after})
    shares = any(np.shares_memory(getattr(v, k), getattr(v2, k))
                 for k in ("values", "mins", "maxs", "defaults"))
    ctx.check("copy.no-shared-storage", not shares,
              f"Vector|{where}|shares-memory", case, None)


def apply_op(ctx, v, m, op, case):
    """Apply one operation to the live vector and to the model. Returns (v, m,
    nontrivial)."""
    from hydrodiy.data.containers import Vector
    kind = op[0]
    nontriv = False
    ctx.api("Vector." + kind)
    if kind in ("attr", "key"):
        i, x = op[1], op[2]
        name = m.names[i]
        m2 = m.copy()
        acc = m2.set_one(i, x)
        try:
            if kind == "attr":
                setattr(v, name, x)
            else:
                v[name] = x
            raised = False
        except ValueError:
            raised = True
        if acc:
            ctx.check("assign.accepted", not raised, f"Vector|{kind}|rejects-valid",
                      case, {"op": op})
            nontriv = not feq(m2.values, m.values) or m2.hit
            if m2.hit:
                ctx.tag("vec:clipped")
            if math.isnan(float(x)):
                ctx.tag("vec:nan-stored")
            m = m2
        else:
            ctx.tag("vec:rejected")
            ctx.check("assign.rejected", raised, f"Vector|{kind}|accepts-invalid",
                      case, {"op": op})
        where = kind
    elif kind in ("all", "all_wronglen", "all_self", "all_edit"):
        if kind == "all_edit" and (math.isnan(float(op[2])) or not len(m.names)):
            # (a NaN written straight into the array the getter hands out would be the
            # caller's own doing if the vector then refuses the assignment)
            kind = "all_self"
        if kind == "all_self":
            # the array the getter hands out, assigned back unchanged
            xs = v.values
        elif kind == "all_edit":
            # ... or after the caller edited one entry of it
            xs = v.values
            if len(m.names):
                xs[op[1] % len(m.names)] = op[2]
        else:
            xs = op[1] if kind == "all" else list(m.values) + [0.25]
        if kind == "all" and len(xs):
            # the same numbers in the containers callers hold them in: object arrays,
            # exact rationals / decimals, None for a missing value, text
            from fractions import Fraction as _Fr
            from decimal import Decimal as _De
            form = (ctx.evaluations + len(xs)) % 8
            fx = [float(x) for x in xs]
            try:
                if form == 1:
                    xs = np.array(fx, dtype=object)
                elif form == 2:
                    xs = [_Fr(x) if math.isfinite(x) else x for x in fx]
                elif form == 3:
                    xs = [_De(repr(x)) if math.isfinite(x) else _De("NaN")
                          if math.isnan(x) else x for x in fx]
                elif form == 4:
                    xs = [None if math.isnan(x) else x for x in fx]
                elif form == 5:
                    xs = np.array([repr(x) for x in fx])
                elif form == 6:
                    import pandas as _pd
                    xs = _pd.Series(fx, dtype=object)
                elif form in (7, 0):
                    # a float64 array the caller goes on using after the assignment
                    xs = np.array(fx, dtype=np.float64)
                if form in (1, 2, 3, 4, 5, 6):
                    ctx.tag("vec:values-in-non-float-container")
                    np.asarray(xs).astype(np.float64)     # must be convertible at all
            except Exception:
                xs = fx
            expect_all = fx
        else:
            expect_all = None
        if kind == "all_edit" and len(m.names):
            expect = list(m.values)
            expect[op[1] % len(m.names)] = op[2]
        elif kind == "all_self":
            expect = list(m.values)
        else:
            expect = expect_all if expect_all is not None else xs
        m2 = m.copy()
        acc = m2.set_all([float(x) for x in expect])
        try:
            v.values = xs
            raised = False
        except ValueError:
            raised = True
        if kind == "all" and isinstance(xs, np.ndarray) and xs.dtype == np.float64 \
                and xs.size:
            ctx.tag("vec:caller-edits-array-after-assignment")
            xs += 0.37
            xs[...] = xs[::-1].copy()
        if acc:
            ctx.check("assign.accepted", not raised, "Vector|values|rejects-valid",
                      case, {"op": op})
            nontriv = not feq(m2.values, m.values) or m2.hit
            if m2.hit:
                ctx.tag("vec:clipped")
            if any(math.isnan(float(x)) for x in expect):
                ctx.tag("vec:nan-stored")
            m = m2
        else:
            ctx.tag("vec:rejected")
            ctx.check("assign.rejected", raised, "Vector|values|accepts-invalid",
                      case, {"op": op})
        where = "values"
    elif kind == "badkey":
        ctx.tag("vec:rejected")
        raised = True
        for bk in ("no_such_name", "values", "_values", "_maxs", "_mins", "_defaults",
                   "hitbounds", "_hitbounds", "names", "nval", "maxs", "defaults",
                   "0", "1", "2", "-1", "00"):
            if bk in getattr(m, "names", ()):
                continue
            try:
                v[bk] = 0.5 if not bk.endswith("values") else [0.5] * len(m.names)
                raised = False
                badkey = bk
                break
            except (ValueError, TypeError, AttributeError, KeyError):
                pass
            try:
                _ = v[bk]
                raised = False
                badkey = bk + " (read)"
                break
            except (ValueError, TypeError, AttributeError, KeyError):
                pass
        ctx.check("assign.rejected", raised, "Vector|key|accepts-unknown-key", case,
                  lambda: {"key": badkey})
        where = "badkey"
    elif kind == "reset":
        v.reset()
        m.reset()
        where = "reset"
    elif kind == "clone":
        ctx.tag("vec:clone")
        try:
            v2 = v.clone()
        except Exception as e:
            ctx.check("clone.succeeds", False, "Vector|clone|raises", case,
                      {"exception": repr(e), "values": m.values})
            return v, m, nontriv
        ctx.check("clone.succeeds", True)
        compare(ctx, v2, m, case, "clone")
        m2 = m.copy()
        independent(ctx, v, v2, m2, case, "clone")
        # original must still agree with the model, then continue with a new clone
        compare(ctx, v, m, case, "after-clone-mutation")
        try:
            v = v.clone()
        except Exception:
            pass
        where = "clone"
    elif kind == "dict":
        ctx.tag("vec:dict")
        try:
            dct = v.to_dict()
            v2 = Vector.from_dict(copy.deepcopy(dct))
        except Exception as e:
            ctx.check("dict.succeeds", False, "Vector|from_dict|raises", case,
                      {"exception": repr(e), "values": m.values})
            return v, m, nontriv
        ctx.check("dict.succeeds", True)
        compare(ctx, v2, m, case, "from_dict")
        ok = (dct["nval"] == len(m.names) and
              [str(e["name"]) for e in dct["data"]] == list(m.names) and
              feq([e["value"] for e in dct["data"]], m.values) and
              feq([e["min"] for e in dct["data"]], m.mins) and
              feq([e["max"] for e in dct["data"]], m.maxs) and
              feq([e["default"] for e in dct["data"]], m.defaults) and
              bool(dct["hitbounds"]) == m.hit)
        ctx.check("dict.content", ok, "Vector|to_dict|content", case,
                  lambda: {"dict": dct})
        independent(ctx, v, v2, m.copy(), case, "from_dict")
        compare(ctx, v, m, case, "after-dict-mutation")
        try:
            v = Vector.from_dict(copy.deepcopy(v.to_dict()))
        except Exception:
            pass
        where = "dict"
    else:
        raise ValueError(kind)
    if not compare(ctx, v, m, case, where):
        raise Diverged()
    invariants(ctx, v, m, case, where)
    return v, m, nontriv


class Diverged(Exception):
    """live object and model disagree: the first divergence is the witness, the
    rest of the sequence would only repeat it under other keys"""


def run_sequence(ctx, cfg, seq, case):
    v, m = make(cfg)
    compare(ctx, v, m, case, "init")
    nontriv = False
    try:
        for op in seq:
            v, m, nt = apply_op(ctx, v, m, op, case)
            nontriv |= nt
    except Diverged:
        ctx.extra["vec.sequence-stopped-at-divergence"] += 1
    return nontriv


def run_vectors(ctx):
    depth = 3 if ctx.tier == "quick" else 4
    cfgs = configs()
    idx = 0
    for ci, cfg in enumerate(cfgs):
        ops = alphabet(cfg)
        for d in range(1, depth + 1):
            for seqi in itertools.product(range(len(ops)), repeat=d):
                idx += 1
                if idx % ctx.nshards != ctx.shard:
                    continue
                seq = [ops[j] for j in seqi]
                case = {"kind": "vecseq", "config": cfg, "seq": seq}
                ctx.tag("vec:exhaustive-seq")
                ctx.evaluated()
                nt = run_sequence(ctx, cfg, seq, case)
                if nt:
                    ctx.nontrivial("vs", ci, seqi)
                if idx % 20011 == 0:
                    ctx.sample(case)
    # random sequences
    rng = ctx.rng(7)
    nrand = 60 if ctx.tier == "quick" else 600
    for r in range(nrand):
        n = int(rng.integers(0, 5))
        mins, maxs, defs = [], [], []
        for _ in range(n):
            t = rng.integers(0, 4)
            lo = float(np.round(rng.normal() * 10, 2))
            hi = lo + float(np.round(rng.uniform(0.5, 20), 2))
            if t == 1:
                lo = -INF
            elif t == 2:
                hi = INF
            elif t == 3:
                lo, hi = -INF, INF
            mins.append(lo)
            maxs.append(hi)
            a = lo if math.isfinite(lo) else (hi - 5 if math.isfinite(hi) else 0.0)
            b = hi if math.isfinite(hi) else a + 5
            defs.append(float(a + (b - a) * rng.random()))
        cfg = dict(names=["n%d" % i for i in range(n)], defaults=defs, mins=mins,
                   maxs=maxs, check_hitbounds=bool(rng.integers(0, 2)),
                   accept_nan=bool(rng.integers(0, 2)))
        L = int(rng.integers(1, 41))
        seq = []
        for _ in range(L):
            k = rng.integers(0, 10)
            if n == 0:
                seq.append([("reset",), ("clone",), ("dict",), ("badkey",),
                            ("all_wronglen",), ("all", [])][int(rng.integers(0, 6))])
                continue
            i = int(rng.integers(0, n))
            vc = value_classes(mins[i], maxs[i], defs[i])
            val = list(vc.values())[int(rng.integers(0, len(vc)))]
            if rng.random() < 0.3:
                lo = mins[i] if math.isfinite(mins[i]) else -50
                hi = maxs[i] if math.isfinite(maxs[i]) else 50
                val = float(lo + (hi - lo) * rng.random())
            if k < 3:
                seq.append(("attr", i, val, "r"))
            elif k < 6:
                seq.append(("key", i, val, "r"))
            elif k == 6:
                xs = []
                for j in range(n):
                    vcj = value_classes(mins[j], maxs[j], defs[j])
                    xs.append(list(vcj.values())[int(rng.integers(0, len(vcj)))]
                              if rng.random() < 0.4 else vcj["inside"])
                seq.append(("all", xs))
            else:
                seq.append([("reset",), ("clone",), ("dict",), ("badkey",),
                            ("all_wronglen",), ("all_self",),
                            ("all_edit", i, val)][int(rng.integers(0, 7))])
        case = {"kind": "vecseq", "config": cfg, "seq": seq}
        ctx.tag("vec:random-seq")
        ctx.evaluated()
        if run_sequence(ctx, cfg, seq, case):
            ctx.nontrivial("vr", repr(cfg), repr(seq))


# ----------------------------------------------------------------- transforms ----
TRANSFORMS = ["Identity", "Logit", "Log", "BoxCox2", "BoxCox1lam", "BoxCox1nu",
              "BoxCox2sym", "YeoJohnson", "Reciprocal", "Softmax", "Sinh",
              "LogSinh", "Manly"]
SETUP = {"BoxCox1lam": {"nu": 0.3}, "BoxCox1nu": {"lam": 0.4},
         "LogSinh": {"xmax": 2.0}, "Manly": {"xmax": 3.0}}
ASSIGN = {"Logit": [("lower", -0.5), ("logdelta", 1.0), ("logdelta", 50.0),
                    ("lower", float("-inf"))],
          # (a parameter without an upper bound may be set to infinity)
          "Log": [("nu", 0.2), ("nu", -1.0), ("nu", 3.0), ("nu", float("inf"))],
          "BoxCox2": [("nu", 0.1), ("lam", 0.0), ("lam", 7.0), ("lam", 3e-11)],
          "BoxCox1lam": [("lam", 0.5), ("lam", -9.0), ("nu", 0.7)],
          "BoxCox1nu": [("nu", 0.25), ("nu", -3.0), ("lam", 0.0)],
          "BoxCox2sym": [("nu", 0.5), ("lam", 0.2), ("lam", 5.0)],
          "YeoJohnson": [("nu", -0.3), ("scale", 2.0), ("lam", 2.0), ("lam", 2.000001),
                         ("lam", 1e-9)],
          "Reciprocal": [("nu", 0.5), ("nu", -1.0), ("nu", 2.0), ("nu", float("inf"))],
          "Sinh": [("nu", 0.1), ("scale", 0.5), ("scale", -1.0), ("nu", float("inf")),
                   ("nu", float("-inf"))],
          "LogSinh": [("loga", -2.0), ("logb", 0.3), ("loga", 1.0)],
          "Manly": [("lam", 0.5), ("lam", -9.0), ("xmax", 4.0)]}
READONLY = ["forward", "backward", "jacobian", "params_sample", "params_logprior",
            "str"]


def tsnap(t):
    return {"p": observe(t.params), "c": observe(t.constants)}


def tsame(a, b):
    for part in ("p", "c"):
        for k in ("values", "mins", "maxs", "defaults"):
            if not feq(a[part][k], b[part][k]):
                return f"{part}.{k}"
        for k in ("names", "hitbounds", "check_hitbounds", "accept_nan"):
            if a[part][k] != b[part][k]:
                return f"{part}.{k}"
    return None


def make_transform(name):
    from hydrodiy.stat import transform
    t = transform.get_transform(name, **SETUP.get(name, {}))
    return t


def trans_inputs(name):
    if name == "Softmax":
        return np.array([[0.1, 0.2, 0.3], [0.25, 0.25, 0.25]]), \
            np.array([[-1.0, 0.5, 0.2], [0.0, 0.0, 0.0]])
    if name == "Logit":
        return np.array([0.1, 0.5, 0.9]), np.array([-2.0, 0.0, 3.0])
    return np.array([0.05, 0.5, 1.5]), np.array([-0.9, -0.3, 0.4])


def run_trans_sequence(ctx, name, seq, case):
    t = make_transform(name)
    x, y = trans_inputs(name)
    nontriv = False
    # models of the two vectors, stepped in lock-step for the assignments
    mp = Model(t.params.names, t.params.defaults, t.params.mins, t.params.maxs,
               t.params.check_hitbounds, t.params.accept_nan)
    mp.values = [float(v) for v in t.params.values]
    mc = Model(t.constants.names, t.constants.defaults, t.constants.mins,
               t.constants.maxs, t.constants.check_hitbounds,
               t.constants.accept_nan)
    mc.values = [float(v) for v in t.constants.values]
    for op in seq:
        before = tsnap(t)
        ctx.api(f"Transform.{op[0]}")
        if op[0] == "reset":
            ctx.tag("trans:assign")
            t.reset()
            mp.reset()
            nontriv = True
            compare(ctx, t.params, mp, case, "reset", prefix=f"Transform.{name}.params")
            compare(ctx, t.constants, mc, case, "reset",
                    prefix=f"Transform.{name}.constants")
            continue
        if op[0] == "setall":
            ctx.tag("trans:assign")
            vals = [float(v) for v in op[1]]
            try:
                t.params.values = vals
                raised = False
            except ValueError:
                raised = True
            acc = mp.copy().set_all(vals)
            ctx.check("assign.accepted" if acc else "assign.rejected", raised != acc,
                      f"Transform.{name}|params.values|accept-mismatch", case,
                      {"values": vals, "raised": raised})
            if acc and not raised:
                mp.set_all(vals)
            nontriv = True
            compare(ctx, t.params, mp, case, "setall", prefix=f"Transform.{name}.params")
            continue
        if op[0] == "assign":
            nm, val = op[1], op[2]
            ctx.tag("trans:assign")
            how = op[3]
            if how == "attr":
                setattr(t, nm, val)
            else:
                t[nm] = val
            mdl = mp if nm in mp.names else mc
            mdl.set_one(mdl.names.index(nm), val)
            nontriv = True
            compare(ctx, t.params, mp, case, "assign", prefix=f"Transform.{name}.params")
            compare(ctx, t.constants, mc, case, "assign",
                    prefix=f"Transform.{name}.constants")
            continue
        try:
            np.random.seed(11)
            if op[0] == "forward":
                xx = x.copy()
                t.forward(xx)
            elif op[0] == "backward":
                t.backward(y.copy())
            elif op[0] == "jacobian":
                t.jacobian(x.copy())
            elif op[0] == "params_sample":
                ctx.tag("trans:params_sample")
                t.params_sample(7)
            elif op[0] == "params_logprior":
                t.params_logprior()
            elif op[0] == "str":
                str(t)
        except Exception as e:  # state must be unchanged even when a call raises
            ctx.extra["trans.readonly-raised"] += 1
        after = tsnap(t)
        d = tsame(before, after)
        ctx.check("trans.readonly-unchanged", d is None,
                  f"Transform|{op[0]}|changes:{d}", case,
                  lambda: {"class": name, "changed": d, "before": before,
                           "after": after})
    return nontriv


def run_transforms(ctx):
    L = 3 if ctx.tier == "quick" else 4
    idx = 0
    for ti, name in enumerate(TRANSFORMS):
        ops = [(r,) for r in READONLY]
        for j, (nm, val) in enumerate(ASSIGN.get(name, [])):
            ops.append(("assign", nm, val, "attr" if j % 2 == 0 else "key"))
        t0 = make_transform(name)
        if t0.params.nval > 0:
            ops.append(("reset",))
            mids = [float(np.clip(0.37, lo, hi)) if np.isfinite(lo) or np.isfinite(hi)
                    else 0.37 for lo, hi in zip(t0.params.mins, t0.params.maxs)]
            ops.append(("setall", mids))
        for d in range(1, L + 1):
            for seqi in itertools.product(range(len(ops)), repeat=d):
                idx += 1
                if idx % ctx.nshards != ctx.shard:
                    continue
                seq = [ops[j] for j in seqi]
                case = {"kind": "transseq", "class": name, "seq": seq}
                ctx.tag("trans:seq")
                ctx.evaluated()
                nt = run_trans_sequence(ctx, name, seq, case)
                if nt:
                    ctx.nontrivial("ts", name, seqi)
                if idx % 30011 == 0:
                    ctx.sample(case)


def run(ctx):
    run_vectors(ctx)
    run_transforms(ctx)


def _fix(seq):
    return [tuple(o) for o in seq]


def replay(ctx, case):
    ctx.evaluated()
    if case["kind"] == "vecseq":
        cfg = case["config"]
        run_sequence(ctx, cfg, _fix(case["seq"]), case)
    elif case["kind"] == "transseq":
        run_trans_sequence(ctx, case["class"], _fix(case["seq"]), case)
