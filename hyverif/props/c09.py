"""C09 - CSV files with comment headers round-trip through write_csv / read_csv.

Monitor: wrappers at the API boundary record what write_csv was given and which
files / archive members it produced; the round-trip predicate compares what read_csv
returns (under the same name the writer was given) with what was written. Files
live under the per-run work directory and are removed."""
import os
import shutil
import string
import tempfile
import warnings
import zipfile
from pathlib import Path

import numpy as np

ID = "C09"
SHARDS = {"quick": 8, "thorough": 16}
BUDGET = {"quick": 300, "thorough": 1800}
RULE = ("frames of 1..50 rows x 1..8 columns; unique column names from "
        "[A-Za-z0-9 _-] incl. blanks at either end; float (12 decades, "
        "negative), integer (full int64) and text columns (commas, double quotes, "
        "colons, hashes, inner spaces); comment dictionaries with keys "
        "[a-z0-9_]{1,25} and single-line, trimmed values containing colons / hashes "
        "/ commas; storage modes {plain, compress under x.csv, x.zip, x, dotted "
        "stems, archive member under a/b/}; float formats %0.5f %0.2f %0.10e None; "
        "with and without system information. Non-trivial: >= 2 columns or a text "
        "column; distinct by digest of (frame, comments, mode, format).")
ASSUMPTIONS = [
    "text cells are non-blank, trimmed, single-line, and are not strings that "
    "pandas itself reads as NA, booleans or numbers",
    "comment keys do not collide with the keys the writer adds itself (nrow, ncol, "
    "author, time_generated, source_file, ...)",
    "numeric cells may differ by half a unit of the last printed digit + 2 ulp; "
    "with float_format=None (pandas' default formatting, 12+ significant digits) "
    "by 1e-11 relative",
]
OBLIGATIONS = {"mode:plain": 20, "mode:zip-x.csv": 20, "mode:zip-x.zip": 20,
               "mode:zip-noext": 20, "mode:zip-dotted": 10, "mode:archive": 20,
               "col:float": 50, "col:int": 50, "col:text": 50, "fmt:%0.5f": 20,
               "fmt:%0.2f": 10, "fmt:%0.10e": 10, "fmt:None": 10, "comments": 100,
               "comment:colon": 20, "comment:hash": 10, "comment:dashes": 3,
               "sysinfo:on": 20, "sysinfo:off": 20, "archive:multi-member": 20, "stale-sibling": 5, "overwrite": 20,
               "same-comment-dict": 20, "archive:path-spelling": 10}
RESERVED = {"nrow", "ncol", "time_generated", "author", "source_file", "work_dir",
            "python_version", "pandas_version", "numpy_version", "python_inc",
            "python_lib", "comment", "python_environment"}
NA_LIKE = {"", "#N/A", "#N/A N/A", "#NA", "-1.#IND", "-1.#QNAN", "-NaN", "-nan",
           "1.#IND", "1.#QNAN", "<NA>", "N/A", "NA", "NULL", "NaN", "None", "n/a",
           "nan", "null"}


def workdir():
    base = os.environ.get("HYVERIF_WORK") or tempfile.gettempdir()
    d = Path(base) / f"c09-{os.getpid()}"
    d.mkdir(parents=True, exist_ok=True)
    return d


def rand_name(rng, used):
    alpha = string.ascii_letters + string.digits + " _-"
    inner = string.ascii_letters + string.digits
    while True:
        n = int(rng.integers(1, 12))
        s = "".join(alpha[int(i)] for i in rng.integers(0, len(alpha), size=n))
        if rng.random() < 0.1:
            # labels made of digits only (years, station numbers with leading zeros)
            s = ["2019", "2020", "007", "0", "410730", "12"][int(rng.integers(0, 6))]
        s = s.strip()
        if not s or s in used:
            continue
        # names made of digits / dashes only are legal but would make pandas
        # treat nothing differently - keep them
        if rng.random() < 0.12:
            # a blank is a legal character of a name at its ends too (fixed-width
            # labels, names cut out of a table header)
            s = [" " + s, s + " ", " " + s + " ", "  " + s][int(rng.integers(0, 4))]
            if s in used:
                continue
        used.add(s)
        return s


def rand_text(rng):
    pool = string.ascii_letters + string.digits + "  ,,\"::##_-;()/"
    while True:
        n = int(rng.integers(1, 15))
        s = "".join(pool[int(i)] for i in rng.integers(0, len(pool), size=n)).strip()
        if not s or s in NA_LIKE or s.lower() in ("true", "false"):
            continue
        if not any(c.isalpha() for c in s):
            continue
        try:
            float(s)
            continue
        except ValueError:
            pass
        return s


def rand_comment_value(rng, kind):
    base = ["value", "a : b", "x:y:z", "# hash", "with, comma", "42", "3.14",
            "path/to/file.csv", "key : value : again", "a#b", "trailing:",
            "time 12:30:00", "[1, 2, 3]",
            # text that means something to a formatter or a shell
            "id={0}:{1}", '{{"a": 1}}', "mm/d: {daily}", "set {a, b}", "open { brace",
            "100% of %s and %d", "$HOME ${x}", "back\\slash \\n", "{}", "a}b{c"]
    if kind == "dashes":
        return "before ---------- after"
    s = base[int(rng.integers(0, len(base)))]
    if rng.random() < 0.4:
        s = s + " " + rand_text(rng)
    return s.strip()


def rand_stem(rng, it):
    """file stems: a few fixed ones and random ones over the whole alphabet (every
    letter and digit occurs as first and as last character)"""
    if it % 3 == 0:
        return ["data", "my data", "a.b", "x_1-2", "v1.2.3"][int(rng.integers(0, 5))]
    ends = string.ascii_lowercase + string.digits + string.ascii_uppercase
    if it % 3 == 1:
        # endings cycle deterministically through the alphabet
        last = ends[(it // 3) % len(ends)]
    else:
        last = ends[int(rng.integers(0, len(ends)))]
    mid = string.ascii_letters + string.digits + " _-."
    n = int(rng.integers(0, 9))
    body = "".join(mid[int(i)] for i in rng.integers(0, len(mid), size=n))
    first = ends[int(rng.integers(0, len(ends)))]
    stem = (first + body + last) if n else last + last
    while ".." in stem or "  " in stem:
        stem = stem.replace("..", ".").replace("  ", " ")
    return stem


def gen_case(rng, it):
    nrow = int(rng.integers(1, 51))
    ncol = int(rng.integers(1, 9))
    if it % 40 == 11:
        # row counts with four and more digits
        nrow = [1000, 1001, 999, 4096, 10000, 12345, 65536, 100000][(it // 40) % 8]
        ncol = int(rng.integers(1, 3))
    elif it % 40 == 31:
        # (8000 columns: a line of column names longer than 64 kB)
        ncol = [1000, 1024, 1200, 8000][int(rng.integers(0, 4))]
        nrow = 2
    if it % 20 == 9 and it % 3:
        ncol = 1              # (a single column, named with dashes only: see below)
    used = set()
    cols = []
    for j in range(ncol):
        name = rand_name(rng, used) if ncol < 500 else f"c{j}" if ncol < 5000 else \
            f"site_{j:05d}"
        if it % 20 == 9 and j == 0:
            # a name made of dashes (or underscores, or digits) only, short and long
            name = ["-", "--", "-" * 9, "-" * 10, "-" * 12, "-" * 50, "_" * 12, "2020",
                    "- -", "-" * 11][int(rng.integers(0, 10))]
            used.add(name)
        kind = ["float", "int", "text"][int(rng.integers(0, 3))]
        if nrow >= 999 or ncol >= 500:
            kind = ["float", "int"][j % 2]
        if kind == "float":
            dec = int(rng.integers(-6, 7))
            v = (rng.normal(size=nrow) * 10.0 ** dec).tolist()
        elif kind == "int":
            if rng.random() < 0.3:
                v = rng.integers(-2 ** 63, 2 ** 63 - 1, size=nrow, dtype=np.int64,
                                 endpoint=True).tolist()
            else:
                v = rng.integers(-1000, 1000, size=nrow).tolist()
        else:
            v = [rand_text(rng) for _ in range(nrow)]
        cols.append({"name": name, "kind": kind, "values": v})
    ncom = int(rng.integers(0, 5))
    comments = {}
    keyalpha = string.ascii_lowercase + string.digits + "_"
    for k in range(ncom):
        while True:
            key = "".join(keyalpha[int(i)] for i in
                          rng.integers(0, len(keyalpha), size=int(rng.integers(1, 26))))
            key = key.strip("_") or "k"
            if it % 7 == 3 and k == 0:
                # lower-case keys with punctuation (units, versions, ratios)
                key = ["model.version", "area(km2)", "q95%", "rain/pet", "a-b", "x.y.z",
                       "p[mm]", "t+1"][(it // 7) % 8]
            if it % 7 == 5 and k == 0:
                # keys that begin or end like the entries the writer adds itself
                key = ["author_orcid", "ncolours", "nrows_raw", "source_file_version",
                       "time_generated_utc", "authors", "ncol2", "my_author", "nrow_",
                       "sub_source_file"][(it // 7) % 10]
            if key not in RESERVED and key not in comments and \
                    not key.startswith("comment"):
                break
        kind = "dashes" if (it % 23 == 0 and k == 0) else "regular"
        comments[key] = rand_comment_value(rng, kind)
        if it % 29 == 6 and k == 0:
            # a very long single-line value (a list of station numbers, a WKT outline)
            nlong = [5000, 65500, 65536, 70000, 200000][int(rng.integers(0, 5))]
            comments[key] = ("410730, " * (nlong // 8 + 1))[:nlong].strip()
        if it % 5 == 2 and k == 0:
            # a value that quotes its own key (and the key : value separator)
            comments[key] = [f"see {key} : 410730", f"{key}: {key} : {key}",
                             f"old {key} : x, new {key} : y", f"{key} :"][(it // 5) % 4]
    mode = ["plain", "zip-x.csv", "zip-x.zip", "zip-noext", "zip-dotted",
            "archive", "zip-x.ZIP"][it % 7]
    if it % 9 == 4:
        # a frame of text columns only, one row of which repeats the column names (a
        # units / legend row)
        nrow_ = len(cols[0]["values"])
        cols = [{"name": c["name"], "kind": "text",
                 "values": [rand_text(rng) for _ in range(nrow_)]} for c in cols]
        # (not in a one-row frame: a column holding nothing but a name made of digits is
        # a column of numbers to any CSV reader)
        # ... nor a name that spells a missing-value marker of the reader ('NA', 'nan':
        # excluded from the text values everywhere, see rand_text)
        for c in cols:
            nm_ = c["name"].strip()
            if nm_ in NA_LIKE or nm_.lower() in ("true", "false"):
                continue
            if nrow_ >= 2 or not nm_.lstrip("-").replace(".", "", 1).isdigit():
                c["values"][nrow_ // 2] = nm_ or "x"
    fmt = ["%0.5f", "%0.5f", "%0.2f", "%0.10e", None][int(rng.integers(0, 5))]
    return {"kind": "csv", "cols": cols, "comments": comments, "mode": mode,
            "float_format": fmt, "sysinfo": bool(it % 2),
            "stem": rand_stem(rng, it)}


def run_case(ctx, case):
    import pandas as pd
    from hydrodiy.io import csv
    wd = workdir() / f"case{ctx.evaluations}"
    shutil.rmtree(wd, ignore_errors=True)
    wd.mkdir(parents=True)
    ctx.evaluated()
    cols = case["cols"]
    mode = case["mode"]
    fmt = case["float_format"]
    comments = dict(case["comments"])
    ctx.tag("mode:" + mode)
    ctx.tag("fmt:" + str(fmt))
    ctx.tag("sysinfo:" + ("on" if case["sysinfo"] else "off"))
    data = {}
    for c in cols:
        ctx.tag("col:" + c["kind"])
        if c["kind"] == "int":
            data[c["name"]] = np.array(c["values"], dtype=np.int64)
        elif c["kind"] == "float":
            data[c["name"]] = np.array(c["values"], dtype=np.float64)
        else:
            data[c["name"]] = [str(v) for v in c["values"]]
    df = pd.DataFrame(data)
    if comments:
        ctx.tag("comments", len(comments))
        if any(":" in v for v in comments.values()):
            ctx.tag("comment:colon")
        if any("#" in v for v in comments.values()):
            ctx.tag("comment:hash")
        if any("----------" in v for v in comments.values()):
            ctx.tag("comment:dashes")
    src = wd / "script.py"
    src.write_text("# dummy\n")
    stem = case.get("stem", "data")
    if mode == "zip-dotted":
        stem = "v1.2.3" if "." not in stem else stem
    elif "." in stem and mode in ("zip-noext",):
        stem = stem.replace(".", "_")
    archive = None
    try:
        if mode == "plain":
            fname = wd / f"{stem}.csv"
            kw = {"compress": False}
            if ctx.evaluations % 2 == 0:
                # an older compressed file with the same stem sits in the folder
                ctx.tag("stale-sibling")
                old = pd.DataFrame({"old": [1, 2, 3, 4, 5, 6, 7]})
                csv.write_csv(old, wd / f"{stem}.csv", {"which": "old"}, src,
                              compress=True, write_sys_info=False)
        elif mode in ("zip-x.csv", "zip-dotted"):
            fname = wd / f"{stem}.csv"
            kw = {"compress": True}
        elif mode == "zip-x.zip":
            fname = wd / f"{stem}.zip"
            kw = {"compress": True}
        elif mode == "zip-x.ZIP":
            # the extension as some systems and users write it
            fname = wd / f"{stem}.{['ZIP', 'Zip', 'zIP'][ctx.evaluations % 3]}"
            kw = {"compress": True}
        elif mode == "zip-noext":
            fname = wd / stem
            kw = {"compress": True}
        else:
            # the member path as a caller may spell it (same spelling on both sides)
            fname = [f"a/b/{stem}.csv", f"./a/b/{stem}.csv", f"a/./b/{stem}.csv",
                     f"a//b/{stem}.csv", f"a/b/{stem}.csv"][ctx.evaluations % 5]
            if fname != f"a/b/{stem}.csv":
                ctx.tag("archive:path-spelling")
            # the caller's archive, opened the way the caller chose: new ("w", "x") or to
            # be extended ("a", on a new or on an existing archive)
            amode = ["w", "a", "x", "a+existing"][ctx.evaluations % 4]
            if amode == "a+existing":
                with zipfile.ZipFile(wd / "arch.zip", "w") as z0:
                    z0.writestr("readme.txt", "already there")
                amode = "a"
            if amode != "w":
                ctx.tag("archive:opened-in-another-mode")
            archive = zipfile.ZipFile(wd / "arch.zip", amode)
            kw = {"archive": archive}
            # other members first, with names that contain / are contained in ours
            others = {f"north/a/b/{stem}.csv": 1, f"b/{stem}.csv": 2,
                      f"a/b/{stem}.csv.bak": 3}
            for oname, k in others.items():
                odf = pd.DataFrame({"k": [k, k + 1], "t": [f"member{k}", "x"]})
                ctx.tag("archive:multi-member")
                try:
                    csv.write_csv(odf, oname, {"which": str(k)}, src, archive=archive,
                                  write_sys_info=False)
                except Exception as e:
                    ctx.check("write.runs", False, "write_csv|raises|archive-multi",
                              case, {"exc": repr(e), "member": oname})
        overwritten = False
        # the dictionary object handed to the library (our own copy stays pristine);
        # in some cases the very same object has already been used for another frame
        cdict = dict(comments)
        if ctx.evaluations % 5 == 2 and comments:
            # ... or an instance of a dictionary subclass
            import collections
            class Meta(dict):
                pass
            dd_ = collections.defaultdict(str)
            dd_.update(comments)
            cdict = [collections.OrderedDict(comments), dd_, Meta(comments)][
                ctx.evaluations // 5 % 3]
            ctx.tag("comments:dict-subclass")
        if ctx.evaluations % 4 == 1 and comments:
            ctx.tag("same-comment-dict")
            other = pd.DataFrame({"q": np.arange(len(df) + 3.0), "r": 1, "s": "u"})
            with warnings.catch_warnings():
                warnings.simplefilter("ignore")
                if archive is None:
                    csv.write_csv(other, wd / "another_file.csv", cdict, src,
                                  write_sys_info=False, compress=False)
                else:
                    csv.write_csv(other, "a/b/another_member.csv", cdict, src,
                                  write_sys_info=False, archive=archive)
        if archive is None and ctx.evaluations % 3 == 0:
            # an earlier version of the same file (more rows, other columns, other
            # comments) is overwritten by the write under test
            ctx.tag("overwrite")
            overwritten = True
            old2 = pd.DataFrame({"older": np.arange(len(df) + 5.0), "z": "t"})
            with warnings.catch_warnings():
                warnings.simplefilter("ignore")
                csv.write_csv(old2, fname, {"which": "older", "zzz": "1"}, src,
                              write_sys_info=False, **kw)
        ctx.api("write_csv")
        with warnings.catch_warnings():
            warnings.simplefilter("ignore")
            try:
                csv.write_csv(df, fname, cdict, src, float_format=fmt,
                              write_sys_info=case["sysinfo"],
                              author="verif" if ctx.evaluations % 2 else None, **kw)
            except Exception as e:
                ctx.check("write.runs", False, f"write_csv|raises|{mode}", case,
                          {"exc": repr(e)})
                return
        produced = sorted(p.name for p in wd.iterdir() if p.name != "script.py")
        if (mode == "plain" or overwritten) and "which" not in comments:
            comments_absent = ["which"] + (["zzz"] if "zzz" not in comments else [])
        else:
            comments_absent = []
        members = {}
        if archive is not None:
            archive.close()
            archive = zipfile.ZipFile(wd / "arch.zip", "r")
        for p in wd.glob("*.zip"):
            with zipfile.ZipFile(p) as z:
                members[p.name] = z.namelist()
        ctx.api("read_csv")
        with warnings.catch_warnings():
            warnings.simplefilter("ignore")
            try:
                if archive is not None:
                    got, com = csv.read_csv(fname, archive=archive)
                else:
                    got, com = csv.read_csv(fname)
            except Exception as e:
                ctx.check("read.runs", False, f"read_csv|raises|{mode}", case,
                          lambda: {"exc": repr(e), "files": produced,
                                   "members": members, "name_given": str(fname)})
                return
        if archive is not None:
            for oname, k in others.items():
                try:
                    od, oc = csv.read_csv(oname, archive=archive)
                    okm = list(od["k"]) == [k, k + 1] and oc.get("which") == str(k)
                except Exception as e:
                    okm = False
                ctx.check("rt.archive-members", okm, "roundtrip|archive-other-member",
                          case, lambda: {"member": oname})
        # ------------------------------------------------ round-trip predicate
        # names come back as the same *strings* (a label "2020" is not the number 2020)
        names = [c if isinstance(c, str) else repr(c) + ":" + type(c).__name__
                 for c in got.columns]
        ctx.check("rt.columns", names == [c["name"] for c in cols],
                  "roundtrip|column-names", case,
                  lambda: {"read": names, "written": [c["name"] for c in cols]})
        ctx.check("rt.nrows", len(got) == len(df), "roundtrip|row-count", case,
                  lambda: {"read": len(got), "written": len(df)})
        if names == [c["name"] for c in cols] and len(got) == len(df):
            for c in cols:
                g = got[c["name"]].values
                if c["kind"] == "text":
                    ok = [str(a) for a in g] == [str(v) for v in c["values"]]
                    ctx.check("rt.text", ok, "roundtrip|text-cell", case,
                              lambda: {"column": c["name"], "read": list(map(str, g))[:5],
                                       "written": c["values"][:5]})
                elif c["kind"] == "int":
                    try:
                        ok = [int(a) for a in g] == [int(v) for v in c["values"]] and \
                            np.asarray(g).dtype.kind in "iu"
                    except Exception:
                        ok = False
                    ctx.check("rt.int", ok, "roundtrip|integer-cell", case,
                              lambda: {"column": c["name"], "read": list(map(str, g))[:5],
                                       "written": c["values"][:5]})
                else:
                    w = np.array(c["values"], dtype=float)
                    try:
                        r = np.asarray(g, dtype=float)
                    except Exception:
                        r = np.full(len(w), np.nan)
                    if fmt is None:
                        # pandas' own default formatting keeps >= 12 significant digits
                        tol = 1e-11 * np.abs(w) + 2 * np.spacing(np.abs(w))
                    elif fmt.endswith("f"):
                        nd = int(fmt[3:-1])
                        tol = 0.5 * 10.0 ** (-nd) * (1 + 1e-9) + 2 * np.spacing(np.abs(w))
                    else:
                        nd = int(fmt[3:-1])
                        tol = np.abs(w) * 0.5 * 10.0 ** (-nd) * (1 + 1e-6) + \
                            2 * np.spacing(np.abs(w))
                    ok = bool(np.all(np.abs(r - w) <= tol))
                    ctx.check("rt.float", ok, f"roundtrip|float-cell|{fmt}", case,
                              lambda: {"column": c["name"], "read": r[:4].tolist(),
                                       "written": w[:4].tolist()})
        # comments
        for k, v in comments.items():
            cls = "dashes" if "----------" in v else "regular"
            ctx.check("rt.comment", com.get(k) == v, f"roundtrip|comment|{cls}", case,
                      lambda: {"key": k, "written": v, "read": com.get(k),
                               "all": {a: b for a, b in list(com.items())[:12]}})
        for k in comments_absent:
            ctx.check("rt.no-foreign-comment", k not in com, "roundtrip|foreign-comment",
                      case, lambda: {"key": k, "value": com.get(k)})
        okn = str(com.get("nrow")) == str(len(df)) and \
            str(com.get("ncol")) == str(df.shape[1])
        ctx.check("rt.nrow-ncol", okn, "roundtrip|nrow-ncol", case,
                  lambda: {"nrow": com.get("nrow"), "ncol": com.get("ncol"),
                           "shape": list(df.shape)})
        if len(cols) >= 2 or any(c["kind"] == "text" for c in cols):
            ctx.nontrivial(repr(cols), repr(comments), mode, fmt, case["sysinfo"])
    finally:
        if archive is not None:
            try:
                archive.close()
            except Exception:
                pass
        shutil.rmtree(wd, ignore_errors=True)


def run(ctx):
    rng = ctx.rng(1)
    nrep = 60 if ctx.tier == "quick" else 3000
    try:
        for it0 in range(nrep):
            it = it0 + ctx.shard
            if ctx.out_of_time():
                ctx.notes.append(f"stopped at {it0}")
                break
            case = gen_case(rng, it)
            run_case(ctx, case)
            if it0 % 30 == 0:
                ctx.sample(case, maxlen=6)
    finally:
        shutil.rmtree(workdir(), ignore_errors=True)


def replay(ctx, case):
    try:
        run_case(ctx, case)
    finally:
        shutil.rmtree(workdir(), ignore_errors=True)
