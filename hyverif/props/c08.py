"""C08 - temporal aggregation / disaggregation reduce by group and conserve totals.

Monitor: group-wise reference (fsum) evaluated on every observed call of
dutils.aggregate / flathomogen / monthly2daily and signatures.goue."""
import math
import warnings

import numpy as np

from hyverif.core import digest, same_result, scalar_forms, size_edges

ID = "C08"
SHARDS = {"quick": 8, "thorough": 16}
BUDGET = {"quick": 300, "thorough": 1800}
RULE = ("index vectors (constant, strictly increasing, runs of random length, "
        "negative, near +-2^31) of length 1..2000 x values on the k/4 lattice and "
        "random floats incl. negatives, zeros, NaN leading / trailing / last in "
        "group / whole groups x operators 0..3 x maxnan in {0, 1, 2, group length, "
        "1e6}; decreasing indices for rejection; monthly series of 2..60 (quick) / "
        "2..600 (thorough) months starting in any month 1890-2100, non-negative "
        "values, flat and cubic. Non-trivial: >= 2 groups or >= 1 NaN (aggregate), "
        ">= 2 months (monthly2daily); distinct by digest of inputs and options.")
ASSUMPTIONS = [
    "groups without any non-missing value are only judged for the sum operator",
    "flathomogen: NaN is accepted at valid positions of a group holding more than "
    "maxnan missing values",
    "sums compared to 1e-11 x sum|v| (exact on the lattice), max / tail exactly",
]
OBLIGATIONS = {"m2d:all-zero": 2, "gap:long-run-of-missing-values": 8, "values:one-infinite": 10, "size-edge": 20, "reuse-array": 100, "values:mixed-magnitude": 10, "maxnan:on-a-group-count": 100, "op0": 50, "op1": 50, "op2": 50, "op3": 50, "neg-values+max": 20,
               "nan-last-in-group+tail": 20, "whole-group-nan": 20, "single-group": 10,
               "n=1": 5, "extreme-index": 10, "reject:decreasing": 30,
               "flathomogen": 50, "goue": 20, "goue:transform": 5, "m2d:flat": 10, "m2d:cubic": 10,
               "m2d:leap-feb": 3}


def D():
    from hydrodiy.data import dutils
    return dutils


def groups(idx):
    """list of (start, end) of runs of equal index"""
    out = []
    s = 0
    for i in range(1, len(idx) + 1):
        if i == len(idx) or idx[i] != idx[s]:
            out.append((s, i))
            s = i
    return out


def gen_index(rng, n, it):
    k = it % 7
    if k == 6:
        # one step larger than 2^31 (very negative then very positive values)
        h = n // 2
        idx = np.concatenate([np.full(h, -2 ** 31 + int(rng.integers(0, 3))),
                              np.full(n - h, 2 ** 31 - 1 - int(rng.integers(0, 3)))])
        idx = np.sort(idx)
    elif k == 0:
        idx = np.zeros(n, dtype=np.int64) + int(rng.integers(-5, 5))
    elif k == 1:
        idx = np.arange(n) + int(rng.integers(-100, 100))
    elif k == 2:
        idx = np.sort(rng.integers(-20, 20, size=n))
    elif k == 3:
        idx = np.cumsum(rng.integers(0, 2, size=n)) + 199501
    elif k == 4:
        base = 2 ** 31 - 1 - int(rng.integers(0, 3))
        idx = base - np.sort(rng.integers(0, 6, size=n))[::-1]
    else:
        base = -2 ** 31 + int(rng.integers(0, 3))
        idx = base + np.sort(rng.integers(0, 6, size=n))
    return np.asarray(idx, dtype=np.int64)


def gen_values(rng, n, it):
    k = it % 7
    if k == 6:
        # one infinite value (an overflowed upstream computation): the group holding it
        # has an infinite sum and mean, the others are untouched
        v = rng.integers(-40, 40, size=n) / 4.0
        v[int(rng.integers(0, n))] = [np.inf, -np.inf][int(rng.integers(0, 2))]
        return v.astype(np.float64)
    if k == 5:
        # ordinary values with a few very large ones in between (one array holding
        # litres and gigalitres): each group's result depends on its own members only
        v = rng.integers(1, 40, size=n) / 4.0
        nb = max(1, n // 12)
        pos = rng.choice(n, size=min(nb, n), replace=False)
        v[pos] = rng.choice([1e12, 1e15, 1e17, -1e16], size=len(pos)) * \
            rng.integers(1, 9, size=len(pos))
        return v.astype(np.float64)
    if k == 0:
        v = rng.integers(-40, 40, size=n) / 4.0
    elif k == 1:
        v = -np.abs(rng.integers(1, 40, size=n) / 4.0)         # all negative
    elif k == 2:
        v = rng.normal(size=n) * 10.0 ** rng.integers(-3, 6)
    elif k == 3:
        v = np.abs(rng.normal(size=n))
        v[rng.random(n) < 0.3] = 0.0
    else:
        v = rng.integers(-8, 8, size=n) / 4.0
    return v.astype(np.float64)


def add_nans(rng, v, idx, it):
    n = len(v)
    k = it % 6
    gr = groups(idx)
    v = v.copy()
    tags = []
    if k == 1:
        v[rng.random(n) < 0.2] = np.nan
    elif k == 2 and gr:
        for (s, e) in gr:
            if rng.random() < 0.5:
                v[e - 1] = np.nan          # last in group
        tags.append("nan-last")
    elif k == 3 and gr:
        s, e = gr[int(rng.integers(0, len(gr)))]
        v[s:e] = np.nan                    # whole group
        tags.append("whole-group-nan")
    elif k == 4:
        m = max(1, n // 5)
        v[:m] = np.nan
        v[n - m:] = np.nan
    return v, tags


def run_agg_case(ctx, case):
    du = D()
    idx = np.asarray(case["index"], dtype=np.int64)
    v = np.asarray(case["values"], dtype=np.float64)
    op = int(case["op"])
    maxnan = int(case["maxnan"])
    n = len(v)
    ctx.evaluated()
    ctx.tag(f"op{op}")
    gr = groups(idx)
    if len(gr) == 1:
        ctx.tag("single-group")
    if n == 1:
        ctx.tag("n=1")
    if abs(int(idx[0])) > 2 ** 30:
        ctx.tag("extreme-index")
    ctx.api("aggregate")
    try:
        out = du.aggregate(idx.astype(np.int32), v.copy(), operator=op, maxnan=maxnan)
    except Exception as e:
        ctx.check("agg.runs", False, "aggregate|raises-on-valid", case,
                  {"exc": repr(e)})
        return
    out = np.asarray(out, dtype=float)
    ctx.check("agg.length", len(out) == len(gr), f"aggregate|length", case,
              lambda: {"len": len(out), "groups": len(gr)})
    if len(out) != len(gr):
        return
    nanany = bool(np.isnan(v).any())
    for gi, (s, e) in enumerate(gr):
        g = v[s:e]
        valid = g[~np.isnan(g)]
        nnan = len(g) - len(valid)
        got = out[gi]
        if nnan > maxnan:
            ctx.check("agg.nan-when-too-many-missing", math.isnan(got),
                      f"aggregate|op{op}|not-nan-beyond-maxnan", case,
                      lambda: {"group": gi, "values": g, "got": got,
                               "maxnan": maxnan})
            continue
        if len(valid) == 0:
            ctx.tag("whole-group-nan")
            if op == 0:
                ctx.check("agg.sum-empty-group", got == 0.0,
                          "aggregate|op0|empty-group", case,
                          lambda: {"group": gi, "got": got})
            continue
        if np.isinf(valid).any():
            # exactly one infinite member: sum / mean are that infinity, max and tail
            # follow the ordinary rule
            infv = float(valid[np.isinf(valid)][0])
            ref = {0: infv, 1: infv, 2: float(np.max(valid)),
                   3: float(valid[-1])}[op]
            ctx.check(f"agg.op{op}", bool(got == ref), f"aggregate|op{op}|value", case,
                      lambda: {"group": gi, "values": g, "got": got, "ref": ref,
                               "maxnan": maxnan})
            continue
        mag = math.fsum(abs(x) for x in valid)
        if op == 0:
            ref = math.fsum(valid)
            ok = abs(got - ref) <= 1e-11 * mag
        elif op == 1:
            ref = math.fsum(valid) / len(valid)
            ok = abs(got - ref) <= 1e-11 * mag / len(valid)
        elif op == 2:
            ref = float(np.max(valid))
            ok = got == ref
            if ref < 0:
                ctx.tag("neg-values+max")
        else:
            ref = float(valid[-1])
            ok = got == ref
            if math.isnan(g[-1]):
                ctx.tag("nan-last-in-group+tail")
        ctx.check(f"agg.op{op}", bool(ok), f"aggregate|op{op}|value", case,
                  lambda: {"group": gi, "values": g, "got": got, "ref": ref,
                           "maxnan": maxnan})
    if op == 0 and maxnan >= n and not np.isinf(v).any():
        tot = math.fsum(x for x in v if not math.isnan(x))
        mag = math.fsum(abs(x) for x in v if not math.isnan(x))
        ctx.check("agg.total-conserved", abs(math.fsum(out) - tot) <= 1e-11 * mag,
                  "aggregate|total", case, lambda: {"sum_out": math.fsum(out),
                                                    "sum_in": tot})
    if len(gr) >= 2 or nanany:
        ctx.nontrivial("agg", idx, v, op, maxnan)
    # the same array object aggregated again with another operator, the first result
    # kept by the caller: nothing of what was handed over or returned may change
    vv = np.ascontiguousarray(v.copy())
    ii = idx.astype(np.int32)
    ctx.tag("reuse-array")
    ctx.api("aggregate", 3)
    try:
        o1 = du.aggregate(ii, vv, operator=op, maxnan=maxnan)
        keep = np.array(o1, dtype=float, copy=True)
        o2 = du.aggregate(ii, vv, operator=(op + 1) % 4, maxnan=maxnan)
        o3 = du.aggregate(ii, vv, operator=op, maxnan=maxnan)
        ctx.check("agg.reuse.same-answer", same_result(o1, out) and same_result(o3, out),
                  "aggregate|second-call-on-same-array-differs", case,
                  lambda: {"first": np.asarray(o1)[:6], "third": np.asarray(o3)[:6],
                           "fresh": out[:6]})
        ctx.check("agg.reuse.result-kept", same_result(o1, keep),
                  "aggregate|earlier-result-overwritten", case,
                  lambda: {"kept": keep[:6], "now": np.asarray(o1)[:6]})
        ctx.check("agg.reuse.input-kept", same_result(vv, v) and
                  not np.shares_memory(np.asarray(o1), vv),
                  "aggregate|input-overwritten-or-aliased", case,
                  lambda: {"given": v[:6], "now": vv[:6]})
    except Exception as e:
        ctx.check("agg.reuse.same-answer", False, "aggregate|raises-on-reuse", case,
                  {"exc": repr(e)})
    # the caller regroups: the index array is edited in place between its ends (first
    # value, last value and length stay), valid and not: the answer is the one a new
    # array holding the same numbers gets
    if len(ii) >= 4:
        prg = np.random.default_rng(digest(idx, op) % 2 ** 31)
        for how in ("merged", "resplit", "decreasing"):
            if how == "merged":
                ii[1:-1] = ii[0]
            elif how == "resplit":
                ii[1:-1] = np.sort(prg.integers(int(ii[0]), int(ii[-1]) + 1,
                                                size=len(ii) - 2)).astype(np.int32)
            else:
                ii[1:-1] = np.sort(prg.integers(int(ii[0]), int(ii[0]) + 3,
                                                size=len(ii) - 2))[::-1].astype(np.int32) + 1
            ctx.tag("reuse-array:index-edited-between-its-ends")
            ctx.api("aggregate", 2)

            def _run(ix):
                try:
                    return np.asarray(du.aggregate(ix, vv, operator=op, maxnan=maxnan),
                                      dtype=float)
                except ValueError as e_:
                    return "ValueError"
            a_same, a_new = _run(ii), _run(ii.copy())
            okr = (isinstance(a_same, str) and isinstance(a_new, str)) or \
                (not isinstance(a_same, str) and not isinstance(a_new, str) and
                 same_result(a_same, a_new))
            ctx.check("agg.reuse.index-edited", okr,
                      "aggregate|answer-for-an-index-array-edited-in-place-differs-from-a-new-array",
                      case, lambda: {"edit": how, "index_now": ii[:10],
                                     "same_object": a_same if isinstance(a_same, str)
                                     else a_same[:6],
                                     "new_object": a_new if isinstance(a_new, str)
                                     else a_new[:6]})
    # the same numbers in another memory layout / container / index width
    prng = np.random.default_rng(digest(idx, v, op) % 2 ** 32)
    ctx.presentations("aggregate", lambda i_, v_: du.aggregate(i_, v_, operator=op,
                                                               maxnan=maxnan),
                      [idx.astype(np.int32), v], out, case, prng, n=1)
    # the options as numpy scalars / 0-d arrays
    k = int(prng.integers(0, 4))
    ctx.tag("scalar-forms")
    ctx.api("aggregate")
    try:
        osf = du.aggregate(idx.astype(np.int32), v.copy(), operator=scalar_forms(op, k),
                           maxnan=scalar_forms(maxnan, k + 1))
        ctx.check("agg.scalar-forms", same_result(osf, out),
                  "aggregate|result-depends-on-scalar-type-of-options", case,
                  lambda: {"operator": repr(scalar_forms(op, k)),
                           "maxnan": repr(scalar_forms(maxnan, k + 1))})
    except Exception as e:
        ctx.check("agg.scalar-forms", False, "aggregate|raises-on-numpy-scalar-option",
                  case, {"exc": repr(e), "operator": repr(scalar_forms(op, k)),
                         "maxnan": repr(scalar_forms(maxnan, k + 1))})
    if prng.random() < 0.3:
        ctx.tag("index:int64")
        ctx.api("aggregate")
        try:
            o64 = du.aggregate(idx.astype(np.int64), v.copy(), operator=op, maxnan=maxnan)
            ctx.check("agg.int64-index", same_result(o64, out),
                      "aggregate|result-depends-on-index-width", case,
                      lambda: {"int64": np.asarray(o64)[:8], "int32": out[:8]})
        except Exception as e:
            ctx.check("agg.int64-index", False, "aggregate|raises-on-int64-index", case,
                      {"exc": repr(e)})


def run_flat_case(ctx, case):
    du = D()
    idx = np.asarray(case["index"], dtype=np.int64)
    v = np.asarray(case["values"], dtype=np.float64)
    if np.isinf(v).any():
        return
    maxnan = int(case["maxnan"])
    ctx.evaluated()
    ctx.tag("flathomogen")
    ctx.api("flathomogen")
    try:
        out = np.asarray(du.flathomogen(idx.astype(np.int32), v.copy(), maxnan), float)
    except Exception as e:
        ctx.check("flat.runs", False, "flathomogen|raises-on-valid", case,
                  {"exc": repr(e)})
        return
    ctx.check("flat.length", len(out) == len(v), "flathomogen|length", case, None)
    if len(out) != len(v):
        return
    ref_series = np.full(len(v), np.nan)
    for (s, e) in groups(idx):
        g = v[s:e]
        miss = np.isnan(g)
        valid = g[~miss]
        o = out[s:e]
        ctx.check("flat.missing-stay-missing", bool(np.all(np.isnan(o[miss]))),
                  "flathomogen|value-at-missing", case,
                  lambda: {"inputs": g, "outputs": o})
        if len(valid) == 0:
            continue
        mean = math.fsum(valid) / len(valid)
        mag = math.fsum(abs(x) for x in valid) / len(valid)
        ref_series[s:e][~miss] = mean
        okv = np.abs(o[~miss] - mean) <= 1e-11 * mag
        if miss.sum() > maxnan:
            okv = okv | np.isnan(o[~miss])
        ctx.check("flat.group-mean", bool(np.all(okv)), "flathomogen|group-mean", case,
                  lambda: {"inputs": g, "outputs": o, "mean": mean, "maxnan": maxnan})
        if not miss.any():
            ctx.check("flat.group-total",
                      abs(math.fsum(o) - math.fsum(g)) <= 1e-11 * mag * len(g),
                      "flathomogen|group-total", case,
                      lambda: {"inputs": g, "outputs": o})
    ctx.nontrivial("flat", idx, v, maxnan)
    prng = np.random.default_rng(digest(idx, v, maxnan) % 2 ** 32)
    ctx.presentations("flathomogen", lambda i_, v_: du.flathomogen(i_, v_, maxnan),
                      [idx.astype(np.int32), v], out, case, prng, n=1)
    # goue: NSE of the series against its homogenised version
    if not np.isnan(v).any() and len(v) >= 3 and np.std(v) > 1e-3 * (np.abs(v).max()):
        from hydrodiy.data import signatures
        ctx.tag("goue")
        ctx.api("goue")
        with warnings.catch_warnings():
            warnings.simplefilter("ignore")
            g = signatures.goue(idx.astype(np.int32), v.copy())
        mo = math.fsum(v) / len(v)
        errs = math.fsum((a - b) ** 2 for a, b in zip(ref_series, v))
        erro = math.fsum((a - mo) ** 2 for a in v)
        ref = 1 - errs / erro
        cnd = 1 + abs(mo) / float(np.std(v))
        ctx.check("goue.value", abs(g - ref) <= 1e-9 * cnd * max(1, abs(ref)),
                  "goue|value", case, lambda: {"goue": g, "ref": ref})
        if v.min() > -0.9:
            from hydrodiy.stat import transform
            tlog = transform.get_transform("Log", nu=1.0)
            with warnings.catch_warnings():
                warnings.simplefilter("ignore")
                g2 = signatures.goue(idx.astype(np.int32), v.copy(), tlog)
            tv, tf = np.log(v + 1.0), np.log(ref_series + 1.0)
            mo2 = math.fsum(tv) / len(tv)
            ref2 = 1 - math.fsum((a - b) ** 2 for a, b in zip(tf, tv)) / \
                math.fsum((a - mo2) ** 2 for a in tv)
            if np.std(tv) > 1e-3 * np.abs(tv).max():
                c2 = 1 + abs(mo2) / float(np.std(tv))
                ctx.tag("goue:transform")
                ctx.check("goue.value-transform",
                          abs(g2 - ref2) <= 1e-9 * c2 * max(1, abs(ref2)),
                          "goue|value|transform", case,
                          lambda: {"goue": g2, "ref": ref2})


def run_reject_case(ctx, case):
    du = D()
    idx = np.asarray(case["index"], dtype=np.int64)
    v = np.asarray(case["values"], dtype=np.float64)
    ctx.evaluated()
    ctx.tag("reject:decreasing")
    mx = int(case.get("maxnan", 10 ** 6))
    for nm, fn in (("aggregate", lambda: du.aggregate(idx.astype(np.int32), v.copy(),
                                                     case["op"], mx)),
                   ("flathomogen", lambda: du.flathomogen(idx.astype(np.int32),
                                                         v.copy(), mx))):
        ctx.api(nm)
        try:
            r = fn()
            ctx.check("reject.decreasing", False, f"{nm}|accepts-decreasing-index",
                      case, lambda: {"returned": np.asarray(r)[:6]})
        except ValueError:
            ctx.check("reject.decreasing", True)


def run_m2d_case(ctx, case):
    import pandas as pd
    du = D()
    start = pd.Timestamp(case["start"])
    vals = np.asarray(case["values"], dtype=float)
    interp = case["interpolation"]
    if len(vals) % 2:
        # the option as a string built at run time (configuration file, command line)
        from hyverif.core import runtime_str
        interp = runtime_str(interp, len(vals))
        ctx.tag("m2d:option-string-built-at-run-time")
    n = len(vals)
    ctx.evaluated()
    ctx.tag("m2d:" + interp)
    # the monthly series may carry a time zone (local calendar months east or west of
    # Greenwich): months, their lengths and their totals are those of that calendar
    tz = case.get("tz")
    if tz and start.year < 1980:
        tz = None        # (historic daylight-saving rules make midnights ambiguous)
    if tz:
        ctx.tag("m2d:zone-aware-index")
    months = pd.date_range(start, periods=n, freq="MS", tz=tz)
    se = pd.Series(vals, index=months)
    ctx.api("monthly2daily")
    with warnings.catch_warnings():
        warnings.simplefilter("ignore")
        try:
            sed = du.monthly2daily(se, interpolation=interp)
        except Exception as e:
            if tz and interp == "cubic":
                # (the cubic branch of the unchanged library refuses zone-aware months
                # around daylight-saving changes; a refusal is not a wrong total)
                ctx.extra["m2d-cubic-zone-aware-refused"] += 1
                return
            ctx.check("m2d.runs", False, f"monthly2daily|{interp}|raises", case,
                      {"exc": repr(e)})
            return
    last = months[-1] + pd.offsets.MonthEnd(0)
    days = pd.date_range(start, last.tz_localize(None) if tz else last, freq="D", tz=tz)
    same_idx = len(sed) == len(days) and bool((sed.index == days).all())
    ctx.check("m2d.index", same_idx, f"monthly2daily|{interp}|index", case,
              lambda: {"len": len(sed), "expected": len(days),
                       "first": str(sed.index[0]), "last": str(sed.index[-1])})
    if not same_idx:
        return
    if any(m.month == 2 and m.is_leap_year for m in months):
        ctx.tag("m2d:leap-feb")
    vmax = float(np.max(np.abs(vals))) or 1.0
    key = sed.index.year * 100 + sed.index.month
    sums = sed.groupby(key).apply(lambda x: math.fsum(x.values))
    ok = True
    wit = None
    for mth, v in zip(months, vals):
        s = sums.loc[mth.year * 100 + mth.month]
        if not abs(s - v) <= 1e-9 * max(abs(v), 1e-3 * vmax):
            ok = False
            wit = (str(mth), float(v), float(s))
    ctx.check("m2d.monthly-sum", ok, f"monthly2daily|{interp}|monthly-sum", case,
              lambda: {"month,input,sum": wit})
    if interp == "flat":
        ctx.check("m2d.flat-nonneg", bool((sed.values >= 0).all()),
                  "monthly2daily|flat|negative", case, None)
    ctx.nontrivial("m2d", case["start"], vals, interp)


def run(ctx):
    rng = ctx.rng(1)
    nrep = 250 if ctx.tier == "quick" else 12000
    for it0 in range(nrep):
        it = it0 + ctx.shard * 7
        if ctx.out_of_time():
            ctx.notes.append(f"stopped at {it0}")
            break
        n = [1, 2, 3, 5][it % 4] if it % 9 == 0 else int(rng.integers(1, 120))
        if it % 50 == 3:
            n = int(rng.integers(500, 2001))
        if it % 10 == 7:
            ed = size_edges(2, 20001 if ctx.tier == "quick" else 100001)
            n = ed[((it0 // 10) * ctx.nshards + ctx.shard) % len(ed)]
            ctx.tag("size-edge")
        idx = gen_index(rng, n, int(rng.integers(0, 7)))
        v = gen_values(rng, n, int(rng.integers(0, 7)))
        if np.isinf(v).any():
            ctx.tag("values:one-infinite")
        if np.abs(v).max() >= 1e12:
            ctx.tag("values:mixed-magnitude")
        v, tags = add_nans(rng, v, idx, int(rng.integers(0, 6)))
        glen = max(e - s for s, e in groups(idx))
        # the number of missing values of each group: maxnan exactly on, one below and
        # one above such a count is the boundary of the rule
        nn = sorted({int(np.isnan(v[s:e]).sum()) for s, e in groups(idx)} - {0})
        edge = [k + d for k in nn[:3] for d in (-1, 0, 1) if k + d >= 0] or [0]
        for op in range(4):
            maxnan = [0, 1, 2, glen, 10 ** 6, 2 ** 31 - 1, 2 ** 31 - 2][
                int(rng.integers(0, 7))]      # (... up to "no limit": the largest int32)
            if it % 2:
                maxnan = edge[int(rng.integers(0, len(edge)))]
                ctx.tag("maxnan:on-a-group-count")
            case = {"kind": "agg", "index": idx, "values": v, "op": op,
                    "maxnan": maxnan}
            run_agg_case(ctx, case)
            if it0 % 80 == 0 and n <= 10 and op == 2:
                ctx.sample(case)
        run_flat_case(ctx, {"kind": "flat", "index": idx, "values": v,
                            "maxnan": [0, 1, glen, 10 ** 6, 2 ** 31 - 1][int(rng.integers(0, 5))]
                            if it % 2 == 0 else edge[int(rng.integers(0, len(edge)))]})
        if n >= 2:
            bad = idx.copy()
            j = [1, n - 1, int(rng.integers(1, n))][it % 3]
            bad[j] = bad[j - 1] - int(rng.integers(1, 4))
            if bad[j] >= -2 ** 31:
                run_reject_case(ctx, {"kind": "reject", "index": bad, "values": v,
                                      "op": it % 4})
                # ... whatever the missing values and the number of them a group may
                # hold: a missing value in the group that is open where the index drops
                vn = np.array(v, dtype=float, copy=True)
                vn[max(0, j - 1 - int(rng.integers(0, 3))):j + int(rng.integers(0, 2))] = np.nan
                run_reject_case(ctx, {"kind": "reject", "index": bad, "values": vn,
                                      "op": it % 4, "maxnan": [0, 1, 2, 10 ** 6][it % 4]})
                ctx.tag("reject:decreasing-with-missing-values")
    # very long gaps: a group holding as many missing values as a narrow counter can
    # hold (2**8, 2**15, 2**16 and neighbours, 2**17) next to a few valid ones
    counts = [255, 256, 257, 32767, 32768, 65535, 65536, 65537, 65540, 131072, 131075]
    for j, cnt in enumerate(counts):
        if (j % ctx.nshards) != (ctx.shard % len(counts)) and ctx.nshards > 1 \
                and (j % ctx.nshards) != ctx.shard:
            continue
        if ctx.out_of_time():
            break
        ctx.tag("gap:long-run-of-missing-values")
        nval = int(rng.integers(1, 6))
        pre = int(rng.integers(0, 4))
        v = np.concatenate([rng.normal(size=pre) + 5, np.full(cnt, np.nan),
                            rng.normal(size=nval) + 5, rng.normal(size=3)])
        rng.shuffle(v[pre:pre + cnt + nval])
        idx = np.concatenate([np.zeros(pre), np.ones(cnt + nval), np.full(3, 2)]).astype(
            np.int32)
        for maxnan in (0, 5, cnt - 1, cnt, cnt % 256, cnt % 65536, 2 ** 31 - 1):
            run_agg_case(ctx, {"kind": "agg", "index": idx, "values": v, "op": j % 4,
                               "maxnan": int(maxnan)})
        run_flat_case(ctx, {"kind": "flat", "index": idx, "values": v,
                            "maxnan": [0, cnt % 65536, cnt - 1][j % 3]})
    nm = 12 if ctx.tier == "quick" else 300
    for it in range(nm):
        if ctx.out_of_time():
            break
        nmon = int(rng.integers(2, 61 if ctx.tier == "quick" else 601))
        if it % 4 == 0:
            nmon = int(rng.integers(2, 6))
        year = int(rng.integers(1890, 2100 - nmon // 12 - 1))
        month = int(rng.integers(1, 13))
        if it % 5 == 0:
            year, month = [2000, 1900, 2024, 1896][it % 4], [1, 2][it % 2]
        k = it % 3
        if k == 0:
            vals = rng.integers(0, 400, size=nmon) / 4.0
        elif k == 1:
            vals = np.abs(rng.normal(size=nmon)) * 10.0 ** rng.integers(-2, 4)
        else:
            vals = rng.gamma(0.5, 50, size=nmon)
            vals[rng.random(nmon) < 0.3] = 0.0
        if it % 6 == 1:
            vals = np.zeros(nmon)                       # a dry record
            ctx.tag("m2d:all-zero")
        elif it % 6 == 4:
            vals = np.full(nmon, [31.0, 0.25, 1e-6, 1e6][it // 6 % 4])    # constant months
            ctx.tag("m2d:constant")
        elif it % 6 == 5:
            vals = vals.copy()
            vals[: max(1, nmon - 1)] = 0.0              # dry but for the last month
        for interp in ("flat", "cubic"):
            run_m2d_case(ctx, {"kind": "m2d", "start": f"{year:04d}-{month:02d}-01",
                               "values": vals, "interpolation": interp,
                               "tz": [None, None, "Australia/Sydney", "UTC",
                                      "America/Denver", "Asia/Tokyo"][
                                   (year + month + nmon) % 6]})


def replay(ctx, case):
    {"agg": run_agg_case, "flat": run_flat_case, "reject": run_reject_case,
     "m2d": run_m2d_case}[case["kind"]](ctx, case)
