"""C19 - batches partition the work; option grids enumerate every combination once.

Monitor shape: reference model (integer / multiset model written from the property
text) compared with every observed call of the real hyruns functions."""
import itertools
import json
import warnings
from collections import Counter

import numpy as np

ID = "C19"
SHARDS = {"quick": 8, "thorough": 16}
BUDGET = {"quick": 300, "thorough": 1800}
EXHAUSTIVE = True
RULE = ("get_batch: every (nelements, nbatch) with 1<=nbatch<=nelements<=N "
        "(N=60 quick, 150 thorough) enumerated completely with every batch index, "
        "plus random sizes up to 1e6 and rejected calls; SiteBatch on random unique "
        "site ids; OptionManager on random option dictionaries of 1..4 options x "
        "1..5 values (ints incl. negatives and prefixes, identifier-like strings "
        "incl. prefixes, bare scalars), contexts, renamed dictionary keys. A case is "
        "non-trivial when it has >=2 batches / >=2 tasks; distinct by digest of its "
        "inputs.")
ASSUMPTIONS = [
    "option value lists are python lists (a tuple would come back as a list from "
    "JSON; the statement is silent on that)",
    "within one option all values have the same type (int or str), so that "
    "'task[k] == v' is unambiguous for find()",
]
OBLIGATIONS = {"batch:exhaustive": 100, "batch:random-large": 20,
               "batch:reject": 50, "sitebatch": 20, "opm:product": 50,
               "opm:roundtrip": 50, "opm:roundtrip-renamed": 10,
               "opm:find": 50, "opm:bare-scalar": 5, "opm:prefix-values": 5,
               "opm:rebuilt-manager": 20, "batch:caller-modifies-result": 20,
               "opm:find-multi": 50, "opm:find-multi-equal-values": 5,
               "opm:rebuilt-same-size": 20, "opm:mixed-kinds": 5}


def _hy():
    from hydrodiy.io import hyruns
    return hyruns


# ------------------------------------------------------------------ get_batch ----
def check_partition(ctx, n, k, case):
    hy = _hy()
    batches = []
    for i in range(k):
        try:
            b = hy.get_batch(n, k, i)
        except Exception as e:
            ctx.check("batch.valid-call-accepted", False, "get_batch|raises-on-valid",
                      case, {"n": n, "k": k, "i": i, "exc": repr(e)})
            return False
        ctx.api("get_batch")
        batches.append(np.array(b, copy=True))
        # what a caller does with its batch (shifting it to absolute positions, say)
        # is nobody else's business: the next call answers the same
        if isinstance(b, np.ndarray) and b.size and b.flags.writeable and (n + k + i) % 4 == 0:
            ctx.tag("batch:caller-modifies-result")
            b += 1000
            b[-1] = -1
            b2 = hy.get_batch(n, k, i)
            ctx.api("get_batch")
            ctx.check("batch.unaffected-by-callers-edits",
                      np.array_equal(np.asarray(b2), batches[-1]),
                      "get_batch|later-call-sees-callers-edits", case,
                      lambda: {"n": n, "k": k, "i": i, "second": np.asarray(b2)[:6],
                               "first": batches[-1][:6]})
    # the three integers as a caller may hold them: numpy integers of any width that
    # can hold them (a loop counter from np.arange(k, dtype=np.uint8), sizes from .shape)
    kinds = [np.int64, np.int32, np.int16, np.uint16, np.uint8, np.int8]
    def narrow(v, j):
        for t in kinds[j % 6:] + kinds[:j % 6]:
            if np.iinfo(t).min <= v <= np.iinfo(t).max:
                return t(v)
        return int(v)
    for i in sorted(set([0, k - 1, k // 2, (n + k) % k])):
        forms = [(n, k, narrow(i, n + i)), (narrow(n, i), narrow(k, i + 1), narrow(i, 4)),
                 (n, narrow(k, 2 + i), narrow(i, 3))]
        a_, b_, c_ = forms[(n + k + i) % 3]
        ctx.tag("batch:numpy-integer-arguments")
        ctx.api("get_batch")
        try:
            with np.errstate(all="ignore"), warnings.catch_warnings():
                warnings.simplefilter("ignore")
                bb = np.asarray(hy.get_batch(a_, b_, c_))
            okn = bool(np.array_equal(bb, batches[i]))
        except Exception as e:
            bb, okn = repr(e)[:200], False
        ctx.check("batch.numpy-integers", okn,
                  "get_batch|result-depends-on-integer-type-of-arguments", case,
                  lambda: {"n": repr(a_), "k": repr(b_), "i": repr(c_),
                           "got": bb[:6] if isinstance(bb, np.ndarray) else bb,
                           "expected": batches[i][:6]})
    key = "get_batch|partition"
    allv = np.concatenate(batches) if batches else np.array([])
    ok = True
    ok &= ctx.check("batch.cover-once", allv.size == n and
                    np.array_equal(np.sort(allv), np.arange(n)), key + "|cover",
                    case, lambda: {"sizes": [int(b.size) for b in batches]})
    ok &= ctx.check("batch.ordered-contiguous",
                    np.array_equal(allv, np.arange(n)) and
                    all(b.size == 0 or np.array_equal(b, np.arange(b[0], b[0] + b.size))
                        for b in batches), key + "|order", case,
                    lambda: {"batches": [b.tolist()[:10] for b in batches[:10]]})
    sizes = [int(b.size) for b in batches]
    ok &= ctx.check("batch.balanced", max(sizes) - min(sizes) <= 1 and min(sizes) >= 1,
                    key + "|balance", case, lambda: {"sizes": sizes[:50]})
    return ok


def reject_cases(ctx, n, k):
    hy = _hy()
    bad = [(n, n + 1, 0), (n, k, -1), (n, k, k), (n, k, k + 3), (0, 1, 0),
           (n, n + 5, n + 1)]
    for (a, b, c) in bad:
        ctx.tag("batch:reject")
        try:
            r = hy.get_batch(a, b, c)
            ctx.check("batch.reject", False, "get_batch|accepts-invalid",
                      {"kind": "batch_reject", "n": a, "k": b, "i": c},
                      {"returned": r})
        except Exception as e:  # any exception is a rejection
            ctx.check("batch.reject", True)
        ctx.evaluated()


def run_batches(ctx):
    N = 60 if ctx.tier == "quick" else 220
    pairs = [(n, k) for n in range(1, N + 1) for k in range(1, n + 1)]
    for idx, (n, k) in enumerate(pairs):
        if idx % ctx.nshards != ctx.shard:
            continue
        case = {"kind": "batch", "n": n, "k": k}
        ctx.tag("batch:exhaustive")
        ctx.evaluated()
        check_partition(ctx, n, k, case)
        if k >= 2:
            ctx.nontrivial("batch", n, k)
        if idx % 37 == 0:
            reject_cases(ctx, n, k)
        if idx % 500 == 0:
            ctx.sample(case)
    rng = ctx.rng(1)
    nrand = 40 if ctx.tier == "quick" else 200
    for _ in range(nrand):
        n = int(rng.integers(200, 10 ** int(rng.integers(3, 7))))
        k = int(rng.integers(1, min(n, 400 if n <= 20000 else 24) + 1))
        case = {"kind": "batch", "n": n, "k": k}
        ctx.tag("batch:random-large")
        ctx.evaluated()
        check_partition(ctx, n, k, case)
        ctx.nontrivial("batch", n, k)
        reject_cases(ctx, n, k)


# ------------------------------------------------------------------ SiteBatch ----
def run_sitebatch(ctx):
    hy = _hy()
    rng = ctx.rng(2)
    nrep = 30 if ctx.tier == "quick" else 200
    for _ in range(nrep):
        n = int(rng.integers(1, 60))
        k = int(rng.integers(1, n + 1))
        if rng.random() < 0.5:
            ids = [int(v) for v in rng.choice(10000, size=n, replace=False)]
        else:
            ids = ["S%05d" % v for v in rng.choice(100000, size=n, replace=False)]
        case = {"kind": "sitebatch", "ids": ids, "k": k}
        run_sitebatch_case(ctx, case)


def run_sitebatch_case(ctx, case):
    hy = _hy()
    ids, k = case["ids"], case["k"]
    ctx.tag("sitebatch")
    ctx.evaluated()
    sb = hy.SiteBatch(ids, k)
    ctx.api("SiteBatch")
    content = [sb[i] for i in range(k)]
    flat = [s for b in content for s in b]
    ctx.check("sitebatch.partition", flat == list(ids), "SiteBatch|partition", case,
              {"flat": flat[:20]})
    for i, b in enumerate(content):
        for s in b:
            r = sb.search(s)
            ctx.check("sitebatch.search", r == i, "SiteBatch|search", case,
                      {"site": s, "expected": i, "got": r})
    # the same object asked again after its number of batches was changed (public
    # attribute): contents and search follow the new partition
    n = len(ids)
    for k2 in sorted({1, n, max(1, k // 2), min(n, k + 1), min(n, 2 * k)} - {k})[:3]:
        ctx.tag("sitebatch:nbatch-changed-after-use")
        ctx.api("SiteBatch")
        try:
            sb.nbatch = k2
            content2 = [sb[i] for i in range(k2)]
        except Exception as e:
            ctx.extra["sitebatch-nbatch-not-assignable:" + type(e).__name__] += 1
            break
        flat2 = [s_ for b in content2 for s_ in b]
        sizes = [len(b) for b in content2]
        ctx.check("sitebatch.partition", flat2 == list(ids) and max(sizes) - min(sizes) <= 1,
                  "SiteBatch|partition|after-nbatch-changed", case,
                  {"nbatch": k2, "sizes": sizes[:10]})
        badr = [(s_, i, sb.search(s_)) for i, b in enumerate(content2) for s_ in b
                if sb.search(s_) != i]
        ctx.check("sitebatch.search", not badr, "SiteBatch|search|after-nbatch-changed",
                  case, lambda: {"nbatch_before": k, "nbatch_now": k2,
                                 "site,batch,search": badr[:5]})
    if k >= 2:
        ctx.nontrivial("sb", ids, k)


# -------------------------------------------------------------- OptionManager ----
WORD_NAMES = ["exact", "pattern", "key", "value", "values", "taskid", "task", "tasks",
              "options", "option", "kwargs", "args", "regex", "match", "flags", "strict",
              "item", "items", "index", "other", "dd", "n", "id", "type", "cls"]


def gen_options(rng, ctx):
    nopt = int(rng.integers(1, 5))
    names = list(rng.choice(["alpha", "beta", "month", "model", "k", "site_id",
                             "x1", "opt"], size=nopt, replace=False))
    if rng.random() < 0.35:
        # option names that are ordinary words - and happen to be the names programmers
        # give to parameters and local variables
        ctx.tag("opm:option-named-like-a-parameter")
        names[int(rng.integers(0, nopt))] = str(rng.choice(WORD_NAMES))
    opts = {}
    for nm in names:
        nv = int(rng.integers(1, 6))
        r = rng.random()
        if r < 0.15:
            # bare scalar
            v = [int(rng.integers(-5, 20)), "single", 2.5][int(rng.integers(0, 3))]
            opts[str(nm)] = v
            ctx.tag("opm:bare-scalar")
        elif r < 0.25:
            # one option whose values are of different kinds
            ctx.tag("opm:mixed-kinds")
            opts[str(nm)] = [[1, "base", 2], [1, 2.5], ["a", 3, 4.5, "b"],
                             [0, "zero", 10]][int(rng.integers(0, 4))]
        elif r < 0.6:
            pool = [1, 10, 11, 100, 101, -1, -10, 0, 2, 21, 12, 5, 7]
            if rng.random() < 0.5:
                ctx.tag("opm:prefix-values")
                vals = [int(v) for v in rng.choice(pool, size=nv, replace=False)]
            else:
                vals = [int(v) for v in rng.choice(np.arange(-50, 50), size=nv,
                                                   replace=False)]
            opts[str(nm)] = vals
        else:
            pool = ["a", "ab", "abc", "b", "ba", "gr4j", "gr4j_v2", "GR4J", "x",
                    "x_1", "x_10", "model1", "model10", "m",
                    # values made of words joined by underscores: the end of one may be
                    # the start of another option's value
                    "north_east", "north", "east_wheat", "wheat", "east", "north_east_wheat",
                    # identifier-like words that also read as numbers
                    "nan", "NaN", "inf", "none", "true", "1e3"]
            vals = [str(v) for v in rng.choice(pool, size=nv, replace=False)]
            ctx.tag("opm:prefix-values")
            opts[str(nm)] = vals
    return opts


def as_list(v):
    return [v] if isinstance(v, (str, int, float)) else list(v)


def run_opm(ctx):
    rng = ctx.rng(3)
    nrep = 60 if ctx.tier == "quick" else 3000
    fixed = [
        {"area": ["north_east", "north"], "crop": ["wheat", "east_wheat"], "year": [1, 2]},
        {"a": ["x_y", "x"], "b": ["z", "y_z"], "c": ["y", "x_y_z"]},
        {"fill": ["zero", "mean", "nan"], "k": [1, 2]},
        {"fill": "NaN", "mode": ["inf", "-inf", "1e3"], "switch": ["true", "none"]},
        {"site_id": ["410730", "41073", "0"], "model": ["gr4j_v2", "gr4j", "v2"]},
    ]
    for it in range(nrep):
        opts = gen_options(rng, ctx)
        if it < len(fixed) and ctx.shard % 4 == 0:
            opts = fixed[it]
            ctx.tag("opm:values-that-collide-when-joined-or-parsed")
        context = {}
        if rng.random() < 0.6:
            context = {"folder": "/a/b", "nval": int(rng.integers(0, 100))}
            if rng.random() < 0.5:
                context["flag"] = bool(rng.integers(0, 2))
            if rng.random() < 0.5:
                # structured context values: nested and ragged lists, dictionaries, None
                ctx.tag("opm:structured-context")
                pool = [[[1], [2, 3]], [1, [2, 3]], [[], ["a"]], [[1, 2], [3, 4]],
                        {"a": [1, [2]], "b": None}, None, [], [None, 1], "",
                        [[1.5, 2.5, 3.5], [4.5]], {"nested": {"deep": [[0], [1, 2]]}}]
                for nm_ in ("windows", "extra")[:int(rng.integers(1, 3))]:
                    context[nm_] = pool[int(rng.integers(0, len(pool)))]
        if it % 4 == 1 and opts:
            # a context item named like one of the options (the run's own "month" next
            # to the option "month"): the option is what tasks and searches are about
            k0 = list(opts.keys())[it // 4 % len(opts)]
            v0 = as_list(opts[k0])
            context[k0] = [v0[0], v0[-1], "other", 12345][it // 8 % 4]
            ctx.tag("opm:context-item-named-like-an-option")
        rename = None
        if rng.random() < 0.3:
            rename = {"context_name": "config", "task_options_name": "opts",
                      "manager_options_name": "all_opts"}
            if rng.random() < 0.5:
                rename.pop("manager_options_name")
        case = {"kind": "opm", "options": opts, "context": context,
                "rename": rename}
        run_opm_case(ctx, case)
        if it % 50 == 0:
            ctx.sample(case)


def _reverse_keys(o):
    if isinstance(o, dict):
        return {k: _reverse_keys(o[k]) for k in reversed(list(o.keys()))}
    if isinstance(o, list):
        return [_reverse_keys(v) for v in o]
    return o


def run_opm_case(ctx, case):
    hy = _hy()
    opts, context, rename = case["options"], case["context"], case["rename"]
    ctx.evaluated()
    opm = hy.OptionManager("verif", **context)
    if case.get("rebuild", (len(str(opts)) % 3 == 0)):
        # the manager already enumerated another grid (other names, other sizes)
        ctx.tag("opm:rebuilt-manager")
        opm.from_cartesian_product(zz_other=[1, 2, 3], **{k: as_list(v)[:1]
                                                          for k, v in opts.items()})
        opm.from_cartesian_product(**opts)
    elif len(str(opts)) % 3 == 1:
        # ... or a grid with the same names and the same number of tasks but other
        # values, and was searched before being rebuilt
        ctx.tag("opm:rebuilt-same-size")
        alt = {k: [f"zz{j}" if isinstance(x, str) else 100000 + j
                   for j, x in enumerate(as_list(v))] for k, v in opts.items()}
        try:
            opm.from_cartesian_product(**alt)
            k0 = list(alt)[0]
            opm.find(**{k0: alt[k0][0]})
            if opm.ntasks:
                opm.get_task(0)
        except Exception:
            pass
    opm.from_cartesian_product(**opts)
    ctx.api("from_cartesian_product")
    keys = list(opts.keys())
    lists = [as_list(opts[k]) for k in keys]
    expected = [dict(zip(keys, t)) for t in itertools.product(*lists)]
    ctx.tag("opm:product")

    def canon(d):
        return json.dumps(d, sort_keys=True)

    got = []
    for tid in range(opm.ntasks):
        t = opm.get_task(tid)
        ctx.api("get_task")
        got.append({k: t[k] for k in keys})
        ctx.check("opm.task-context", all(t[k] == v for k, v in context.items()
                                          if k not in keys),
                  "OptionManager|task-context", case, {"taskid": tid})
    ctx.check("opm.ntasks", opm.ntasks == len(expected), "OptionManager|ntasks",
              case, {"ntasks": opm.ntasks, "expected": len(expected)})
    ctx.check("opm.product-multiset",
              Counter(map(canon, got)) == Counter(map(canon, expected)),
              "OptionManager|product", case,
              lambda: {"got": got[:10], "expected": expected[:10]})
    if len(expected) >= 2:
        ctx.nontrivial("opm", canon(opts), canon(context), canon(rename))

    # find
    for k in keys:
        for v in lists[keys.index(k)]:
            ctx.tag("opm:find")
            want = [i for i, t in enumerate(opm.tasks) if t[k] == v]
            try:
                r = opm.find(**{k: v})
            except Exception as e:
                r = repr(e)
            ctx.api("find")
            ctx.check("opm.find", r == want, "OptionManager|find", case,
                      {"key": k, "value": v, "got": r if isinstance(r, str) else r[:20],
                       "want": want[:20]})
    # several criteria at once (all the options of a task; pairs of options), also
    # when two options ask for values with the same text
    for tid in range(min(opm.ntasks, 6)):
        t = opm.get_task(tid)
        crit = {k: t[k] for k in keys}
        subsets = [crit] + [{a: crit[a], b: crit[b]} for a, b in
                            itertools.combinations(keys, 2)][:6]
        for cr in subsets:
            if len(cr) < 2:
                continue
            ctx.tag("opm:find-multi")
            if len(set(str(v) for v in cr.values())) < len(cr):
                ctx.tag("opm:find-multi-equal-values")
            want = [i for i, tt in enumerate(opm.tasks)
                    if all(tt[k] == v for k, v in cr.items())]
            try:
                r = opm.find(**cr)
            except Exception as e:
                r = repr(e)
            ctx.api("find")
            ctx.check("opm.find-multi", r == want, "OptionManager|find|several-criteria",
                      case, {"criteria": {k: repr(v) for k, v in cr.items()},
                             "got": r if isinstance(r, str) else r[:20], "want": want[:20]})
    # a value that is absent from the option must find nothing
    for k, lst in zip(keys, lists):
        absent = 987654 if isinstance(lst[0], (int, float)) else "zzz_absent"
        try:
            r = opm.find(**{k: absent})
        except Exception as e:
            r = repr(e)
        ctx.check("opm.find-absent", r == [], "OptionManager|find-absent", case,
                  {"key": k, "value": absent, "got": r})

    # dictionary / JSON round trip (optionally with renamed keys)
    try:
        if rename:
            ctx.tag("opm:roundtrip-renamed")
            for a, b in rename.items():
                hy.set_dict_keyname(a, b)
        ctx.tag("opm:roundtrip")
        dd = opm.to_dict()
        js = json.dumps(dd)
        dd2 = json.loads(js)
        opm2 = hy.OptionManager.from_dict(dd2)
        ctx.api("to_dict/from_dict")
        e1 = (opm == opm2)
        e2 = (opm2 == opm)
        ctx.check("opm.roundtrip-eq", e1 is True and e2 is True,
                  "OptionManager|roundtrip-eq", case, {"a==b": e1, "b==a": e2})
        # independent of __eq__: compare the observable state field by field
        same = (opm2.ntasks == opm.ntasks and
                [canon(t) for t in opm2.tasks] == [canon(t) for t in opm.tasks] and
                canon(opm2.context) == canon(opm.context) and
                canon({k: as_list(v) for k, v in opm2.options.items()}) ==
                canon({k: as_list(v) for k, v in opm.options.items()}))
        ctx.check("opm.roundtrip-state", same, "OptionManager|roundtrip-state",
                  case, lambda: {"dict": dd2})
        # JSON written by another tool: object keys sorted, or listed in reverse order
        for how, txt in (("sorted-keys", json.dumps(dd, sort_keys=True)),
                         ("reversed-keys", json.dumps(_reverse_keys(dd)))):
            opm_s = hy.OptionManager.from_dict(json.loads(txt))
            ctx.tag("opm:json-key-order")
            ctx.api("to_dict/from_dict")
            es1, es2 = (opm == opm_s), (opm_s == opm)
            ctx.check("opm.roundtrip-eq", es1 is True and es2 is True,
                      "OptionManager|roundtrip-eq|json-key-order", case,
                      {"order": how, "a==b": es1, "b==a": es2})
        # the copy made through the dictionary (no JSON text in between) is then given
        # another grid with the public method: the original enumerates what it did
        # (the two objects do share their dictionaries in the unchanged library; editing
        # those directly is the caller's own doing and is not tried)
        opm3 = hy.OptionManager.from_dict(opm.to_dict())
        before = ([canon(t) for t in opm.tasks],
                  canon({k: as_list(v) for k, v in opm.options.items()}),
                  canon(opm.context))
        opm3.from_cartesian_product(zz_other=[1, 2, 3], zz_more=["u", "v"])
        after = ([canon(t) for t in opm.tasks],
                 canon({k: as_list(v) for k, v in opm.options.items()}),
                 canon(opm.context))
        ctx.tag("opm:copy-rebuilt")
        ctx.api("to_dict/from_dict")
        ctx.check("opm.copy-independent", before == after,
                  "OptionManager|changed-when-its-dictionary-copy-is-rebuilt", case,
                  lambda: {"options_now": sorted(opm.options.keys())})
        if rename:
            names = set(dd.keys())
            want = {"name", "tasks", rename.get("context_name", "context"),
                    rename.get("manager_options_name", "options")}
            ctx.check("opm.renamed-keys", names == want,
                      "OptionManager|renamed-keys", case, {"keys": sorted(names)})
    finally:
        hy.reset_dict_keyname()
    # an old file written with other key names is read, the names are set back to the
    # current ones, and the manager is written again (what the renaming is for): the
    # new dictionary uses the names in force when it is written and reads back equal
    try:
        hy.set_dict_keyname("context_name", "legacy_cfg")
        hy.set_dict_keyname("manager_options_name", "legacy_grid")
        legacy = opm.to_dict()
        imported = hy.OptionManager.from_dict(json.loads(json.dumps(legacy)))
        hy.reset_dict_keyname()
        d_now = imported.to_dict()
        again = hy.OptionManager.from_dict(json.loads(json.dumps(d_now)))
        ctx.tag("opm:read-legacy-names-write-current")
        ctx.api("to_dict/from_dict", 2)
        ek1, ek2 = (opm == again), (again == opm)
        samek = (canon(again.context) == canon(opm.context) and
                 [canon(t) for t in again.tasks] == [canon(t) for t in opm.tasks] and
                 canon({k: as_list(v) for k, v in again.options.items()}) ==
                 canon({k: as_list(v) for k, v in opm.options.items()}))
        ctx.check("opm.keynames-sequence", ek1 is True and ek2 is True and samek and
                  "legacy_cfg" not in d_now and "legacy_grid" not in d_now,
                  "OptionManager|roundtrip-after-key-names-changed", case,
                  lambda: {"keys_written": sorted(d_now.keys()), "a==b": ek1, "b==a": ek2,
                           "context_back": canon(again.context)})
    except Exception as e:
        ctx.check("opm.keynames-sequence", False,
                  "OptionManager|roundtrip-after-key-names-changed|raises", case,
                  {"exc": repr(e)[:200]})
    finally:
        hy.reset_dict_keyname()
    # a manager that differs must not compare equal
    if opm.ntasks >= 2:
        other = hy.OptionManager("verif", **context)
        other.from_cartesian_product(**opts)
        other.tasks = other.tasks[:-1]
        ctx.check("opm.neq-detects", not (opm == other) and not (other == opm),
                  "OptionManager|eq-too-weak", case, None)
    # invalid task ids are rejected
    for bad in (-1, opm.ntasks):
        try:
            opm.get_task(bad)
            ctx.check("opm.get_task-reject", False, "OptionManager|get_task-accepts",
                      case, {"taskid": bad})
        except Exception:
            ctx.check("opm.get_task-reject", True)


def run(ctx):
    run_batches(ctx)
    run_sitebatch(ctx)
    run_opm(ctx)


def replay(ctx, case):
    k = case["kind"]
    if k == "batch":
        check_partition(ctx, case["n"], case["k"], case)
    elif k == "batch_reject":
        hy = _hy()
        try:
            r = hy.get_batch(case["n"], case["k"], case["i"])
            ctx.check("batch.reject", False, "get_batch|accepts-invalid", case,
                      {"returned": r})
        except Exception:
            ctx.check("batch.reject", True)
    elif k == "sitebatch":
        run_sitebatch_case(ctx, case)
    elif k == "opm":
        run_opm_case(ctx, case)
    ctx.evaluated()
