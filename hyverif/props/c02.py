"""C02 - the Jacobian is the derivative of forward, and forward is increasing.

Monitor: every observed jacobian(x) is compared with a 5-point central difference of
the implementation's own forward (power-of-two steps, self-validated by Richardson
and an a-priori round-off bound); ordered pairs of observed forward values are
checked for monotonicity."""
import math
import warnings

import numpy as np

from hyverif.core import digest, same_result, _first_diff

from hyverif.oracles import transforms_ref as tr

ID = "C02"
SHARDS = {"quick": 16, "thorough": 16}
BUDGET = {"quick": 300, "thorough": 1800}
RULE = ("parameter vectors as in C01 (incl. exact branch values and constructor "
        "options); stencil points inside one smooth branch (distance to the nearest "
        "singularity / branch switch from the reference, step h = 2^k ~ d/1024 so "
        "that x +- h, x +- 2h are exactly representable); a stencil is judged only "
        "if the estimates at 2h, h and h/2 agree to 1e-5 and the a-priori round-off "
        "bound (from the formula of forward) is below 1e-5; ordered pairs from "
        "sorted arrays incl. adjacent floats. Non-trivial: a validated stencil with "
        "|jacobian - 1| > 1e-3 or class != Identity; distinct by (class, parameters, "
        "x).")
ASSUMPTIONS = [
    "stencil validity is decided from observed forward values only, never from "
    "the Jacobian",
    "monotonicity: f(x1) <= f(x2) + 4 ulp + 8 eps x (magnitude of forward's largest "
    "intermediate result, from its formula) for x1 < x2; strict increase required "
    "when the analytic increment exceeds 1e3 ulp of the values and the points are "
    "separated by more than 1e-6 x max(|x|, natural scale)",
    "Logit: the Jacobian is only required EPS = 1e-10 inside the bounds (the "
    "implementation's documented guard)",
    "Softmax: determinant of the central-difference matrix of partial derivatives, "
    "1..5 components",
]
OBLIGATIONS = {}
for _c in tr.CLASSES:
    OBLIGATIONS["class:" + _c] = 30
OBLIGATIONS.update({"branch:power-lam": 50, "branch:yj-lam": 50,
                    "branch:manly-lam0": 10, "monotone-pairs": 1000,
                    "adjacent-floats": 50, "jacobian-before-forward": 100,
                    "clipped-request": 100, "softmax:buffer-refilled": 10,
                    "mixed-domain-array": 100,
                    "monotone:reused-object": 100})


def call(fn, *a):
    with warnings.catch_warnings():
        warnings.simplefilter("ignore")
        with np.errstate(all="ignore"):
            return fn(*a)


def pow2_step(d):
    d = np.asarray(d, dtype=float)
    with np.errstate(all="ignore"):
        k = np.floor(np.log2(d)) - 10
    return np.exp2(k)


def stencil(t, x, h):
    f = lambda v: np.asarray(call(t.forward, np.ascontiguousarray(v)), dtype=float)
    fp2, fp1, fm1, fm2 = f(x + 2 * h), f(x + h), f(x - h), f(x - 2 * h)
    D = (-fp2 + 8 * fp1 - 8 * fm1 + fm2) / (12 * h)
    mag = np.maximum.reduce([np.abs(fp2), np.abs(fp1), np.abs(fm1), np.abs(fm2)])
    return D, mag


REQUESTS = [-1e30, -2.0, -1e-12, 0.0, 1e30]
XPROBE = np.array([-47.0, -3.3, -0.7, -0.013, 0.013, 0.7, 1.0, 3.3, 47.0])


def run_clipped_requests(ctx, case):
    """The bounds a class enforces are what keeps every branch increasing: whatever
    value is requested for a parameter (through get_transform, item or attribute
    assignment), the value the object ends up holding must still give a strictly
    positive Jacobian wherever the Jacobian is defined."""
    from hydrodiy.stat import transform
    name = case["class"]
    ctor = case["ctor"]
    try:
        t0 = transform.get_transform(name, **ctor)
    except Exception:
        return
    pnames = [str(n) for n in t0.params.names]
    for pn in pnames:
        for req in REQUESTS:
            for how in ("kwarg", "item", "attr"):
                try:
                    with warnings.catch_warnings():
                        warnings.simplefilter("ignore")
                        if how == "kwarg":
                            t = transform.get_transform(name, **dict(ctor, **{pn: req}))
                        else:
                            t = transform.get_transform(name, **ctor)
                            if how == "item":
                                t[pn] = req
                            else:
                                setattr(t, pn, req)
                        held = float(t[pn])
                        x = XPROBE / 10.0 + 0.5 if name == "Logit" else XPROBE
                        J = np.asarray(call(t.jacobian, x.copy()), dtype=float)
                        y = np.asarray(call(t.forward, x.copy()), dtype=float)
                except Exception:
                    ctx.extra["clipped-request:refused"] += 1
                    continue
                ctx.api(f"{name}.jacobian")
                ctx.tag("clipped-request")
                fin = np.isfinite(J) & np.isfinite(y)
                bad = np.where(fin & ~(J > 0))[0]
                ctx.evaluated(int(fin.sum()))
                ctx.check("jacobian.positive-after-out-of-range-request", len(bad) == 0,
                          f"{name}|out-of-range-request|jacobian-not-positive", case,
                          lambda: {"parameter": pn, "requested": req, "held": held,
                                   "via": how, "x": float(x[bad[0]]),
                                   "jacobian": float(J[bad[0]])})


def run_config(ctx, case):
    name = case["class"]
    ctor, par = case["ctor"], case["params"]
    rng = np.random.default_rng(int(case["seed"]))
    ctx.evaluated()
    if int(case["seed"]) % 8 == 0 and name != "Softmax":
        run_clipped_requests(ctx, case)
    try:
        t, actual = tr.make(name, ctor, par)
    except Exception as e:
        ctx.check("construct", False, f"{name}|construct-raises", case,
                  {"exc": repr(e)})
        return
    ref = tr.Ref(name, ctor, actual)
    if not ref.in_region():
        return
    if name == "Softmax":
        return run_softmax(ctx, t, case, rng)
    btag = None
    if name in tr.POWER_FAMILY and abs(actual["lam"]) <= 1e-6:
        btag = "branch:power-lam"
    if name == "YeoJohnson" and case.get("tag") == "lam-branch":
        btag = "branch:yj-lam"
    if name == "Manly" and actual["lam"] == 0:
        btag = "branch:manly-lam0"
    x = ref.sample(rng, case.get("npts", 120))
    if x is None or len(x) == 0:
        return
    x = np.ascontiguousarray(np.unique(x), dtype=np.float64)
    d = ref.branch_distance(x)
    ok = np.isfinite(d) & (d > 0)
    h = pow2_step(np.where(ok, d, 1.0))
    # far from the origin the spacing of the doubles may exceed that step (a narrow
    # interval on a large offset): the step is then the smallest one whose half is still
    # a whole number of spacings, provided the widest stencil (x +- 4 * 2h) stays well
    # inside the branch
    sp = 2.0 * np.spacing(np.abs(x))
    coarse = sp > h
    h = np.where(coarse, sp, h)
    ok &= ~coarse | (16 * h < d)
    # exact representability of the stencil abscissae
    ok &= ((x + 2 * h) - x == 2 * h) & (x - (x - 2 * h) == 2 * h) & \
        ((x + h) - x == h) & (x - (x - h) == h)
    # stay inside the stated conditioning region
    x = x[ok]
    h = h[ok]
    if len(x) == 0:
        return
    ctx.evaluated(len(x))
    ctx.api(f"{name}.forward", 9)
    ctx.api(f"{name}.jacobian", 3)
    # the Jacobian of a freshly configured object, asked for BEFORE any forward /
    # backward call, and the Jacobian of an object that was used with other
    # parameters first: both must be the derivative of the current forward
    Jfresh = Jreused = None
    t_reused = None
    try:
        Jfresh = np.asarray(call(t.jacobian, x.copy()), dtype=float)
        _, hpar, _ = tr.gen_config(np.random.default_rng(int(case["seed"]) + 1), name,
                                   int(case["seed"]) % 97)
        hpar = {k: v for k, v in hpar.items() if k in par}
        if hpar:
            t2, _ = tr.make(name, ctor, hpar)
            call(t2.forward, x.copy())
            call(t2.jacobian, x.copy())
            for k, v in par.items():
                t2[k] = v
            a2 = {str(n): float(v) for n, v in zip(t2.params.names, t2.params.values)}
            a2.update({str(n): float(v) for n, v in zip(t2.constants.names,
                                                        t2.constants.values)})
            if a2 == actual:
                Jreused = np.asarray(call(t2.jacobian, x.copy()), dtype=float)
                t_reused = t2
    except Exception as e:
        ctx.check("jacobian.runs", False, f"{name}|jacobian-first-raises", case,
                  {"exc": repr(e), "params": actual})
    try:
        D0, _ = stencil(t, x, 2 * h)
        D1, mag = stencil(t, x, h)
        D2, _ = stencil(t, x, h / 2)
        J = np.asarray(call(t.jacobian, x.copy()), dtype=float)
        y0 = np.asarray(call(t.forward, x.copy()), dtype=float)
    except Exception as e:
        ctx.check("jacobian.runs", False, f"{name}|raises", case,
                  {"exc": repr(e), "params": actual})
        return
    # the same points in another memory layout / container: same Jacobian
    with np.errstate(all="ignore"):
        aj = float(np.nanmax(np.abs(J[np.isfinite(J)]), initial=0.0))
    if name not in ("Identity", "Sinh", "Manly", "YeoJohnson") and len(x) >= 3:
        # an array that also holds points outside the domain (first, in the middle and
        # last): the interior points get the same Jacobian / forward value as before
        outside = {"Logit": [ref.lower - 1.0, ref.lower, ref.lower + ref.delta,
                             ref.lower + ref.delta + 2.0] if name == "Logit" else None,
                   }.get(name) or [-(abs(actual.get("nu", 1.0)) + 1.0) * 3.0 - 1e6,
                                   float("nan"), float("-inf")]
        pos = sorted(set([0, len(x) // 2, len(x)]))
        xm = np.insert(x, pos, [outside[i % len(outside)] for i in range(len(pos))])
        keep = np.ones(len(xm), dtype=bool)
        keep[[p_ + i for i, p_ in enumerate(pos)]] = False
        ctx.tag("mixed-domain-array")
        ctx.api(f"{name}.jacobian")
        ctx.api(f"{name}.forward")
        Jm = np.asarray(call(t.jacobian, xm.copy()), dtype=float)
        ym = np.asarray(call(t.forward, xm.copy()), dtype=float)
        okm = Jm.shape == xm.shape and same_result(Jm[keep], J, 1e-13) and \
            same_result(ym[keep], y0, 1e-13)
        ctx.check("interior-unaffected-by-outside-points", okm,
                  f"{name}|interior-values-change-when-array-holds-outside-points", case,
                  lambda: {"first_diff_jacobian": _first_diff(Jm[keep], J),
                           "first_diff_forward": _first_diff(ym[keep], y0)})
    if int(case["seed"]) % 3 == 0:
        with np.errstate(all="ignore"):
            ay0 = float(np.nanmax(np.abs(y0[np.isfinite(y0)]), initial=0.0))
        ctx.shapes(f"{name}.jacobian", lambda x_: call(t.jacobian, x_), x, J, case,
                   rtol=1e-9, atol=1e-12 * aj)
        ctx.shapes(f"{name}.forward", lambda x_: call(t.forward, x_), x, y0, case,
                   rtol=1e-9, atol=1e-10 * (ay0 + 1))
    ctx.presentations(f"{name}.jacobian",
                      lambda x_: np.asarray(call(t.jacobian, x_), dtype=float), [x], J,
                      case, np.random.default_rng(digest(x) % 2 ** 32), n=1, rtol=1e-9,
                      atol=1e-12 * aj)
    with np.errstate(all="ignore"):
        rich = np.maximum(np.abs(D1 - D2), np.abs(D0 - D1)) / np.abs(D2)
        fm = np.maximum(ref.fmag(x, y0), mag)
        roundoff = 4 * 2.0 ** -52 * fm / (h * np.abs(D2))
    valid = np.isfinite(D0) & np.isfinite(D1) & np.isfinite(D2) & (D2 != 0) & \
        (rich <= 1e-5) & (roundoff <= 1e-5) & np.isfinite(fm)
    ctx.extra["stencils-validated"] += int(valid.sum())
    ctx.extra["stencils-skipped"] += int((~valid).sum())
    ctx.tag("class:" + name, int(valid.sum()))
    if btag:
        ctx.tag(btag, int(valid.sum()))
    keyb = f"{name}|" + (btag.split(":")[1] if btag else "regular")
    with np.errstate(all="ignore"):
        rel = np.abs(J - D2) / np.abs(D2)
    bad = np.where(valid & ~(rel <= 1e-4))[0]
    ctx.count("jacobian.points", int(valid.sum()))
    ctx.check("jacobian.is-derivative", len(bad) == 0, keyb + "|jacobian-vs-derivative",
              case, lambda: {"x": float(x[bad[0]]), "jacobian": float(J[bad[0]]),
                             "finite_difference": float(D2[bad[0]]),
                             "h": float(h[bad[0]]), "params": actual, "ctor": ctor})
    for label, Jx in (("fresh-object", Jfresh), ("reused-object", Jreused)):
        if Jx is None or Jx.shape != J.shape:
            continue
        ctx.tag("jacobian-before-forward")
        same = (Jx == J) | (np.isnan(Jx) & np.isnan(J))
        badh = np.where(~same)[0]
        ctx.check("jacobian.history-independent", len(badh) == 0,
                  f"{name}|jacobian-depends-on-call-history|{label}", case,
                  lambda: {"x": float(x[badh[0]]), "jacobian_first": float(Jx[badh[0]]),
                           "jacobian_after_forward": float(J[badh[0]]),
                           "params": actual})
    # positivity / definedness on the whole (interior) sample
    badp = np.where(~(J > 0))[0]
    ctx.check("jacobian.positive", len(badp) == 0, keyb + "|jacobian-not-positive",
              case, lambda: {"x": float(x[badp[0]]), "jacobian": float(J[badp[0]]),
                             "params": actual, "ctor": ctor})
    for i in np.where(valid)[0][:30]:
        if name != "Identity" or abs(J[i] - 1) > 1e-3:
            ctx.nontrivial(name, repr(sorted(actual.items())), float(x[i]))
    # ---- monotonicity on ordered pairs of observed forward values
    xs = np.sort(ref.sample(rng, case.get("npts", 120)))
    xs = np.unique(xs)
    if len(xs) >= 2:
        # add adjacent floats
        extra = np.nextafter(xs[:: max(1, len(xs) // 10)], np.inf)
        xs2 = np.unique(np.concatenate([xs, extra]))
        ctx.tag("adjacent-floats", len(extra))
        ys = np.asarray(call(t.forward, xs2.copy()), dtype=float)
        if t_reused is not None:
            # an object that served other parameters first (forward and Jacobian
            # called), then got the present ones item by item, is the same function
            ctx.tag("monotone:reused-object", len(xs2))
            ysr = np.asarray(call(t_reused.forward, xs2.copy()), dtype=float)
            with np.errstate(all="ignore"):
                dif = np.where(~((ysr == ys) | (np.isnan(ysr) & np.isnan(ys)) |
                                 (np.abs(ysr - ys) <= 1e-13 * np.abs(ys))))[0]
            ctx.check("forward.history-independent", len(dif) == 0,
                      f"{name}|forward-depends-on-call-history", case,
                      lambda: {"x": float(xs2[dif[0]]), "fresh_object": float(ys[dif[0]]),
                               "reused_object": float(ysr[dif[0]]), "params": actual})
        fin = np.isfinite(ys)
        # interior points of the domain (as the Jacobian defines it): forward must
        # give a value there, otherwise "increasing" is meaningless
        inter = ref.branch_distance(xs2) > 0
        badf = np.where(inter & ~fin)[0]
        ctx.check("forward.defined-in-domain", len(badf) == 0,
                  keyb + "|forward-not-finite-in-domain", case,
                  lambda: {"x": float(xs2[badf[0]]), "forward": float(ys[badf[0]]),
                           "params": actual, "ctor": ctor})
        xs2, ys = xs2[fin], ys[fin]
        if len(xs2) >= 2:
            ctx.tag("monotone-pairs", len(xs2) - 1)
            dy = np.diff(ys)
            ulps = np.spacing(np.maximum(np.abs(ys[1:]), np.abs(ys[:-1])))
            # rounding allowance of forward itself (from its formula): a few eps
            # of the largest intermediate result
            fmg = ref.fmag(xs2, ys)
            fmg = np.where(np.isfinite(fmg), fmg, np.abs(ys))
            ulps = 4 * ulps + 8 * 2.0 ** -52 * (fmg[1:] + fmg[:-1])
            badm = np.where(dy < -ulps)[0]
            ctx.check("forward.nondecreasing", len(badm) == 0,
                      keyb + "|forward-decreases", case,
                      lambda: {"x1": float(xs2[badm[0]]), "x2": float(xs2[badm[0] + 1]),
                               "f1": float(ys[badm[0]]), "f2": float(ys[badm[0] + 1]),
                               "params": actual, "ctor": ctor})
            # strictness where the analytic increment is far above rounding
            fp = ref.deriv(xs2[:-1])
            fp2 = ref.deriv(xs2[1:])
            with np.errstate(all="ignore"):
                inc = np.minimum(fp, fp2) * np.diff(xs2)
            # only inside one smooth branch: both ends on the same side
            bd1 = ref.branch_distance(xs2[:-1])
            # ... and only for pairs separated by more than 1e-6 (relative to the
            # natural scale): closer pairs may legitimately collide through the
            # rounding of forward's own intermediate results
            sep = np.diff(xs2) >= 1e-6 * np.maximum(np.abs(xs2[:-1]), ref.scale_x())
            need = np.isfinite(inc) & (inc > 1e3 * ulps) & (np.diff(xs2) < bd1) & sep
            bads = np.where(need & ~(dy > 0))[0]
            ctx.check("forward.strict", len(bads) == 0, keyb + "|forward-flat", case,
                      lambda: {"x1": float(xs2[bads[0]]), "x2": float(xs2[bads[0] + 1]),
                               "f1": float(ys[bads[0]]), "f2": float(ys[bads[0] + 1]),
                               "params": actual})


def run_softmax(ctx, t, case, rng):
    for rep in range(15):
        k = int(rng.integers(1, 6))
        x = rng.dirichlet(np.ones(k + 1) * 2.0)[:k]
        x = np.maximum(x, 1e-3)
        if x.sum() > 0.95:
            continue
        ctx.tag("class:Softmax")
        h = 2.0 ** -20
        M = np.zeros((k, k))
        for j in range(k):
            e = np.zeros(k)
            e[j] = h
            fp2 = np.asarray(call(t.forward, (x + 2 * e)[None, :]))[0]
            fp1 = np.asarray(call(t.forward, (x + e)[None, :]))[0]
            fm1 = np.asarray(call(t.forward, (x - e)[None, :]))[0]
            fm2 = np.asarray(call(t.forward, (x - 2 * e)[None, :]))[0]
            M[:, j] = (-fp2 + 8 * fp1 - 8 * fm1 + fm2) / (12 * h)
        det = float(np.linalg.det(M))
        ctx.api("Softmax.jacobian")
        J = float(np.asarray(call(t.jacobian, x[None, :])).ravel()[0])
        ctx.count("jacobian.points", 1)
        ctx.check("jacobian.is-derivative", abs(J - det) <= 1e-4 * abs(det) and J > 0,
                  "Softmax|regular|jacobian-vs-derivative", case,
                  lambda: {"x": x.tolist(), "jacobian": J, "fd_determinant": det})
        ctx.evaluated(1)
        ctx.nontrivial("Softmax", x)
        # one work buffer: forward on it, refill it in place with another point, then
        # ask for the Jacobian there (no forward in between)
        if rep % 3 == 0:
            x2 = rng.dirichlet(np.ones(k + 1) * 2.0)[:k]
            x2 = np.maximum(x2, 1e-3)
            if x2.sum() <= 0.95:
                buf = np.ascontiguousarray(x[None, :].copy())
                call(t.forward, buf)
                buf[...] = x2[None, :]
                jb = float(np.asarray(call(t.jacobian, buf)).ravel()[0])
                jf = float(np.asarray(call(t.jacobian, x2[None, :].copy())).ravel()[0])
                ctx.tag("softmax:buffer-refilled")
                ctx.api("Softmax.jacobian", 2)
                ctx.check("jacobian.refilled-buffer", abs(jb - jf) <= 1e-12 * abs(jf),
                          "Softmax|jacobian|stale-after-buffer-was-refilled", case,
                          lambda: {"x_before": x.tolist(), "x_now": x2.tolist(),
                                   "jacobian_same_buffer": jb, "jacobian_fresh": jf})


def run(ctx):
    rng = ctx.rng(1)
    nrep = 12 if ctx.tier == "quick" else 300
    npts = 120 if ctx.tier == "quick" else 2000
    for it0 in range(nrep):
        it = it0 * ctx.nshards + ctx.shard
        for name in tr.CLASSES:
            if ctx.out_of_time():
                ctx.notes.append(f"stopped at {it0}")
                return
            ctor, par, tag = tr.gen_config(rng, name, it)
            case = {"kind": "config", "class": name, "ctor": ctor, "params": par,
                    "tag": tag, "seed": int(rng.integers(0, 2 ** 31)), "npts": npts}
            run_config(ctx, case)
            if it0 == 0 and ctx.shard < 3 and name in ("LogSinh", "Logit"):
                ctx.sample({k: case[k] for k in ("class", "ctor", "params", "tag")})


def replay(ctx, case):
    run_config(ctx, case)
