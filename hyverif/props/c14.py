"""C14 - variable-to-fixed time-step conversion is the exact period average.

Monitor: exact rational integrator of the piecewise-linear interpolant (or of the
prorated rainfall increments) evaluated for every period of every observed call of
dutils.var2h; metamorphic replay of each series under 4 storage units x 3 time
zones."""
import math
import os
import warnings
from fractions import Fraction

import numpy as np

from hyverif.core import same_result, scalar_forms, size_edges

ID = "C14"
SHARDS = {"quick": 8, "thorough": 16}
BUDGET = {"quick": 300, "thorough": 1800}
RULE = ("irregular series of 2..200 observations with integer-second stamps, gaps "
        "from {0, 1, 7, 60, 600, 1800, 3600, 5000, 9000, days}, stamps exactly on "
        "period boundaries, first stamp anywhere in its hour, series starting in 1890, 1901, 1969, "
        "2000-2001, 2038, 2100 and 2250 (epoch seconds below -2^31, across 0, above "
        "2^31), values >= 0 / negative "
        "/ NaN on the k/4 lattice, period 1800 / 3600 s, rainfall flag, maxgapsec "
        "in {3600, 7200, 5 days}; each series replayed with DatetimeIndex units "
        "s / ms / us / ns x {naive, UTC, +10:00}. Non-trivial: a series producing "
        ">= 1 judged non-missing period; distinct by digest of (stamps, values, "
        "options).")
ASSUMPTIONS = [
    "periods overlapped only by zero-length or merely touching invalid intervals "
    "are not constrained",
    "the final period of the output is not constrained",
    "values compared to 1e-9 relative (reference in exact rationals)",
    "fixed-offset time zones only (no DST transitions)",
]
OBLIGATIONS = {"period:valid": 300, "period:missing": 100, "period:gap-missing": 20,
               "period:negative-missing": 20, "period:nan-missing": 20,
               "stamp-on-boundary": 50, "duplicate-stamps": 20, "rainfall": 50,
               "P=1800": 50, "P=3600": 50, "unit:s": 20, "unit:ms": 20, "unit:us": 20,
               "unit:ns": 20, "tz:utc": 20, "tz:+10": 20, "era:outside-int32-seconds": 20,
               "era:across-epoch": 3, "kernel:prefilled-buffer": 50,
               "era:beyond-nanosecond-range": 5, "process-tz:non-utc": 50,
               "record-longer-than-2^31-seconds": 2, "maxgap:on-an-interval-of-the-record": 20, "long-interval:accepted-by-maxgapsec": 2}

T0 = 946684800      # 2000-01-01 00:00:00 UTC


def gen_series(rng, it, tier):
    n = int(rng.integers(2, 40)) if it % 4 else int(rng.integers(40, 201))
    if it % 25 == 13:
        # record lengths at the neighbours of powers of two / round numbers
        ed = [v for v in size_edges(255, 5001 if tier == "quick" else 66000)]
        n = ed[(it // 25) % len(ed)]
    gaps_pool = [0, 1, 7, 60, 600, 1800, 3600, 5000, 9000, 86400, 2 * 86400]
    w = np.array([1, 2, 2, 6, 8, 8, 8, 4, 3, 1, 0.5])
    gaps = rng.choice(gaps_pool, size=n - 1, p=w / w.sum())
    first = int(rng.integers(0, 3600)) if it % 3 else [0, 1800, 3599, 1][it % 4]
    # eras: most series around 2000; others before / across -2^31 s (Dec 1901), across
    # the epoch, across 2^31 s (Jan 2038) and far beyond
    era = [T0, T0, T0, -2 ** 31 - 40 * 86400, -2 ** 31 - 7200, -3 * 3600, 2 ** 31 - 7200,
           2 ** 31 + 30 * 86400, 4102444800, 8836000000, -2524521600,
           10413792000, -11676096000,             # ... 2300 and 1600: beyond what a
           # nanosecond index can hold (only the s / ms / us storage units reach them)
           -5206032000, 6942240000,              # 1805 and 2190: inside that range, but
           # where the nanosecond count no longer fits the 53 bits of a double
           -3600, -7200][it % 17]                # the last hours of 1969: the origin of the
    # periods is the epoch itself (second number 0) or the hour before
    era = (era // 3600) * 3600
    t = era + (int(rng.integers(0, 400)) * 86400 if era == T0 else 0) + \
        int(rng.integers(0, 24 if era == T0 else 2)) * 3600 + first
    stamps = np.concatenate([[t], t + np.cumsum(gaps)]).astype(np.int64)
    if it % 5 == 0:
        # snap some stamps onto period boundaries
        for j in range(1, n):
            if rng.random() < 0.3:
                stamps[j] = max(stamps[j - 1], (stamps[j] // 1800) * 1800)
        stamps = np.maximum.accumulate(stamps)
    # make sure the series spans at least two periods after the first whole hour
    if stamps[-1] - stamps[0] < 3 * 3600 + 10:
        stamps[-1] = stamps[0] + 3 * 3600 + int(rng.integers(10, 4000))
        stamps = np.maximum.accumulate(stamps)
    vals = rng.integers(0, 40, size=n) / 4.0
    if it % 29 in (11, 12) and n >= 4:
        # a perfectly regular record: one value per period, stamped on the period
        # boundaries (a logger set to the output step), with a negative reading or a gap
        # somewhere
        Pr = [3600, 1800][it % 2]
        t_reg = (int(stamps[0]) // 3600) * 3600
        stamps = (t_reg + Pr * np.arange(n)).astype(np.int64)
        vals[int(rng.integers(1, n - 1))] = [-1.5, np.nan, -0.25][(it // 29) % 3]
        return stamps, vals
    k = it % 6
    if k == 1:
        vals[rng.random(n) < 0.1] = np.nan
    elif k == 2:
        vals[rng.random(n) < 0.1] = -float(rng.integers(1, 9)) / 4.0
    elif k == 3:
        vals[rng.random(n) < 0.3] = 0.0
    elif k == 4:
        # values that need more than a single-precision mantissa
        vals = vals + 2.0 ** 26 * rng.integers(0, 3, size=n)
    return stamps, vals


def integrate(stamps, vals, S, E, rainfall, maxgap):
    """returns (status, value): status in {'valid', 'missing', 'free'}"""
    n = len(stamps)
    total = Fraction(0)
    covered = Fraction(0)
    sure = False
    maybe = False
    why = None
    for k in range(n - 1):
        t1, t2 = int(stamps[k]), int(stamps[k + 1])
        if t1 > E or t2 < S:
            continue
        v1, v2 = float(vals[k]), float(vals[k + 1])
        invalid = math.isnan(v1) or math.isnan(v2) or v1 < 0 or v2 < 0 or \
            (t2 - t1) > maxgap
        a, b = max(t1, S), min(t2, E)
        if b - a <= 0:
            # zero-length interval inside / interval merely touching the period
            if invalid:
                maybe = True
            continue
        if invalid:
            sure = True
            why = "gap" if (t2 - t1) > maxgap else \
                ("nan" if (math.isnan(v1) or math.isnan(v2)) else "negative")
            continue
        covered += b - a
        f1, f2 = Fraction(v1), Fraction(v2)
        if rainfall:
            total += f2 * Fraction(b - a, t2 - t1)
        else:
            sl = (f2 - f1) / (t2 - t1)
            va = f1 + sl * (a - t1)
            vb = f1 + sl * (b - t1)
            total += (va + vb) / 2 * (b - a)
    if sure:
        return "missing", why
    if covered != E - S:
        return "partial", None
    if maybe:
        return "free", None
    if rainfall:
        return "valid", float(total)
    return "valid", float(total / (E - S))


def build_series(stamps, vals, unit, tz, vdtype="f8"):
    import pandas as pd
    idx = pd.DatetimeIndex(np.asarray(stamps, dtype="int64").astype("datetime64[s]"))
    idx = idx.as_unit(unit)
    if tz in DST_ZONES:
        # the stamps are wall-clock times of a zone with daylight saving: each is
        # localised on its own (an hour that occurs twice is taken the second time, as
        # standard time)
        import pandas as _pd
        idx = _pd.DatetimeIndex([_pd.Timestamp(t).tz_localize(tz, ambiguous=False,
                                                              nonexistent="shift_forward")
                                 for t in idx]).as_unit(unit)
    elif tz == "utc":
        idx = idx.tz_localize("UTC")
    elif tz == "+10":
        import datetime as dtm
        idx = idx.tz_localize(dtm.timezone(dtm.timedelta(hours=10)))
    v = np.asarray(vals, dtype=float)
    if vdtype == "f4" and np.all((v == v.astype(np.float32)) | np.isnan(v)):
        v = v.astype(np.float32)
    elif vdtype == "i8" and np.all(np.isfinite(v)) and np.all(v == np.round(v)):
        v = v.astype(np.int64)
    return pd.Series(v, index=idx, name="flow")


DST_ZONES = ("Australia/Sydney", "America/New_York")


PROCESS_TZ = [None, "America/New_York", None, "Australia/Brisbane", None, "Asia/Kolkata"]


def call(se, P, maxgap, rainfall, process_tz=None):
    """process_tz: time zone of the *process* (TZ environment variable) during the call
    - the index carries its own time reference, the machine's zone is irrelevant"""
    from hydrodiy.data import dutils
    import time as _time
    old = os.environ.get("TZ")
    if process_tz:
        os.environ["TZ"] = process_tz
        _time.tzset()
    try:
        with warnings.catch_warnings():
            warnings.simplefilter("ignore")
            return dutils.var2h(se, nbsec_per_period=P, maxgapsec=maxgap,
                                rainfall=rainfall)
    finally:
        if process_tz:
            if old is None:
                os.environ.pop("TZ", None)
            else:
                os.environ["TZ"] = old
            _time.tzset()


def run_case(ctx, case):
    import pandas as pd
    stamps = np.asarray(case["stamps"], dtype=np.int64)
    vals = np.asarray(case["values"], dtype=float)
    P = int(case["P"])
    maxgap = int(case["maxgapsec"])
    rainfall = bool(case["rainfall"])
    ctx.evaluated()
    ctx.tag(f"P={P}")
    if rainfall:
        ctx.tag("rainfall")
    if stamps[-1] > 2 ** 31 or stamps[0] < -2 ** 31:
        ctx.tag("era:outside-int32-seconds")
    if stamps[0] < 0 <= stamps[-1]:
        ctx.tag("era:across-epoch")
    if np.any(np.diff(stamps) == 0):
        ctx.tag("duplicate-stamps")
    if np.any(stamps % P == 0):
        ctx.tag("stamp-on-boundary")
    base = None
    variants = case.get("variants") or [["ns", "naive"]]
    NSMIN, NSMAX = -9223372036, 9223372036
    if stamps[0] < NSMIN or stamps[-1] + 7200 > NSMAX:
        ctx.tag("era:beyond-nanosecond-range")
        variants = [v_ for v_ in variants if v_[0] != "ns"] or [["us", "naive"]]
    for unit, tz in variants:
        ctx.tag("unit:" + unit)
        if tz != "naive":
            ctx.tag("tz:" + tz)
        se = build_series(stamps, vals, unit, tz,
                          ["f8", "f4", "i8"][(len(stamps) + len(unit)) % 3])
        ctx.api("var2h")
        ptz = PROCESS_TZ[(len(stamps) + len(variants)) % len(PROCESS_TZ)]
        if ptz:
            ctx.tag("process-tz:non-utc")
        try:
            out = call(se, P, maxgap, rainfall, ptz)
        except Exception as e:
            ctx.check("var2h.runs", False, f"var2h|raises|unit={unit}", case,
                      {"exc": repr(e), "unit": unit, "tz": tz})
            continue
        # epoch seconds of the output stamps (wall clock)
        oi = out.index
        osec = (oi.tz_localize(None) if oi.tz is not None else oi).as_unit("s") \
            .asi8 if len(oi) else np.array([], dtype=np.int64)
        ov = out.values.astype(float)
        if base is None:
            base = (osec, ov, unit, tz)
            judge(ctx, case, stamps, vals, P, maxgap, rainfall, osec, ov)
            # the kernel itself (second observation point of the property), writing into
            # a buffer that was not NaN-filled / that served another series before
            if len(osec) >= 2 and unit == "ns" and tz == "naive":
                import c_hydrodiy_data as ck
                for fillv in (0.0, -999.0, 7.5):
                    buf = np.full(len(ov), fillv)
                    ierr = ck.var2h(int(maxgap), int(osec[0]), int(P), int(rainfall), 0,
                                    np.ascontiguousarray(stamps, dtype=np.int64),
                                    np.ascontiguousarray(vals, dtype=np.float64), buf)
                    ctx.api("c_var2h")
                    ctx.tag("kernel:prefilled-buffer")
                    a, b = buf[:-1], ov[:-1]
                    okk = ierr == 0 and bool(np.all((a == b) | (np.isnan(a) & np.isnan(b))))
                    ctx.check("kernel.same-as-wrapper", okk,
                              "c_var2h|differs-from-wrapper-on-prefilled-buffer", case,
                              lambda: {"prefill": fillv, "ierr": int(ierr),
                                       "kernel": buf[:8].tolist(), "wrapper": ov[:8].tolist()})
            try:
                osf = call(se, scalar_forms(P, len(stamps)),
                           scalar_forms(maxgap, len(stamps) + 1), scalar_forms(rainfall))
                ctx.check("var2h.scalar-forms", same_result(osf.values, out.values),
                          "var2h|result-depends-on-scalar-type-of-options", case, None)
            except Exception as e:
                ctx.check("var2h.scalar-forms", False,
                          "var2h|raises-on-numpy-scalar-option", case, {"exc": repr(e)})
            if len(stamps) <= 60:
                ctx.reuse("var2h", lambda: call(se, P, maxgap, rainfall).values, [],
                          out.values.copy(), case)
        else:
            if tz in DST_ZONES and len(osec) != len(base[0]):
                # (across a daylight-saving change the elapsed time and the wall-clock
                # span of the record differ by an hour: the output may carry that many
                # more - or fewer - periods at its end)
                # (the last period of the shorter output is its unconstrained final one)
                k_ = min(len(osec), len(base[0])) - 1
                ctx.extra["dst-record-length-differs"] += 1
                same = abs(len(osec) - len(base[0])) * int(case["P"]) <= 3600 and \
                    np.array_equal(osec[:k_], base[0][:k_]) and \
                    bool(np.all((ov[:k_] == base[1][:k_]) |
                                (np.isnan(ov[:k_]) & np.isnan(base[1][:k_]))))
            else:
                same = len(osec) == len(base[0]) and np.array_equal(osec, base[0]) and \
                    bool(np.all((ov == base[1]) | (np.isnan(ov) & np.isnan(base[1]))))
            key = "unit" if tz == base[3] else "timezone"
            ctx.check("var2h.storage-independent", same,
                      f"var2h|depends-on-{key}", case,
                      lambda: {"variant": [unit, tz], "base": [base[2], base[3]],
                               "n": [len(ov), len(base[1])],
                               "valid": [int(np.isfinite(ov).sum()),
                                         int(np.isfinite(base[1]).sum())]})


def judge(ctx, case, stamps, vals, P, maxgap, rainfall, osec, ov):
    first = int(stamps[0])
    hstart = (first // 3600) * 3600 + 3600
    okidx = len(osec) == 0 or (int(osec[0]) == hstart and
                               bool(np.all(np.diff(osec) == P)))
    ctx.check("var2h.index", okidx, "var2h|index", case,
              lambda: {"first": int(osec[0]) if len(osec) else None,
                       "expected_first": hstart})
    if not okidx:
        return
    vmax = float(np.nanmax(np.abs(vals))) if np.isfinite(vals).any() else 1.0
    nvalid = 0
    for i in range(len(osec) - 1):          # the final period is not constrained
        S = int(osec[i])
        E = S + P
        status, ref = integrate(stamps, vals, S, E, rainfall, maxgap)
        got = float(ov[i])
        case_i = None
        if status == "missing":
            ctx.tag("period:missing")
            ctx.tag(f"period:{ref}-missing")
            ctx.check("var2h.missing-when-invalid", math.isnan(got),
                      f"var2h|not-missing|{ref}", case,
                      lambda: {"period": i, "start": S, "got": got})
        elif status == "valid":
            ctx.tag("period:valid")
            nvalid += 1
            ok = (not math.isnan(got)) and \
                abs(got - ref) <= 1e-9 * max(abs(ref), 1e-6 * vmax)
            key = "var2h|value" if not math.isnan(got) else "var2h|missing-but-valid"
            ctx.check("var2h.period-average", ok, key + ("|rainfall" if rainfall else ""),
                      case, lambda: {"period": i, "start": S, "got": got,
                                     "expected": ref})
        elif status == "partial":
            ctx.tag("period:partial-coverage")
            ctx.check("var2h.partial-coverage-missing", math.isnan(got),
                      "var2h|value-on-partially-covered-period", case,
                      lambda: {"period": i, "start": S, "end": E,
                               "last_stamp": int(stamps[-1]), "got": got})
        else:
            ctx.extra["periods-not-constrained"] += 1
    if nvalid:
        ctx.nontrivial(stamps, vals, P, maxgap, rainfall)


ALLVAR = [[u, z] for u in ("ns", "us", "ms", "s") for z in ("naive", "utc", "+10")]


def run(ctx):
    rng = ctx.rng(1)
    nrep = 50 if ctx.tier == "quick" else 3000
    for it0 in range(nrep):
        it = it0 + ctx.shard
        if ctx.out_of_time():
            ctx.notes.append(f"stopped at {it0}")
            break
        stamps, vals = gen_series(rng, it, ctx.tier)
        P = [3600, 1800][it % 2]
        maxgap = [3600, 7200, 5 * 86400][int(rng.integers(0, 3))]
        if it % 3 == 1 and len(stamps) >= 2 and (ctx.tier == "quick" or it % 12 == 1):
            # the limit set on the length of one of the record's own intervals (or one
            # second either side), and limits that are not whole hours
            dd_ = np.diff(np.asarray(stamps, dtype=np.int64))
            dd_ = dd_[dd_ > 3601]          # (limits below one hour are refused)
            if len(dd_):
                maxgap = int(dd_[int(rng.integers(0, len(dd_)))]) + int(rng.integers(-1, 2))
                maxgap = max(3600, maxgap)
                ctx.tag("maxgap:on-an-interval-of-the-record")
        elif it % 3 == 2:
            maxgap = [5400, 4000, 3601, 86399, 100000, 7199, 9001, 5000][it // 3 % 8]
        rainfall = bool((it // 2) % 2)
        if it0 % 3 == 0:
            variants = ALLVAR
        else:
            j = int(rng.integers(0, len(ALLVAR)))
            variants = [["ns", "naive"], ALLVAR[j]]
        case = {"kind": "var2h", "stamps": stamps, "values": vals, "P": P,
                "maxgapsec": maxgap, "rainfall": rainfall, "variants": variants}
        run_case(ctx, case)
        if it0 % 20 == 0:
            ctx.sample(case)
        if it0 % 10 == 7:
            # a record kept in the wall-clock time of a zone with daylight saving, whose
            # first observation falls in the hour that occurs twice when it ends (or
            # just around it): same period averages as the same stamps without a zone
            import pandas as _pd
            zone, day = [("Australia/Sydney", "2021-04-04 02:"),
                         ("America/New_York", "2019-11-03 01:"),
                         ("Australia/Sydney", "2021-04-04 01:"),
                         ("America/New_York", "2019-11-03 02:")][(it // 10) % 4]
            t0_ = int(_pd.Timestamp(day + "%02d:00" % int(rng.integers(0, 60))).value
                      // 10 ** 9)
            st_ = t0_ + np.concatenate([[0], np.cumsum(rng.choice([600, 1800, 3600, 5000],
                                                                  size=25))])
            # (keep the later stamps clear of the repeated hour)
            st_[1:] = np.maximum(st_[1:], t0_ + 2 * 3600 + 60)
            st_ = np.maximum.accumulate(st_)
            vl_ = rng.integers(0, 40, size=len(st_)) / 4.0
            ctx.tag("tz:daylight-saving-zone")
            run_case(ctx, {"kind": "var2h", "stamps": st_, "values": vl_, "P": P,
                           "maxgapsec": 5 * 86400, "rainfall": rainfall,
                           "variants": [["ns", "naive"], ["ns", zone], ["s", zone],
                                        ["us", "utc"]]})
        if it0 % 25 == 13 and (ctx.tier == "quick" or it0 % 200 == 13):
            j = it // 25
            run_long_span(ctx, {"kind": "longspan", "seed": int(rng.integers(0, 2 ** 31)),
                                "P": [3600, 1800][j % 2], "unit": ["ns", "s", "us"][j % 3],
                                "tz": ["naive", "utc"][j % 2], "rainfall": bool((j // 2) % 2),
                                "start": [0, -946771200, 86400 * 365][j % 3],
                                "span": [1500000000, 2 ** 31 - 7200, 120000000,
                                         1000000000][j % 4],
                                "maxgapsec": 2 ** 31 - 1,
                                "near_boundary": [int(rng.integers(1, 22)),
                                                  int(rng.integers(1, 22))]})
        if it0 % 25 == 3:
            j = it // 25
            run_long_span(ctx, {"kind": "longspan", "seed": int(rng.integers(0, 2 ** 31)),
                                "P": [3600, 1800][j % 2],
                                "unit": ["ns", "s", "us", "ms"][j % 4],
                                "tz": ["naive", "utc", "+10"][j % 3],
                                "rainfall": bool(j % 2),
                                "start": [-946771200, -1104537600, 0, 86400 * 365][j % 4],
                                "span": [2 ** 31 + 86400 * 30, 75 * 31557600,
                                         2 ** 31 - 3600, 2 ** 32 + 7200][j % 4]})


def run_long_span(ctx, case):
    """a record longer than 2^31 seconds (68 years): a few days of data in 19xx, a gap of
    decades, a few days of data at the end. Hundreds of thousands of periods come out; the
    ones around the two clusters are judged against the exact integral, the ones in the
    gap must be missing."""
    rng = np.random.default_rng(int(case["seed"]))
    P = int(case["P"])
    unit, tz = case["unit"], case["tz"]
    maxgap = int(case.get("maxgapsec", 5 * 86400))
    rainfall = bool(case["rainfall"])
    t0 = int(case["start"])
    span = int(case["span"])
    c1 = t0 + np.concatenate([[int(rng.integers(0, 3600))],
                              np.cumsum(rng.choice([600, 1800, 3600, 9000], size=30))])
    c2 = t0 + span + np.concatenate([[0], np.cumsum(rng.choice([600, 1800, 3600, 9000],
                                                               size=30))])
    c2 = c2 + (c1[0] - t0)
    if case.get("near_boundary"):
        # the two observations on either side of the long interval lie a few seconds from
        # a period boundary
        d1, d2 = [int(v) for v in case["near_boundary"]]
        c1[-1] = max((c1[-1] // P) * P + P - d1, c1[-2] + 1)
        c2[0] = (c2[0] // P) * P + d2
        ctx.tag("long-interval:ends-seconds-from-a-boundary")
    stamps = np.concatenate([c1, c2]).astype(np.int64)
    vals = rng.integers(0, 40, size=len(stamps)) / 4.0
    ctx.evaluated()
    if int(stamps[-1] - stamps[0]) >= 2 ** 31:
        ctx.tag("record-longer-than-2^31-seconds")
    ctx.api("var2h")
    se = build_series(stamps, vals, unit, tz)
    try:
        out = call(se, P, maxgap, rainfall)
    except Exception as e:
        ctx.check("var2h.runs", False, f"var2h|raises|long-record|unit={unit}", case,
                  {"exc": repr(e)[:300], "span_years": span / 31557600.0})
        return
    oi = out.index
    osec = (oi.tz_localize(None) if oi.tz is not None else oi).as_unit("s").asi8
    ov = out.values.astype(float)
    hstart = (int(stamps[0]) // 3600) * 3600 + 3600
    nexp = (int(stamps[-1]) - hstart) // P
    okidx = len(osec) >= nexp and int(osec[0]) == hstart and \
        bool(np.all(np.diff(osec) == P))
    ctx.check("var2h.index", okidx, "var2h|index|long-record", case,
              lambda: {"n": int(len(osec)), "expected_at_least": int(nexp),
                       "first": int(osec[0]) if len(osec) else None})
    if not okidx:
        return
    i1 = int((c1[-1] - hstart) // P) + 2
    i2 = int((c2[0] - hstart) // P) - 2
    mid = ov[i1 + 200:i2 - 200]
    if int(c2[0] - c1[-1]) > maxgap:
        ctx.check("var2h.gap-missing", bool(np.all(np.isnan(mid))) and len(mid) > 1000,
                  "var2h|not-missing|gap|long-record", case,
                  lambda: {"n_periods_in_gap": int(len(mid)),
                           "not_missing": int(np.isfinite(mid).sum())})
    else:
        # an interval the caller accepts as valid (maxgapsec raised): interpolated
        ctx.tag("long-interval:accepted-by-maxgapsec")
        ctx.check("var2h.long-interval-interpolated", bool(np.all(np.isfinite(mid))) and
                  len(mid) > 1000, "var2h|missing|accepted-long-interval", case,
                  lambda: {"n_periods": int(len(mid)), "missing": int(np.isnan(mid).sum())})
        # a sample of periods inside the long interval
        for i in rng.integers(i1, i2, size=40):
            S = int(osec[int(i)])
            status, ref = integrate(stamps, vals, S, S + P, rainfall, maxgap)
            got = float(ov[int(i)])
            if status == "valid":
                ctx.check("var2h.period-average", (not math.isnan(got)) and
                          abs(got - ref) <= 1e-9 * max(abs(ref), 1e-5),
                          "var2h|value|long-record", case,
                          lambda: {"period": int(i), "start": S, "got": got, "expected": ref})
    for i in list(range(0, i1)) + list(range(i2, len(osec) - 1)):
        S = int(osec[i])
        status, ref = integrate(stamps, vals, S, S + P, rainfall, maxgap)
        got = float(ov[i])
        if status == "valid":
            ok = (not math.isnan(got)) and abs(got - ref) <= 1e-9 * max(abs(ref), 1e-5)
            ctx.check("var2h.period-average", ok, "var2h|value|long-record", case,
                      lambda: {"period": i, "start": S, "got": got, "expected": ref})
            ctx.nontrivial("long", S, got)
        elif status == "missing":
            ctx.check("var2h.missing-when-invalid", math.isnan(got),
                      "var2h|not-missing|long-record", case,
                      lambda: {"period": i, "start": S, "got": got})


def replay(ctx, case):
    if case.get("kind") == "longspan":
        return run_long_span(ctx, case)
    run_case(ctx, case)
