"""C03 - CRPS equals its definition; decomposition exact; invariances.

Monitor: definitional oracle (exact integer arithmetic on dyadic lattices, fsum
otherwise) + identities on every observed return value + metamorphic relations
between pairs of observed executions of the real metrics.crps."""
import math
from fractions import Fraction

import numpy as np

ID = "C03"
SHARDS = {"quick": 8, "thorough": 16}
BUDGET = {"quick": 300, "thorough": 1800}
RULE = ("random (obs, ens) with n in 1..40 forecasts (..400 thorough), m in 1..30 "
        "members (..200 thorough); values on the k/4 and k/64 lattices (exact "
        "member-member and member-observation ties), observations below / above "
        "the whole ensemble for every forecast, constant ensembles, random floats "
        "over 12 decades, NaN observations. Each case is evaluated against the "
        "definition and replayed under 6 metamorphic transformations. Non-trivial: "
        "n*m >= 2 and CRPS != 0; distinct by digest of (obs, ens).")
ASSUMPTIONS = [
    "lattice cases: the definitional value is computed in exact integer arithmetic "
    "and compared to 1e-9 relative; float cases use math.fsum and 1e-9 relative",
    "metamorphic pairs are compared to 1e-10 x (magnitude of the data incl. the "
    "shift), power-of-two scalings to 1e-12",
    "ensemble members are finite; only observations may be NaN",
]
OBLIGATIONS = {"m=1": 20, "m=2": 20, "ties": 20, "all-below": 20, "all-above": 20,
               "constant-ens": 20, "nan-obs": 20, "float": 20, "n=1": 10,
               "long-record": 1, "size-edge": 2, "scale:near-float-max": 50,
               "after-call-with-missing-member": 20, "n==m": 10, "members-sorted": 30,
               "members-reverse-sorted": 30, "forecasts-sorted-by-obs": 30}


def crps_fn():
    from hydrodiy.stat import metrics
    return metrics.crps


# ------------------------------------------------------------------ oracles ----
def pair_sum_sorted(X):
    """sum_jk |x_j - x_k| per row via order statistics (exact for ints)"""
    S = np.sort(X, axis=1)
    m = X.shape[1]
    coef = 2 * np.arange(m) - m + 1
    return 2 * (S * coef[None, :]).sum(axis=1)


def crps_exact_lattice(Y, X, L):
    """Y[n], X[n,m] integer arrays (value*L). Returns Fraction of the definition:
    mean_i[ mean_j|x_ij-y_i| - 1/2 mean_jk|x_ij-x_ik| ]"""
    n, m = X.shape
    Y = Y.astype(object)
    Xo = X.astype(object)
    tot = 0
    for i in range(n):
        s1 = sum(abs(int(x) - int(Y[i])) for x in Xo[i])
        if m * m <= 2500:
            s2 = sum(abs(int(a) - int(b)) for a in Xo[i] for b in Xo[i])
        else:
            s2 = int(pair_sum_sorted(X[i:i + 1])[0])
        tot += 2 * m * s1 - s2
    return Fraction(tot, 2 * m * m * n * L)


def crps_exact_lattice_fast(Y, X, L):
    n, m = X.shape
    s1 = np.abs(X - Y[:, None]).sum(axis=1).astype(object)
    s2 = pair_sum_sorted(X).astype(object)
    tot = int((2 * m * s1 - s2).sum())
    return Fraction(tot, 2 * m * m * n * L)


def crps_float_ref(y, x):
    n, m = x.shape
    terms = []
    for i in range(n):
        s1 = math.fsum(abs(v - y[i]) for v in x[i]) / m
        xs = np.sort(x[i])
        coef = 2 * np.arange(m) - m + 1
        s2 = 2 * math.fsum((xs * coef).tolist()) / (m * m)
        terms.append(s1 - 0.5 * s2)
    return math.fsum(terms) / n


def uncertainty_ref(y):
    n = len(y)
    ys = np.sort(y)
    coef = 2 * np.arange(n) - n + 1
    return math.fsum((ys * coef).tolist()) / (n * n)


def mean_gaps(x):
    xs = np.sort(x, axis=1)
    return (xs[:, 1:] - xs[:, :-1]).mean(axis=0)


# ---------------------------------------------------------------- generator ----
def gen_case(rng, tier, it):
    nmax, mmax = (40, 30) if tier == "quick" else (400, 200)
    kinds = ["lattice4", "lattice64", "ties", "below", "above", "const", "m1", "m2",
             "float", "n1", "nanobs", "mixed"]
    kind = kinds[it % len(kinds)]
    if rng.random() < 0.7:
        n = int(rng.integers(1, min(nmax, 12) + 1))
        m = int(rng.integers(1, min(mmax, 8) + 1))
    else:
        n = int(rng.integers(1, nmax + 1))
        m = int(rng.integers(1, mmax + 1))
    if kind == "m1":
        m = 1
    if kind == "m2":
        m = 2
    if kind == "n1":
        n = 1
    # coincidences a random draw seldom produces: as many forecasts as members, and
    # the smallest sizes
    special = (it // len(kinds)) % 5
    if special == 1 and kind not in ("m1", "m2", "n1"):
        m = n
    elif special == 2:
        n = [2, 3, 2, 4][it % 4]
    L = 4
    lattice = True
    if kind in ("lattice4", "below", "above", "const", "m1", "m2", "n1", "nanobs",
                "mixed"):
        L = 4 if rng.random() < 0.6 else 64
        span = int(rng.integers(2, 200))
        X = rng.integers(-span, span + 1, size=(n, m))
        Y = rng.integers(-span, span + 1, size=n)
    elif kind == "lattice64":
        L = 64
        X = rng.integers(-5000, 5000, size=(n, m))
        Y = rng.integers(-5000, 5000, size=n)
    elif kind == "ties":
        L = 4
        span = int(rng.integers(1, 4))
        X = rng.integers(-span, span + 1, size=(n, m))
        Y = rng.integers(-span, span + 1, size=n)
    else:
        lattice = False
    tags = []
    if lattice:
        if kind == "below":
            Y = X.min(axis=1) - rng.integers(0 if rng.random() < .3 else 1, 9, size=n)
            if np.all(Y < X.min(axis=1)):
                tags.append("all-below")
        elif kind == "above":
            Y = X.max(axis=1) + rng.integers(0 if rng.random() < .3 else 1, 9, size=n)
            if np.all(Y > X.max(axis=1)):
                tags.append("all-above")
        elif kind == "const":
            X = np.repeat(X[:, :1], m, axis=1)
            tags.append("constant-ens")
        elif kind == "mixed":
            # observation tied with a member for about half the forecasts
            for i in range(n):
                if rng.random() < 0.5:
                    Y[i] = X[i, rng.integers(0, m)]
        x = X.astype(np.float64) / L
        y = Y.astype(np.float64) / L
        srt = np.sort(X, axis=1)
        if m > 1 and np.any(srt[:, 1:] == srt[:, :-1]):
            tags.append("ties")
        if np.any(X == Y[:, None]):
            tags.append("ties")
    else:
        dec = rng.integers(-6, 7)
        sc = 10.0 ** dec
        x = rng.normal(size=(n, m)) * sc
        if rng.random() < 0.5:
            x = np.abs(x)
        y = rng.normal(size=n) * sc * rng.choice([0.1, 1, 5])
        X = Y = None
        tags.append("float")
    # member order: as drawn, already sorted, reverse sorted (per forecast); forecasts
    # ordered by their observation
    order = (it // 3) % 4
    if order == 1:
        x = np.sort(x, axis=1)
        if X is not None:
            X = np.sort(X, axis=1)
        tags.append("members-sorted")
    elif order == 2:
        x = np.sort(x, axis=1)[:, ::-1].copy()
        if X is not None:
            X = np.sort(X, axis=1)[:, ::-1].copy()
        tags.append("members-reverse-sorted")
    elif order == 3 and n >= 2:
        o = np.argsort(y, kind="stable")
        x, y = x[o], y[o]
        if X is not None:
            X, Y = X[o], Y[o]
        tags.append("forecasts-sorted-by-obs")
    if n == m and n >= 2:
        tags.append("n==m")
    nanmask = None
    if kind == "nanobs" and n >= 2:
        nanmask = rng.random(n) < 0.3
        if nanmask.all():
            nanmask[0] = False
        if not nanmask.any():
            nanmask[-1] = True
        tags.append("nan-obs")
    if m == 1:
        tags.append("m=1")
    if m == 2:
        tags.append("m=2")
    if n == 1:
        tags.append("n=1")
    return {"kind": "crps", "gen": kind, "L": L if lattice else 0, "obs": y, "ens": x,
            "nanmask": nanmask, "tags": sorted(set(tags))}


def decomp(res):
    d, t = res
    return np.array([d["crps"], d["reliability"], d["resolution"], d["uncertainty"],
                     d["potential"]], dtype=float), t


def run_case(ctx, case, rng=None):
    crps = crps_fn()
    y = np.asarray(case["obs"], dtype=np.float64)
    x = np.asarray(case["ens"], dtype=np.float64)
    if x.ndim == 1:
        x = x[:, None]
    n, m = x.shape
    nanmask = case.get("nanmask")
    for t in case.get("tags", []):
        ctx.tag(t)
    ctx.evaluated()
    yin = y.copy()
    if nanmask is not None:
        nanmask = np.asarray(nanmask, dtype=bool)
        yin[nanmask] = np.nan
        yv, xv = y[~nanmask], x[~nanmask]
    else:
        yv, xv = y, x
    nv = len(yv)
    if m >= 2 and (n + m) % 5 == 0:
        # a call outside the property (a forecast with some members missing) made
        # before the judged one: whatever it answers, it must leave no trace
        xbad = x.copy()
        xbad[0, 0] = np.nan
        ctx.tag("after-call-with-missing-member")
        try:
            crps(yin, xbad)
        except Exception:
            pass
    ctx.api("crps")
    d, table = decomp(crps(yin, x))
    c, rel, res, unc, pot = d
    scale = max(np.abs(xv).max(), np.abs(yv).max(), 1e-300)
    L = case.get("L", 0)
    if L:
        Yi = np.round(yv * L).astype(np.int64)
        Xi = np.round(xv * L).astype(np.int64)
        if nv * m * m <= 40000:
            ref = crps_exact_lattice(Yi, Xi, L)
        else:
            ref = crps_exact_lattice_fast(Yi, Xi, L)
        ref = float(ref)
    else:
        ref = crps_float_ref(yv, xv)
    tol = 1e-9 * max(abs(ref), 1e-7 * scale)
    ctx.check("crps.definition", abs(c - ref) <= tol, "crps|definition", case,
              lambda: {"crps": c, "definition": ref, "n": nv, "m": m})
    if m == 1:
        mae = float(np.mean(np.abs(xv[:, 0] - yv)))
        ctx.check("crps.m1-is-mae", abs(c - mae) <= 1e-12 * max(mae, scale * 1e-6),
                  "crps|m1-mae", case, {"crps": c, "mae": mae})
    t2 = 1e-12 * max(abs(c), abs(unc), 1e-7 * scale)
    ctx.check("crps.reli+pot", abs(c - (rel + pot)) <= t2, "crps|reli+pot", case,
              lambda: {"crps": c, "reliability": rel, "potential": pot})
    ctx.check("crps.resolution", abs(res - (unc - pot)) <= t2, "crps|resolution", case,
              lambda: {"resolution": res, "uncertainty": unc, "potential": pot})
    neg = -1e-14 * scale
    ctx.check("crps.nonneg", rel >= neg and pot >= neg and unc >= neg and c >= neg,
              "crps|negative-component", case,
              lambda: {"decomposition": d.tolist()})
    uref = uncertainty_ref(yv)
    ctx.check("crps.uncertainty-climatology",
              abs(unc - uref) <= 1e-9 * max(abs(uref), 1e-7 * scale),
              "crps|uncertainty", case, lambda: {"uncertainty": unc, "ref": uref})
    # the CRPS of the climatology used as the ensemble (an observed execution)
    if 2 <= nv <= 60:
        ctx.api("crps")
        dc, _ = decomp(crps(yv, np.repeat(yv[None, :], nv, axis=0)))
        ctx.check("crps.uncertainty-is-crps-of-clim",
                  abs(dc[0] - unc) <= 1e-9 * max(abs(unc), 1e-7 * scale),
                  "crps|uncertainty-vs-clim-run", case,
                  lambda: {"uncertainty": unc, "crps_clim": dc[0]})
    # reliability table
    tb = table.values
    okt = tb.shape == (m + 1, 7)
    if okt:
        okt &= bool(np.allclose(tb[:, 0], np.arange(m + 1) / m, rtol=0, atol=1e-15))
        okt &= bool(np.all(tb[:, 1] >= 0) and np.all(tb[:, 2] >= 0))
        p = tb[:, 0]
        okt &= abs(float(np.sum(tb[:, 1] * p ** 2 + tb[:, 2] * (1 - p) ** 2)) - c) <= \
            1e-11 * max(abs(c), 1e-7 * scale)
        if m > 1:
            g = tb[1:m, 1] + tb[1:m, 2]
            okt &= bool(np.all(np.abs(g - mean_gaps(xv)) <= 1e-10 * scale))
    ctx.check("crps.table", bool(okt), "crps|table", case,
              lambda: {"table": tb.tolist()[:8]})
    if nv * m >= 2 and c != 0:
        ctx.nontrivial(yin, x)

    # ---------------- metamorphic relations (pairs of observed executions) ------
    if rng is None:
        rng = np.random.default_rng(12345)

    def same(name, d2, factor=1.0, tolrel=1e-10, mag=scale):
        exp = d * factor
        ok = bool(np.all(np.abs(d2 - exp) <= tolrel * max(mag * abs(factor),
                                                          1e-300)))
        ctx.check("crps.meta." + name, ok, "crps|meta|" + name, case,
                  lambda: {"base": d.tolist(), "transformed": d2.tolist(),
                           "factor": factor})

    # documented input shapes: observations as an [n, 1] column, lists, Series
    import pandas as _pd
    same("obs-as-column", decomp(crps(yin[:, None], x))[0], tolrel=1e-15)
    same("list-and-frame-inputs", decomp(crps(_pd.Series(yin), _pd.DataFrame(x)))[0],
         tolrel=1e-15)
    # the same numbers in another memory layout / container / exact dtype
    ctx.presentations("crps", lambda o, e: decomp(crps(o, e))[0], [yin, x], d, case, rng,
                      rtol=1e-12, n=2)
    if n * m <= 400:
        ctx.reuse("crps", lambda o, e: (lambda r: (r[0], r[1].values))(crps(o, e)),
                  [yin, x], (lambda r: (r[0], r[1].values))(crps(yin.copy(), x.copy())),
                  case, rtol=1e-13)
    # member permutation, independently per forecast
    xp = np.array([rng.permutation(r) for r in x])
    same("member-permutation", decomp(crps(yin, xp))[0], tolrel=1e-13)
    # forecast permutation
    perm = rng.permutation(n)
    same("forecast-permutation", decomp(crps(yin[perm], x[perm]))[0], tolrel=1e-11)
    # common shift
    if L:
        sh = float(rng.integers(-1000, 1000))
    else:
        sh = float(rng.normal() * scale)
    same("shift", decomp(crps(yin + sh, x + sh))[0], tolrel=1e-10,
         mag=scale + abs(sh))
    # positive scaling: power of two (exact) and generic
    f2 = float(2.0 ** rng.integers(-8, 9))
    same("scale-pow2", decomp(crps(yin * f2, x * f2))[0], factor=f2, tolrel=1e-12)
    # very small / very large units (exact power-of-two factors): every component
    # must scale linearly, whatever the magnitude of the data
    for e2 in (-45, 45):
        fx = float(2.0 ** e2)
        same(f"scale-2^{e2}", decomp(crps(yin * fx, x * fx))[0], factor=fx,
             tolrel=1e-12)
    # ... up to the end of the float64 range (sums over forecasts of values near
    # 1e306 must not overflow: the result is an average and stays finite)
    if 1e-290 < scale < 1e290 and nv <= 200:
        e3 = min(int(math.floor(math.log2(1.7e308) - math.log2(8 * scale))) - 1, 1000)
        if e3 > 100:
            fx = float(2.0 ** e3)
            ctx.tag("scale:near-float-max")
            same("scale-near-float-max", decomp(crps(yin * fx, x * fx))[0], factor=fx,
                 tolrel=1e-12)
        # ... and right up to it: the largest value becomes 2^1020 .. 2^1021 (a quarter
        # of the largest double), so that every difference of two values is still
        # finite but a handful of them added together is not
        with np.errstate(all="ignore"):
            vmax = float(max(np.nanmax(np.abs(yin)) if nv else 0.0, np.max(np.abs(x))))
        if np.isfinite(vmax) and vmax > 0 and np.all(np.abs(d) * 2.0 ** 900 > 1e-290):
            e4 = 1021 - int(math.ceil(math.log2(vmax)))
            if 0 < e4 <= 1023:
                fy = float(2.0 ** e4)
                ctx.tag("scale:largest-value-quarter-of-float-max")
                d4 = decomp(crps(yin * fy, x * fy))[0]
                # compared after scaling back (exact), so that nothing overflows here
                same("scale-to-quarter-of-float-max", d4 * 2.0 ** -e4, tolrel=1e-12)
    f3 = float(rng.uniform(0.1, 37.0))
    same("scale", decomp(crps(yin * f3, x * f3))[0], factor=f3, tolrel=1e-10)
    # rows with a missing observation are ignored
    if nanmask is not None:
        same("nan-obs-ignored", decomp(crps(yv, xv))[0], tolrel=1e-13)
    ctx.api("crps", 5 + (nanmask is not None))


def run_long_record(ctx, n, m, seed, extra_nan=0):
    """one long record (the pairwise uncertainty term is O(n^2)): definition,
    identities and the climatological uncertainty for tens of thousands of
    forecasts"""
    crps = crps_fn()
    r = np.random.default_rng(seed)
    y = r.integers(-200, 200, size=n) / 4.0
    x = r.integers(-200, 200, size=(n, m)) / 4.0
    ctx.evaluated()
    ctx.tag("long-record")
    ctx.api("crps")
    if extra_nan:
        # n forecasts of which extra_nan have no observation: n - extra_nan valid ones
        yin = y.copy()
        drop = r.choice(n, size=extra_nan, replace=False)
        yin[drop] = np.nan
        keep = np.ones(n, dtype=bool)
        keep[drop] = False
        d, _ = decomp(crps(yin, x))
        y, x = y[keep], x[keep]
    else:
        d, _ = decomp(crps(y, x))
    c, rel, res, unc, pot = d
    ref = float(crps_exact_lattice_fast(np.round(y * 4).astype(np.int64),
                                        np.round(x * 4).astype(np.int64), 4))
    uref = uncertainty_ref(y)
    case = {"kind": "long", "n": n, "m": m, "seed": seed, "extra_nan": extra_nan}
    ctx.check("crps.definition", abs(c - ref) <= 1e-9 * abs(ref), "crps|definition|long",
              case, {"crps": c, "definition": ref})
    # (the kernel adds n(n-1)/2 pair terms one by one: the rounding of that plain
    # summation grows with the number of terms - 1e-9 at 46 500 forecasts, a little
    # more beyond)
    utol = 1e-9 * max(1.0, (n / 20000.0) ** 2)
    ctx.check("crps.uncertainty-climatology", abs(unc - uref) <= utol * abs(uref)
              and unc >= 0, "crps|uncertainty|long", case,
              {"uncertainty": unc, "ref": uref, "n": n})
    ctx.check("crps.reli+pot", abs(c - (rel + pot)) <= 1e-11 * abs(c) and
              abs(res - (unc - pot)) <= 1e-11 * abs(unc), "crps|identities|long", case,
              {"decomposition": d.tolist()})
    ctx.nontrivial("long", n, m, seed)


def run_two_gib(ctx):
    """an ensemble matrix of more than 2 GiB (2700 forecasts x 100 000 members: the byte
    count no longer fits 32 bits): a record of 27 forecasts repeated 100 times scores
    exactly what the record scores"""
    r_ = np.random.default_rng(ctx.seed + 31)
    m = 100000
    e0 = np.round(r_.normal(size=(27, m)) * 64) / 64 + np.arange(27)[:, None] % 3
    o0 = np.round(r_.normal(size=27) * 64) / 64 + 0.5 / 64
    base = decomp(crps_fn()(o0, e0))[0]
    big = np.tile(e0, (100, 1))
    ob = np.tile(o0, 100)
    ctx.evaluated()
    ctx.tag("ensemble-matrix-above-2GiB")
    ctx.api("crps", 2)
    case = {"kind": "twogib", "shape": [int(big.shape[0]), m]}
    try:
        got = decomp(crps_fn()(ob, big))[0]
        ok = bool(np.all(np.abs(got - base) <= 1e-9 * (np.abs(base) + 1e-12)))
        det = {"bytes": int(big.nbytes), "record": base, "record_repeated_100_times": got}
    except Exception as e:
        ok, det = False, {"bytes": int(big.nbytes), "exc": repr(e)[:200]}
    del big
    ctx.check("crps.two-gib", ok, "crps|ensemble-matrix-above-2GiB", case, det)
    ctx.nontrivial("twogib", m)


def run(ctx):
    if ctx.tier == "thorough" and ctx.shard == 4 % ctx.nshards:
        run_two_gib(ctx)
    # record lengths around powers of two and round numbers (where an implementation
    # may switch algorithm or buffer), also with some observations missing so that
    # the number of *valid* forecasts lands on such lengths
    from hyverif.core import size_edges
    sizes = [n for n in size_edges(17, 10001 if ctx.tier == "quick" else 70001)]
    for j, n in enumerate(sizes):
        if j % ctx.nshards != ctx.shard:
            continue
        ctx.tag("size-edge")
        run_long_record(ctx, n, 1 + (j + ctx.seed) % 3, ctx.seed + n)
        if n <= 10001:
            run_long_record(ctx, n + 4, 2, ctx.seed + n + 1, extra_nan=4)
    if ctx.shard == 0:
        run_long_record(ctx, 46500, 2, ctx.seed)
    if ctx.shard == 1 and ctx.tier == "thorough":
        run_long_record(ctx, 70000, 3, ctx.seed + 1)
    if ctx.shard == 2 % ctx.nshards:
        # several sites scored at the same time from a thread pool: wide ensembles (the
        # conversions and copies of the wrapper then release the interpreter lock)
        r_ = np.random.default_rng(ctx.seed + 5)
        sets = []
        for t_ in range(4):
            o_ = r_.normal(size=40) + 10.0 * t_
            e_ = r_.normal(size=(40, 20000)) + 10.0 * t_
            sets.append((o_, e_))
        ctx.evaluated()
        ctx.concurrent("crps", lambda o, e: decomp(crps_fn()(o, e))[0], sets,
                       {"kind": "concurrent", "what": "crps 4 x [40, 20000]"}, rtol=1e-12)
    if ctx.shard == 3 % ctx.nshards:
        r_ = np.random.default_rng(11)
        o_ = np.round(r_.normal(size=60), 3)
        e_ = np.round(r_.normal(size=(60, 900)), 3)
        here = decomp(crps_fn()(o_, e_))[0]
        ctx.evaluated()
        ctx.small_stack("crps", "from hydrodiy.stat import metrics",
                        """
                        r_ = np.random.default_rng(11)
                        o_ = np.round(r_.normal(size=60), 3)
                        e_ = np.round(r_.normal(size=(60, 900)), 3)
                        d = metrics.crps(o_, e_)[0]
                        d = np.asarray(getattr(d, "values", d), dtype=float).ravel()
                        for i, v in enumerate(d[:5]):
                            out["c%d" % i] = float(v)
                        """, {"c%d" % i: float(v) for i, v in enumerate(np.asarray(here)[:5])},
                        {"kind": "smallstack", "what": "crps 60 x 900"})
    rng = ctx.rng(1)
    ncase = 400 if ctx.tier == "quick" else 10000
    for it in range(ncase):
        if ctx.out_of_time():
            ctx.notes.append(f"stopped at case {it} (time budget)")
            break
        case = gen_case(rng, ctx.tier, it + ctx.shard)
        run_case(ctx, case, rng)
        if it % 97 == 0:
            ctx.sample({k: case[k] for k in ("gen", "obs", "ens", "tags")}
                       if case["ens"].size <= 40 else
                       {"gen": case["gen"], "shape": list(case["ens"].shape),
                        "tags": case["tags"]})


def replay(ctx, case):
    if case.get("kind") == "twogib":
        return run_two_gib(ctx)
    if case.get("kind") == "long":
        run_long_record(ctx, int(case["n"]), int(case["m"]), int(case["seed"]),
                        int(case.get("extra_nan", 0)))
    else:
        run_case(ctx, case)
