"""C18 - computations leave their arguments untouched and are repeatable.

Decided by M-PURE (hyverif/monitors/purity.py): snapshot/compare wrappers on every
public function and method of the quantified modules + a repeat-call monitor.
Workloads: a dedicated adapter table (argument variants: C-contiguous, strided,
Fortran order, integer dtype, pandas, Grid), the workloads of the other properties
re-run in-process under the monitor, and (thorough) the repository's own tests."""
import importlib
import json
import os
import subprocess
import sys
import time
import types
import warnings
from collections import Counter
from pathlib import Path

import numpy as np

ID = "C18"
SHARDS = {"quick": 8, "thorough": 16}
BUDGET = {"quick": 300, "thorough": 1800}
ENGINE = "purity monitor"
TECHNIQUE = ("runtime monitoring: argument snapshot/compare wrappers installed on "
             "every public function / method + repeat-call comparison under a "
             "restored RNG state")
RULE = ("adapter table over the public functions of metrics, sutils, armodels, "
        "transform (13 classes), dutils, qualitycontrol, signatures, Grid / "
        "Catchment methods and grid-level functions, gutils, boxplot_stats / "
        "Boxplot / Violin, putils.kde / ecdfplot / qqplot, each with argument "
        "variants {C-contiguous float64, strided [::2], Fortran order, integer "
        "dtype, pandas Series / DataFrame, Grid}; plus the quick workloads of the "
        "other properties replayed in-process under the same wrappers; plus "
        "(thorough) the repository's own test-suite under a pytest plugin. "
        "Non-trivial: a monitored call with at least one array-like argument; "
        "distinct by (function, argument variant, argument digest).")
ASSUMPTIONS = [
    "self, and parameters documented as outputs (points_inside_polygon(inside=)) "
    "are exempt; grid arguments are compared on cell values (their dtype may be "
    "converted)",
    "repeat calls restore numpy's global RNG state; results compared bitwise for "
    "arrays (NaN = NaN), by values / index / columns for frames; matplotlib "
    "artists and other objects are compared by type only",
    "functions imported by name into another module before the wrappers are "
    "installed are only monitored through their defining module",
]
OBLIGATIONS = {"adapter-call": 300, "variant:contiguous": 50, "variant:strided": 50,
               "variant:fortran": 10, "variant:int": 30, "variant:pandas": 30,
               "variant:grid": 10, "variant:nan": 30, "variant:nanrow": 30,
               "history:transform": 50, "history:output-buffer": 1, "repeat-call": 100, "replayed-workload": 5}
ANCHORED = ["hydrodiy.stat.metrics.crps", "hydrodiy.stat.metrics.anderson_darling_test",
            "hydrodiy.stat.metrics.dscore", "hydrodiy.stat.sutils.pareto_front",
            "hydrodiy.stat.sutils.lstsq", "hydrodiy.stat.armodels.armodel_sim",
            "hydrodiy.stat.armodels.armodel_residual", "hydrodiy.data.dutils.aggregate",
            "hydrodiy.data.dutils.flathomogen", "hydrodiy.gis.gutils.points_inside_polygon",
            "hydrodiy.plot.boxplot.boxplot_stats", "hydrodiy.plot.putils.kde",
            "hydrodiy.stat.transform.Transform.forward",
            "hydrodiy.gis.grid.Catchment.delineate_boundary"]
VERIF = Path(__file__).resolve().parent.parent.parent


class V:
    """argument variants"""
    names = ["contiguous", "strided", "fortran", "int", "pandas", "nan", "nanrow"]

    def __init__(self, kind, rng):
        self.kind = kind
        self.rng = rng

    def a1(self, base):
        import pandas as pd
        base = np.asarray(base, dtype=float)
        k = self.kind
        if k == "strided":
            big = np.zeros(2 * len(base))
            big[::2] = base
            return big[::2]
        if k == "int":
            return np.round(base * 4).astype(np.int64)
        if k == "pandas":
            return pd.Series(base.copy())
        if k in ("nan", "nanrow") and len(base) >= 6:
            b = np.ascontiguousarray(base.copy())
            b[[0, 1, len(b) // 2, -1]] = np.nan      # missing data at both ends
            return b
        return np.ascontiguousarray(base.copy())

    def a2(self, base):
        import pandas as pd
        base = np.asarray(base, dtype=float)
        k = self.kind
        if k == "strided":
            big = np.zeros((2 * base.shape[0], base.shape[1]))
            big[::2] = base
            return big[::2]
        if k == "fortran":
            return np.asfortranarray(base.copy())
        if k == "int":
            return np.round(base * 4).astype(np.int64)
        if k == "pandas":
            return pd.DataFrame(base.copy())
        if k == "nan" and base.shape[0] >= 6:
            b = np.ascontiguousarray(base.copy())
            b[[0, base.shape[0] // 2, -1], 0] = np.nan
            return b
        if k == "nanrow" and base.shape[0] >= 6:
            # time steps missing in every column
            b = np.ascontiguousarray(base.copy())
            b[[1, base.shape[0] // 3, -2], :] = np.nan
            return b
        return np.ascontiguousarray(base.copy())


def adapters(rng):
    """list of (label, callable(V))"""
    import pandas as pd
    from hydrodiy.stat import metrics, sutils, armodels, transform
    from hydrodiy.data import dutils, qualitycontrol as qc, signatures
    from hydrodiy.gis import grid as g, gutils
    from hydrodiy.plot import putils, boxplot, violinplot
    import matplotlib
    matplotlib.use("Agg")
    import matplotlib.pyplot as plt
    n, m = 40, 6
    obs = np.abs(rng.normal(size=n)) + 0.5
    sim = obs * np.exp(rng.normal(size=n) * 0.2)
    ens = obs[:, None] * np.exp(rng.normal(size=(n, m)) * 0.3)
    u = rng.random(n)
    cat = rng.integers(0, 3, size=n)
    A = []
    add = A.append
    add(("metrics.pit", lambda v: metrics.pit(v.a1(obs), v.a2(ens))))
    add(("metrics.pit-random", lambda v: metrics.pit(v.a1(obs), v.a2(ens), random=True)))
    add(("metrics.crps", lambda v: metrics.crps(v.a1(obs), v.a2(ens))))
    add(("metrics.anderson_darling_test", lambda v: metrics.anderson_darling_test(
        np.clip(np.asarray(v.a1(u), dtype=float) if v.kind != "int" else u, 0.01, 0.99)
        if v.kind in ("int", "pandas") else v.a1(u))))
    add(("metrics.cramer_von_mises_test", lambda v: metrics.cramer_von_mises_test(
        np.asarray(v.a1(u)) if v.kind == "pandas" else v.a1(u))))
    for typ in ("CV", "KS", "AD"):
        add((f"metrics.alpha-{typ}", lambda v, typ=typ: metrics.alpha(v.a1(obs), v.a2(ens),
                                                                    type=typ)))
    add(("metrics.iqr", lambda v: metrics.iqr(v.a2(ens), v.a2(ens[:, ::-1] * 1.5))))
    for nm in ("bias", "nse", "kge"):
        add((f"metrics.{nm}", lambda v, nm=nm: getattr(metrics, nm)(v.a1(obs), v.a1(sim))))
        add((f"metrics.{nm}-log", lambda v, nm=nm: getattr(metrics, nm)(
            v.a1(obs), v.a1(sim), transform.get_transform("Log", nu=0.1), True)))
    add(("metrics.dscore", lambda v: metrics.dscore(v.a1(obs), v.a2(ens))))
    add(("metrics.dscore-1d", lambda v: metrics.dscore(v.a1(obs), v.a2(ens[:, :1]))))
    add(("metrics.corr", lambda v: metrics.corr(v.a1(obs), v.a2(ens), type="Spearman")))
    add(("metrics.absolute_peak_error", lambda v: metrics.absolute_peak_error(
        v.a1(np.tile(obs, 20)), v.a1(np.tile(sim, 20)))))
    add(("metrics.relative_percentile_error", lambda v: metrics.relative_percentile_error(
        np.asarray(v.a1(obs)), np.asarray(v.a1(sim)), [10, 90])))
    add(("metrics.confusion_matrix", lambda v: metrics.confusion_matrix(
        v.a1(cat), v.a1(cat[::-1].copy()))))
    add(("metrics.binary", lambda v: metrics.binary(v.a2(np.array([[20., 3.], [4., 9.]])))))
    add(("sutils.acf", lambda v: sutils.acf(np.asarray(v.a1(obs)), 3)))
    sel = (np.arange(n) % 3 != 0)
    add(("sutils.acf-idx-bool", lambda v: sutils.acf(np.asarray(v.a1(obs), dtype=float), 2,
                                                     idx=sel.copy() if v.kind != "strided"
                                                     else np.repeat(sel, 2)[::2])))
    add(("sutils.acf-idx-int", lambda v: sutils.acf(np.asarray(v.a1(obs), dtype=float), 1,
                                                    idx=sel.astype(np.int64))))
    add(("sutils.lhs", lambda v: sutils.lhs(7, v.a1(np.zeros(3)), v.a1(np.ones(3) * 2))))
    add(("sutils.ppos", lambda v: (sutils.ppos(11), sutils.ppos(11, 0.3), sutils.ppos(4))))
    add(("metrics.scores", lambda v: (metrics.nse(v.a1(obs), v.a1(sim)),
                                      metrics.kge(v.a1(obs), v.a1(sim)),
                                      metrics.bias(v.a1(obs), v.a1(sim)))))
    add(("metrics.alpha", lambda v: metrics.alpha(v.a1(obs), v.a2(ens))))
    add(("boxplot.compute_percentiles", lambda v: boxplot.compute_percentiles(72.5)))
    add(("sutils.lhs_norm", lambda v: sutils.lhs_norm(7, np.asarray(v.a1(np.zeros(2))),
                                                     v.a2(np.eye(2)))))
    add(("sutils.standard_normal", lambda v: sutils.standard_normal(v.a1(obs))))
    add(("sutils.semicorr", lambda v: sutils.semicorr(
        np.asarray(v.a2(rng.normal(size=(60, 2)))) if v.kind == "pandas"
        else v.a2(np.random.default_rng(1).normal(size=(60, 2))))))
    add(("sutils.pareto_front", lambda v: sutils.pareto_front(
        np.asarray(v.a2(ens)) if v.kind == "pandas" else v.a2(ens))))
    add(("sutils.lstsq", lambda v: sutils.lstsq(v.a2(ens[:, :2]), v.a1(obs))))
    add(("sutils.lstsq-intercept", lambda v: sutils.lstsq(v.a2(ens[:, :2]), v.a1(obs),
                                                         add_intercept=True)))
    add(("armodels.armodel_sim", lambda v: armodels.armodel_sim(
        v.a1(np.array([0.5, 0.2])), np.asarray(v.a1(sim)) if v.kind == "pandas" else v.a1(sim))))
    add(("armodels.armodel_residual", lambda v: armodels.armodel_residual(
        v.a1(np.array([0.5, 0.2])), np.asarray(v.a1(sim)) if v.kind == "pandas" else v.a1(sim))))
    add(("armodels.yule_walker", lambda v: armodels.yule_walker(
        np.asarray(v.a1(np.array([1.0, 0.5, 0.25]))))))
    from hyverif.props.c12 import TRANSFORMS, SETUP
    for tn in TRANSFORMS:
        def tcall(v, tn=tn):
            t = transform.get_transform(tn, **SETUP.get(tn, {}))
            if tn == "Softmax":
                x = v.a2(np.array([[0.1, 0.2, 0.3], [0.25, 0.25, 0.25]]))
                if v.kind == "int":
                    return None
            elif tn == "Logit":
                x = v.a1(np.array([0.1, 0.5, 0.9, 0.3]))
            else:
                x = v.a1(np.array([0.05, 0.5, 1.5, 2.5]))
            if v.kind == "int" and tn in ("Logit",):
                return None
            y = t.forward(x)
            t.backward(y)
            t.jacobian(x)
            if tn != "Softmax":
                t.backward_censored(y, 0.5)
            return None
        add((f"transform.{tn}", tcall))
    days = pd.date_range("2001-01-01", periods=n, freq="D")
    add(("dutils.sequence_true", lambda v: dutils.sequence_true(np.asarray(v.a1(obs)) > 1)))
    add(("dutils.dayofyear", lambda v: dutils.dayofyear(days)))
    add(("dutils.compute_aggindex", lambda v: dutils.compute_aggindex(days, "MS")))
    aggidx = np.sort(rng.integers(0, 5, size=n)).astype(np.int32)
    add(("dutils.aggregate", lambda v: dutils.aggregate(
        v.a1(aggidx), np.asarray(v.a1(obs)) if v.kind == "pandas" else v.a1(obs), 0, 0)))
    add(("dutils.flathomogen", lambda v: dutils.flathomogen(
        v.a1(aggidx), np.asarray(v.a1(obs)) if v.kind == "pandas" else v.a1(obs), 0)))
    add(("dutils.lag", lambda v: dutils.lag(np.asarray(v.a1(obs)), 2)))
    mser = pd.Series(np.abs(rng.normal(size=36)), index=pd.date_range("2001-01-01",
                                                                     periods=36, freq="MS"))
    add(("dutils.water_year_end", lambda v: dutils.water_year_end(mser)))
    add(("dutils.monthly2daily", lambda v: dutils.monthly2daily(mser)))
    add(("dutils.monthly2daily-cubic", lambda v: dutils.monthly2daily(mser, "cubic")))
    vser = pd.Series(np.abs(rng.normal(size=30)),
                     index=pd.Timestamp("2000-01-01 00:10") +
                     pd.to_timedelta(np.cumsum(rng.integers(60, 3000, size=30)), unit="s"))
    add(("dutils.var2h", lambda v: dutils.var2h(vser)))
    add(("qc.ismisscens", lambda v: qc.ismisscens(np.asarray(v.a1(obs)))))
    # options that may be arrays (one detection limit per sample, 0-d arrays)
    add(("qc.ismisscens-array-options", lambda v: (
        qc.ismisscens(np.asarray(v.a1(obs), dtype=float), censor=v.a1(obs * 0 + 0.7),
                      eps=0.05),
        qc.ismisscens(np.asarray(v.a1(obs), dtype=float), censor=np.array(0.7),
                      eps=np.array(0.05)),
        qc.ismisscens(np.asarray(v.a1(obs), dtype=float), censor=np.array([0.7])))))
    add(("qc.islinear", lambda v: qc.islinear(
        np.asarray(v.a1(obs), dtype=float) if v.kind in ("pandas", "int") else v.a1(obs))))
    add(("signatures.eckhardt", lambda v: signatures.eckhardt(v.a1(obs))))
    add(("signatures.fdcslope", lambda v: signatures.fdcslope(np.asarray(v.a1(obs)))))
    add(("signatures.goue", lambda v: signatures.goue(
        v.a1(aggidx), np.asarray(v.a1(obs)) if v.kind == "pandas" else v.a1(obs))))
    # ---- gis
    from hyverif.props.c06 import gen_forest
    codes = gen_forest(np.random.default_rng(3), 6, 7, 1)

    def mk():
        fd = g.Grid("fd", 7, 6, dtype=np.int64)
        fd.data = codes
        return fd

    xy = rng.uniform(0, 6, size=(12, 2))
    def gset(v):
        # data assigned to a grid that already has bounds / no bounds, same and
        # different dtype, values outside the bounds
        vals = rng.normal(size=(6, 7)) * 3
        for dt in (np.float64, np.int32):
            for bounds in ((None, None), (-1, 1), (0, None)):
                gg = g.Grid("b", 7, 6, dtype=dt)
                if bounds[0] is not None:
                    gg.mindata = bounds[0]
                if bounds[1] is not None:
                    gg.maxdata = bounds[1]
                arr = v.a2(vals)
                if v.kind == "contiguous":
                    arr = np.ascontiguousarray(np.asarray(arr).astype(dt))
                gg.data = arr
                gg.fill(0)
        one = g.Grid("r", 7, 1)
        one.mindata = 0
        one.data = np.asarray(v.a1(vals[0]), dtype=float) if v.kind != "pandas" \
            else np.asarray(vals[0])
        return None
    add(("Grid.data-setter", gset))
    add(("Grid.coord2cell", lambda v: mk().coord2cell(v.a2(xy))))
    add(("Grid.cell2coord", lambda v: mk().cell2coord(v.a1(np.arange(10)))))
    add(("Grid.cell2rowcol", lambda v: mk().cell2rowcol(v.a1(np.arange(10)))))
    add(("Grid.slice", lambda v: mk().slice(v.a2(xy))))
    add(("Grid.cells_inside_polygon", lambda v: mk().cells_inside_polygon(
        np.asarray(v.a2(np.array([[0.5, 0.5], [5, 1], [4, 5], [1, 4]]))))))
    add(("Grid.clip", lambda v: mk().clip(1.2, 1.2, 4.5, 4.5)))
    add(("Grid.interpolate", lambda v: mk().clone(np.float64).interpolate(
        g.Grid("o", 4, 4, cellsize=1.5))))
    add(("gutils.points_inside_polygon", lambda v: gutils.points_inside_polygon(
        np.asarray(v.a2(xy)), np.asarray(v.a2(np.array([[0.5, 0.5], [5, 1], [4, 5],
                                                       [1, 4]]))))))

    def catch():
        c = g.Catchment("c", mk())
        return c

    def cdel(v):
        c = catch()
        c.upstream(v.a1(np.arange(5)))
        c.downstream(v.a1(np.arange(5)))
        c.delineate_area(int(np.argmax(codes == 0)) if (codes == 0).any() else 20,
                         v.a1(np.array([3])))
        if len(c.idxcells_area):
            c.delineate_boundary()
            c.compute_flowpathlengths()
            c.intersect(g.Grid("c", 4, 4, cellsize=2.0))
            g.voronoi(c, v.a2(xy[:3]))
        return None
    add(("Catchment.*", cdel))

    def gfun(v):
        fd = mk()
        ta = g.Grid("ta", 7, 6)
        ta.data = np.abs(rng.normal(size=(6, 7)))
        g.accumulate(fd, ta)
        g.accumulate(mk())
        g.slope(mk(), ta)
        g.delineate_river(mk(), 0)
        gr = g.Grid("s", 7, 6)
        gr.data = rng.normal(size=(6, 7))
        mask = g.Grid("m", 7, 6, dtype=np.int64)
        mask.data = (rng.random((6, 7)) > 0.2).astype(np.int64)
        with warnings.catch_warnings():
            warnings.simplefilter("ignore")
            g.gsmooth(gr, mask, coastwin=3, sigma=0.5)
        return None
    add(("grid-functions", gfun))
    # ---- plot
    add(("putils.kde", lambda v: putils.kde(np.asarray(v.a2(rng.normal(size=(50, 2))))
                                            if v.kind == "pandas" else
                                            v.a2(np.random.default_rng(2).normal(size=(50, 2))))))

    def pl(v):
        fig, ax = plt.subplots()
        try:
            df = pd.DataFrame(np.asarray(v.a2(ens), dtype=float))
            putils.ecdfplot(ax, df)
            putils.qqplot(ax, np.asarray(v.a1(obs), dtype=float))
        finally:
            plt.close(fig)
    add(("putils.ecdfplot-qqplot", pl))
    add(("boxplot.boxplot_stats", lambda v: boxplot.boxplot_stats(
        np.asarray(v.a1(obs), dtype=float), 50, 90)))
    add(("boxplot.Boxplot", lambda v: boxplot.Boxplot(v.a2(ens)).stats))
    add(("boxplot.Boxplot-by", lambda v: boxplot.Boxplot(
        v.a1(obs), by=pd.Series(cat)).stats))
    add(("violinplot.Violin", lambda v: violinplot.Violin(v.a2(ens)).stats))
    return A


def fake_ctx(ctx, prop, budget):
    from hyverif.core import Ctx
    c = Ctx(prop, "quick", ctx.seed, 0, 16)
    c.deadline = time.time() + budget
    return c


def record(ctx, label):
    """move the monitor's violations into the context"""
    from hyverif.monitors import purity
    st = purity.STATE
    for v in st.violations:
        key = f"{v['function'].replace('hydrodiy.', '')}|{v['kind']}" + \
            (f"|{v['param']}" if v.get("param") else "")
        ctx.violate(key, v["kind"], {"kind": "adapter", "label": label},
                    dict(v, during=label))
    st.violations.clear()


def run_histories(ctx):
    """'The same call twice returns the same result' over call histories: the second
    call comes after *other* read-only calls on the same object, or after the same
    output buffer has served another call."""
    from hydrodiy.stat import transform
    from hydrodiy.gis import gutils
    from hyverif.props.c12 import TRANSFORMS, SETUP, ASSIGN
    from hyverif.core import same_result
    import itertools
    rng = np.random.default_rng(ctx.seed + 17)
    for tn in TRANSFORMS:
        if tn == "Softmax":
            continue
        x = np.array([0.1, 0.5, 0.9, 0.3]) if tn == "Logit" else \
            np.array([0.05, 0.5, 1.5, 2.5])
        for order in itertools.permutations(("jacobian", "forward", "backward")):
            t = transform.get_transform(tn, **SETUP.get(tn, {}))
            t.forward(x.copy())                       # used once with its defaults
            for (k, val) in ASSIGN.get(tn, [])[:2]:   # then re-parameterised
                try:
                    t[k] = val
                except Exception:
                    pass
            first = {}
            for rnd in range(2):
                if rnd == 1:
                    # meanwhile another transform object is built and configured
                    # differently (same class, and every class sharing its options)
                    for other_name in (tn, "LogSinh", "Manly", "BoxCox2"):
                        try:
                            o_ = transform.get_transform(other_name,
                                                         **SETUP.get(other_name, {}))
                            for k_ in list(o_.params.names) + list(o_.constants.names):
                                try:
                                    o_[k_] = float(o_[k_]) * 3.0 + 0.77 \
                                        if np.isfinite(float(o_[k_])) else 123.0
                                except Exception:
                                    pass
                            o_.forward(x.copy())
                        except Exception:
                            pass
                for meth in order:
                    arg = x.copy()
                    if meth == "backward":
                        arg = np.asarray(t.forward(x.copy()), dtype=float)
                    r = np.asarray(getattr(t, meth)(arg), dtype=float)
                    ctx.api(f"Transform.{meth}")
                    if meth in first:
                        ctx.tag("history:transform")
                        ctx.evaluated()
                        ctx.check("history.same-call-same-result",
                                  same_result(r, first[meth], 1e-13),
                                  f"stat.transform.{tn}.{meth}|result-depends-on-call-history",
                                  {"kind": "history", "class": tn, "order": list(order)},
                                  lambda: {"first": first[meth].tolist(),
                                           "later": r.tolist(), "order": list(order)})
                    else:
                        first[meth] = r
    # configuring an object gives the same object whatever read-only calls came first:
    # values far inside the declared range of every parameter (beyond the default
    # sampling box of params_sample where the range is unbounded)
    for tn in TRANSFORMS:
        if tn in ("Softmax", "Identity"):
            continue
        x = np.array([0.1, 0.5, 0.9, 0.3]) if tn == "Logit" else \
            np.array([0.05, 0.5, 1.5, 2.5])
        t0 = transform.get_transform(tn, **SETUP.get(tn, {}))
        mins0 = np.array(t0.params.mins, dtype=float)
        maxs0 = np.array(t0.params.maxs, dtype=float)
        for side in range(3):
            cfg = []
            for lo, hi in zip(mins0, maxs0):
                lo_ = lo if np.isfinite(lo) else [-37.5, -1e3, -11.0][side]
                hi_ = hi if np.isfinite(hi) else [41.0, 1e3, 11.5][side]
                f_ = [0.01, 0.99, 0.5][side]
                cfg.append(lo_ + f_ * (hi_ - lo_))
            cfg = np.array(cfg)

            def configured(prior_calls):
                t = transform.get_transform(tn, **SETUP.get(tn, {}))
                with warnings.catch_warnings(), np.errstate(all="ignore"):
                    warnings.simplefilter("ignore")
                    if prior_calls:
                        for kw in ({}, {"minval": -3.0, "maxval": 3.0}):
                            try:
                                t.params_sample(7, **kw)
                            except Exception:
                                pass
                        t.params_logprior()
                        str(t)
                        try:
                            t.forward(x.copy())
                        except Exception:
                            pass
                    bounds = (np.array(t.params.mins, dtype=float),
                              np.array(t.params.maxs, dtype=float))
                    try:
                        t.params.values = cfg.copy()
                        vals = np.array(t.params.values, dtype=float)
                        out = np.asarray(t.forward(x.copy()), dtype=float)
                    except Exception as e:
                        vals, out = repr(type(e)), None
                return bounds, vals, out
            b1, v1, o1 = configured(False)
            b2, v2, o2 = configured(True)
            ctx.api("Transform.params_sample", 2)
            ctx.tag("history:configure-after-read-only-calls")
            ctx.evaluated()
            case_ = {"kind": "history-config", "class": tn, "values": cfg.tolist()}
            ctx.check("history.bounds-kept", bool(np.array_equal(b1[0], b2[0])) and
                      bool(np.array_equal(b1[1], b2[1])),
                      f"stat.transform.{tn}|parameter-bounds-changed-by-read-only-calls",
                      case_, lambda: {"fresh": [b1[0].tolist(), b1[1].tolist()],
                                      "after": [b2[0].tolist(), b2[1].tolist()]})
            ctx.check("history.same-configuration",
                      same_result(v1, v2, 0) and same_result(o1, o2, 1e-13),
                      f"stat.transform.{tn}|configuration-depends-on-earlier-read-only-calls",
                      case_, lambda: {"values_fresh": np.asarray(v1).tolist(),
                                      "values_after": np.asarray(v2).tolist()})
    # reset - set one parameter by name - reset: back to the defaults, i.e. the answers
    # of a new object
    for tn in TRANSFORMS:
        if tn in ("Softmax", "Identity"):
            continue
        x = np.array([0.1, 0.5, 0.9, 0.3]) if tn == "Logit" else \
            np.array([0.05, 0.5, 1.5, 2.5])
        fresh = transform.get_transform(tn, **SETUP.get(tn, {}))
        t = transform.get_transform(tn, **SETUP.get(tn, {}))
        with warnings.catch_warnings(), np.errstate(all="ignore"):
            warnings.simplefilter("ignore")
            want = np.asarray(fresh.forward(x.copy()), dtype=float)
            wantp = np.array(fresh.params.values, dtype=float)
            for rnd in range(2):
                t.reset()
                for (k, val) in ASSIGN.get(tn, [])[:2]:
                    if k not in list(t.params.names):
                        continue
                    try:
                        if rnd:
                            t[k] = val
                        else:
                            setattr(t, k, val)
                    except Exception:
                        pass
                t.forward(x.copy())
            t.reset()
            got = np.asarray(t.forward(x.copy()), dtype=float)
            gotp = np.array(t.params.values, dtype=float)
        ctx.api("Transform.reset", 3)
        ctx.tag("history:reset-set-reset")
        ctx.evaluated()
        ctx.check("history.reset-restores-defaults",
                  same_result(gotp, wantp, 0) and same_result(got, want, 1e-13),
                  f"stat.transform.{tn}|reset-does-not-restore-defaults-after-a-parameter-was-set",
                  {"kind": "history-reset", "class": tn},
                  lambda: {"params_after_reset": gotp.tolist(), "defaults": wantp.tolist()})
    # the same call before and after *other* calls of the function with other options and
    # data (a tolerance, a tie rule, an order): options of one call do not outlive it
    from hydrodiy.stat import metrics as _mt, armodels as _ar, sutils as _su
    r_ = np.random.default_rng(ctx.seed + 29)
    n_, m_ = 12, 7
    # members of different forecasts 1e-9 .. 1e-11 apart: their order decides the score
    base_e = np.round(r_.normal(size=(n_, m_)), 2)
    ens_ = base_e + r_.choice([0.0, 1e-9, -1e-9, 3e-10, 1e-11], size=(n_, m_))
    obs_ = np.round(r_.normal(size=n_), 2) + np.arange(n_) * 1e-3
    probes = {
        "stat.metrics.dscore": (lambda: _mt.dscore(obs_, ens_),
                                [lambda: _mt.dscore(obs_, ens_, eps=1e-12),
                                 lambda: _mt.dscore(obs_[::-1].copy(), ens_, eps=1e-15),
                                 lambda: _mt.dscore(obs_, ens_ * 1e6, eps=0.5)]),
        "stat.metrics.pit": (lambda: _mt.pit(obs_, ens_)[0],
                             [lambda: _mt.pit(obs_, ens_, censor=0.5, kind="weak"),
                              lambda: _mt.pit(obs_ * 0, ens_, random=True)]),
        "stat.armodels.armodel_sim": (lambda: _ar.armodel_sim(np.array([0.5, 0.2]), obs_),
                                      [lambda: _ar.armodel_sim(0.9, obs_[:5], sim_mean=3.0),
                                       lambda: _ar.armodel_residual(np.array([0.1] * 10),
                                                                    obs_, sim_ini=7.0)]),
        "stat.sutils.ppos": (lambda: _su.ppos(9), [lambda: _su.ppos(9, 0.5),
                                                   lambda: _su.ppos(3, 0.0)]),
    }
    # small ensembles in which members of two different forecasts are a sliver apart
    # (well below the tie tolerance): whether they count as tied decides the score
    for k_ in range(40):
        nq, mq = int(r_.integers(4, 9)), int(r_.integers(2, 4))
        sq = np.round(r_.uniform(0, 10, size=(nq, mq)), 1)
        for _ in range(int(r_.integers(1, 4))):
            i_, j_ = sorted(r_.choice(nq, size=2, replace=False))
            sq[j_, int(r_.integers(0, mq))] = sq[i_, int(r_.integers(0, mq))] - \
                float(r_.choice([1e-9, 3e-10, -1e-9, 5e-11]))
        oq = np.round(r_.uniform(0, 10, size=nq), 2)
        probes[f"stat.metrics.dscore#{k_}"] = (
            lambda oq=oq, sq=sq: _mt.dscore(oq, sq),
            [lambda: _mt.dscore(r_.uniform(size=8), r_.uniform(size=(8, 3)),
                                eps=float(10.0 ** -r_.integers(9, 20)))])
    # (all the first answers are taken before any of the other calls is made: an option
    # that outlives its call would otherwise already be in force for the later probes)
    with warnings.catch_warnings(), np.errstate(all="ignore"):
        warnings.simplefilter("ignore")
        firsts = {lab: main() for lab, (main, _) in probes.items()}
        for lab, (_, others) in probes.items():
            for o_ in others:
                try:
                    o_()
                except Exception:
                    pass
        laters = {lab: main() for lab, (main, _) in probes.items()}
    for lab, (main, others) in probes.items():
        first, later = firsts[lab], laters[lab]
        ctx.api(lab.split(".")[-1], 2 + len(others))
        ctx.tag("history:other-options-in-between")
        ctx.evaluated()
        ctx.check("history.same-call-same-result", same_result(later, first, 0),
                  f"{lab.split('#')[0]}|result-depends-on-options-of-earlier-calls",
                  {"kind": "history-options", "function": lab},
                  lambda: {"first": np.asarray(first).ravel()[:4].tolist(),
                           "later": np.asarray(later).ravel()[:4].tolist()})
    # a caller-supplied answer vector that has served another call before
    big = np.array([[-10., -10.], [10., -10.], [10., 10.], [-10., 10.]])
    small = np.array([[0., 0.], [1., 0.], [1., 1.], [0., 1.]])
    pts = rng.uniform(-8, 8, size=(300, 2))
    fresh = np.asarray(gutils.points_inside_polygon(pts.copy(), small.copy())).copy()
    buf = np.zeros(len(pts), dtype=np.int32)
    gutils.points_inside_polygon(pts.copy(), big.copy(), inside=buf)
    again = np.asarray(gutils.points_inside_polygon(pts.copy(), small.copy(), inside=buf))
    ctx.api("points_inside_polygon", 3)
    ctx.tag("history:output-buffer")
    ctx.evaluated()
    ctx.check("history.buffer-reused", bool(np.array_equal(again, fresh)),
              "gis.gutils.points_inside_polygon|result-depends-on-previous-use-of-buffer",
              {"kind": "history", "what": "inside-buffer"},
              lambda: {"inside_fresh": int(fresh.sum()), "inside_reused": int(again.sum())})


def run_grid_ownership(ctx):
    """Grid arguments keep their cell values whatever is done afterwards with what a
    call returned (clone with and without a dtype, apply, the Catchment built on a flow
    grid), and whatever the function handed to apply does with the array it receives."""
    from hydrodiy.gis import grid as gg
    rng = np.random.default_rng(ctx.seed + 23)
    # grid-level functions: the grids handed to accumulate hold the same cell values
    # afterwards, compared as exact integers (a count field of 64-bit integers beyond
    # 2**53 does not survive a detour through doubles), and the same grid may be given
    # twice (flow directions accumulated along themselves)
    for it in range(12):
        nr, nc = int(rng.integers(2, 6)), int(rng.integers(2, 6))
        codes = rng.choice([1, 2, 4, 8, 16, 32, 64, 128, 0], size=(nr, nc))
        for fdt, adt, big in ((np.int64, np.int64, 2 ** 53 + 1), (np.uint8, np.int64, 2 ** 60 + 7),
                              (np.int32, np.uint64, 2 ** 63 + 2 ** 10 + 1),
                              (np.int64, np.float64, 0), (np.int16, np.int32, 2 ** 31 - 1),
                              (np.int64, None, 0)):
            fd = gg.Grid("fd", nc, nr, dtype=fdt)
            fd.data = codes.astype(fdt)
            ctx.api("accumulate")
            ctx.tag("ownership:accumulate-arguments")
            ctx.evaluated()
            case_ = {"kind": "ownership", "how": "accumulate", "flow_dtype": np.dtype(fdt).name,
                     "field_dtype": "same-grid" if adt is None else np.dtype(adt).name,
                     "codes": codes}
            if adt is None:
                ta = fd
            else:
                ta = gg.Grid("ta", nc, nr, dtype=adt)
                fld = rng.integers(1, 50, size=(nr, nc)).astype(adt)
                if big:
                    fld[int(rng.integers(0, nr)), int(rng.integers(0, nc))] = big
                ta.data = fld
            b_fd = [int(x) for x in np.asarray(fd.data).ravel()]
            b_ta = [x.item() for x in np.asarray(ta.data).ravel()]
            try:
                with warnings.catch_warnings():
                    warnings.simplefilter("ignore")
                    gg.accumulate(fd, ta, nprint=0) if it % 2 else gg.accumulate(fd, ta)
            except Exception as e:
                ctx.extra["accumulate-refused:" + type(e).__name__] += 1
            a_fd = [int(x) for x in np.asarray(fd.data).ravel()]
            a_ta = [x.item() for x in np.asarray(ta.data).ravel()]
            ctx.check("ownership.accumulate-arguments",
                      a_fd == b_fd and all(x == y for x, y in zip(a_ta, b_ta)),
                      "gis.grid.accumulate|cell-values-of-a-grid-argument-changed", case_,
                      lambda: {"field_before": b_ta[:8], "field_after": a_ta[:8],
                               "flow_before": b_fd[:8], "flow_after": a_fd[:8]})
    for dt in (np.float64, np.float32, np.int64, np.int32, np.uint8):
        nr, nc = int(rng.integers(2, 7)), int(rng.integers(2, 7))
        vals = rng.integers(1, 100, size=(nr, nc)).astype(dt)
        g0 = gg.Grid("own", nc, nr, dtype=dt)
        g0.data = vals.copy()
        makers = {"clone()": lambda: g0.clone(),
                  "clone(own dtype)": lambda: g0.clone(g0.dtype),
                  "clone(other dtype)": lambda: g0.clone(np.float64 if dt is not np.float64
                                                         else np.float32),
                  "apply(pure)": lambda: g0.apply(lambda d_: d_ + 0),
                  "apply(identity)": lambda: g0.apply(lambda d_: d_),
                  "clip": lambda: g0.clip(0.5, 0.5, nc - 0.5, nr - 0.5)}
        for nm, mk in makers.items():
            ctx.api("Grid." + nm.split("(")[0])
            ctx.tag("ownership:grid")
            ctx.evaluated()
            case_ = {"kind": "ownership", "how": nm, "dtype": np.dtype(dt).name}
            try:
                res = mk()
                before = np.array(g0.data, copy=True)
                res.fill(dt(3))
                res.data[...] = dt(5)
                ok1 = bool(np.array_equal(np.asarray(g0.data), before))
                keep = np.array(res.data, copy=True)
                g0.fill(dt(9))
                ok2 = bool(np.array_equal(np.asarray(res.data), keep))
                g0.data = vals.copy()
            except Exception as e:
                ctx.check("ownership.runs", False, f"gis.grid.Grid.{nm}|raises", case_,
                          {"exc": repr(e)[:200]})
                g0.data = vals.copy()
                continue
            ctx.check("ownership.argument-kept", ok1,
                      f"gis.grid.Grid.{nm}|grid-changes-when-the-result-is-edited", case_,
                      None)
            ctx.check("ownership.result-kept", ok2,
                      f"gis.grid.Grid.{nm}|result-changes-when-the-grid-is-edited", case_,
                      None)
        # the function given to apply may work in place on what it receives
        for nm, fun in {"in-place-add": lambda d_: np.add(d_, 1, out=d_),
                        "in-place-mask": lambda d_: (d_.__setitem__((0, 0), 0), d_ * 2)[1],
                        "in-place-sort": lambda d_: (d_.sort(axis=1), d_)[1],
                        "fill": lambda d_: (d_.fill(7), d_)[1]}.items():
            ctx.api("Grid.apply")
            ctx.tag("ownership:apply-in-place-function")
            ctx.evaluated()
            case_ = {"kind": "ownership", "how": "apply:" + nm, "dtype": np.dtype(dt).name}
            g0.data = vals.copy()
            try:
                r1 = np.array(g0.apply(fun).data, copy=True)
                after1 = np.array(g0.data, copy=True)
                r2 = np.array(g0.apply(fun).data, copy=True)
            except Exception as e:
                ctx.extra[f"apply-refused:{nm}"] += 1
                continue
            ctx.check("apply.grid-kept", bool(np.array_equal(after1, vals)),
                      "gis.grid.Grid.apply|grid-changed-by-the-function-applied", case_,
                      lambda: {"before": vals.ravel()[:6].tolist(),
                               "after": after1.ravel()[:6].tolist()})
            ctx.check("apply.repeatable", bool(np.array_equal(r1, r2)),
                      "gis.grid.Grid.apply|second-call-differs", case_, None)
        # a catchment built on a flow grid: later edits of the caller's grid do not
        # reach it, and delineating does not touch the caller's grid
        codes = np.full((nr, nc), 4, dtype=np.int64)
        codes[nr - 1, :] = 0
        fd = gg.Grid("fd", nc, nr, dtype=np.int64)
        fd.data = codes.copy()
        cat = gg.Catchment("c", fd)
        out = (nr - 1) * nc
        cat.delineate_area(out)
        a1 = sorted(int(v) for v in cat.idxcells_area)
        fd.fill(0)
        fd.data[...] = 0
        cat.delineate_area(out)
        a2 = sorted(int(v) for v in cat.idxcells_area)
        ctx.api("Catchment")
        ctx.tag("ownership:catchment-flow-grid")
        ctx.evaluated()
        # a catchment rebuilt from a dictionary whose cell lists are the caller's own
        # int64 arrays (in the upstream-walk order delineate_area gives): every later
        # method leaves those arrays as they are
        codes2 = np.full((nr, nc), 4, dtype=np.int64)
        codes2[nr - 1, :] = 16
        codes2[nr - 1, 0] = 0
        fd2 = gg.Grid("fd", nc, nr, dtype=np.int64)
        fd2.data = codes2
        c_src = gg.Catchment("c", fd2)
        c_src.delineate_area((nr - 1) * nc)
        dic = c_src.to_dict()
        mine = {k: np.array(dic[k], dtype=np.int64)[::-1].copy()
                for k in ("idxcells_area", "idxcells_area_filled")}
        keep_ = {k: v.copy() for k, v in mine.items()}
        dic.update(mine)
        try:
            c_new = gg.Catchment.from_dict(dic)
            for meth in ("delineate_boundary", "compute_flowpathlengths", "extent"):
                try:
                    getattr(c_new, meth)()
                except Exception:
                    pass
            ctx.api("Catchment.from_dict", 4)
            ctx.tag("ownership:from_dict-arrays")
            ctx.check("from_dict.arrays-kept",
                      all(np.array_equal(mine[k], keep_[k]) for k in mine),
                      "gis.grid.Catchment.from_dict|caller-arrays-changed-by-later-methods",
                      {"kind": "ownership", "how": "from_dict + delineate_boundary"},
                      lambda: {k: [keep_[k][:6].tolist(), mine[k][:6].tolist()]
                               for k in mine})
        except Exception as e:
            ctx.extra["from_dict-arrays-refused"] += 1
        # sums and differences of catchments answer for their own cells, whatever was
        # asked of their operands before
        try:
            nr3, nc3 = max(nr, 3), nc
            codes3 = np.full((nr3, nc3), 4, dtype=np.int64)
            codes3[nr3 - 1, :] = 16
            codes3[nr3 - 1, 0] = 0
            fd3 = gg.Grid("fd", nc3, nr3, dtype=np.int64)
            fd3.data = codes3
            cg_ = gg.Grid("coarse", 3, 3, cellsize=max(nr3, nc3) / 3.0 + 0.5)
            whole = gg.Catchment("w", fd3)
            whole.delineate_area((nr3 - 1) * nc3)
            part = gg.Catchment("p", fd3)
            part.delineate_area((nr3 - 2) * nc3)      # the first column above the outlet
            whole.intersect(cg_)                      # (asked first of the operand)
            part.intersect(cg_)
            for nm_, comb in (("difference", whole - part), ("sum", part + whole)):
                _, ic_, w_ = comb.intersect(cg_)
                fresh = gg.Catchment.from_dict(comb.to_dict())
                _, icf, wf = fresh.intersect(cg_)
                ctx.api("Catchment.intersect", 2)
                ctx.tag("ownership:combined-catchments")
                ctx.check("combined.intersect", sorted(zip(map(int, ic_), map(float, w_))) ==
                          sorted(zip(map(int, icf), map(float, wf))),
                          f"gis.grid.Catchment.intersect|{nm_}-answers-for-its-operand", 
                          {"kind": "ownership", "how": nm_ + " of catchments"},
                          lambda: {"got": sorted(zip(map(int, ic_), map(float, w_)))[:6],
                                   "rebuilt_from_its_own_cells":
                                   sorted(zip(map(int, icf), map(float, wf)))[:6]})
        except Exception as e:
            ctx.extra[f"combined-catchments-refused:{nr}x{nc}:" + type(e).__name__ + ":" +
                      str(e)[:60]] += 1
        ctx.check("catchment.owns-its-flow-grid", a1 == a2 and len(a1) == nr,
                  "gis.grid.Catchment|result-changes-after-caller-edits-its-flow-grid",
                  {"kind": "ownership", "how": "Catchment(flowdir)"},
                  lambda: {"first": a1, "after_edit": a2})


def run_object_histories(ctx):
    """objects that answered before give, after a change of *one* constant or after having
    been drawn with other options, the answers of a new object in the same configuration"""
    from hydrodiy.stat import transform
    from hydrodiy.plot import violinplot
    from hyverif.props.c12 import SETUP
    from hyverif.core import same_result
    import matplotlib
    matplotlib.use("Agg")
    import matplotlib.pyplot as plt
    rng = np.random.default_rng(ctx.seed + 29)
    x = np.array([0.0, 0.01, 0.05, 0.2, 0.5, 1.5, 2.5, 7.0])
    for tn in ("BoxCox1lam", "BoxCox1nu", "LogSinh", "Manly", "Log", "BoxCox2", "Sinh",
               "YeoJohnson", "Reciprocal"):
        t0 = transform.get_transform(tn, **SETUP.get(tn, {}))
        names = list(t0.constants.names) or list(t0.params.names)[:1]
        for cname in names:
            for trial in range(3):
                t = transform.get_transform(tn, **SETUP.get(tn, {}))
                old = float(t[cname])
                lo = float((t.constants.mins if cname in t.constants.names else
                            t.params.mins)[list(t.constants.names if cname in
                                                t.constants.names else t.params.names
                                                ).index(cname)])
                new = [old * 0.025 + (lo if np.isfinite(lo) else 0.0) * 0.975 + 1e-3,
                       old * 2.0 + 0.3, old + 1.0][trial]
                censor = [0.0, 0.1, 0.0][trial]
                ctx.api("Transform.backward_censored", 3)
                ctx.tag("history:one-constant-changed-between-calls")
                ctx.evaluated()
                case_ = {"kind": "history", "class": tn, "changed": cname,
                         "from": old, "to": new, "censor": censor}
                try:
                    y = np.asarray(t.forward(x.copy()), dtype=float)
                    ys = np.concatenate([y, y - 0.7, y[:3] - 5.0])
                    t.backward_censored(ys.copy(), censor)     # the earlier call
                    t[cname] = new
                    twin = transform.get_transform(tn, **SETUP.get(tn, {}))
                    twin[cname] = new
                    if float(twin[cname]) != float(t[cname]):
                        continue
                    a = np.asarray(t.backward_censored(ys.copy(), censor), dtype=float)
                    b = np.asarray(twin.backward_censored(ys.copy(), censor), dtype=float)
                except Exception as e:
                    ctx.extra["history-constant:refused:" + type(e).__name__] += 1
                    continue
                ctx.check("history.constant-changed", same_result(a, b, 1e-13),
                          f"stat.transform.{tn}.backward_censored|"
                          "differs-from-a-new-object-after-a-constant-was-changed", case_,
                          lambda: {"reused_object": a[:8], "new_object": b[:8]})
    # a violin plot drawn zoomed (limits tighter than the data), then asked again
    for it in range(6):
        n_ = int(rng.integers(20, 200))
        data = rng.normal(size=(n_, int(rng.integers(1, 4)))) * [1.0, 50.0][it % 2] + it
        ctx.api("Violin.draw", 3)
        ctx.tag("history:violin-drawn-with-limits")
        ctx.evaluated()
        try:
            vl = violinplot.Violin(data)
            snap = [np.array(np.asarray(getattr(vl, a_).values, dtype=float), copy=True)
                    for a_ in ("kde_x", "kde_y", "stats")]
            lo_, hi_ = np.quantile(data, [0.35, 0.6])
            for kwd in ({}, {"ylim": (float(lo_), float(hi_))}, {}):
                fig, ax = plt.subplots()
                try:
                    vl.draw(ax=ax, **kwd)
                finally:
                    plt.close(fig)
            now = [np.asarray(getattr(vl, a_).values, dtype=float)
                   for a_ in ("kde_x", "kde_y", "stats")]
        except Exception as e:
            ctx.extra["history-violin:refused:" + type(e).__name__] += 1
            continue
        ok = all(same_result(p_, q_, 0.0, 0.0) for p_, q_ in zip(snap, now))
        ctx.check("history.violin-after-draw", ok,
                  "plot.violinplot.Violin|profiles-differ-after-a-draw-with-limits",
                  {"kind": "history", "what": "violin", "n": n_},
                  lambda: {"kde_x_range_before": [float(np.nanmin(snap[0])),
                                                  float(np.nanmax(snap[0]))],
                           "kde_x_range_after": [float(np.nanmin(now[0])),
                                                 float(np.nanmax(now[0]))]})


def run(ctx):
    from hyverif.monitors import purity
    np.seterr(all="ignore")
    warnings.simplefilter("ignore")
    if ctx.shard == 2 % ctx.nshards or ctx.replaying:
        run_object_histories(ctx)
    if ctx.shard == 0 or ctx.replaying:
        run_histories(ctx)
    if ctx.shard == 1 % ctx.nshards or ctx.replaying:
        run_grid_ownership(ctx)
    wrapped = purity.install()
    ctx.info["wrapped_callables"] = len(wrapped)
    st = purity.STATE
    st.repeat = True
    rng = ctx.rng(1)
    A = adapters(rng)
    nrep = 2 if ctx.tier == "quick" else 10
    for rep in range(nrep):
        for i, (label, fn) in enumerate(A):
            if (i + rep) % ctx.nshards != ctx.shard % ctx.nshards and ctx.nshards > 1 \
                    and not ctx.replaying:
                continue
            for kind in V.names:
                v = V(kind, rng)
                before = sum(st.args_checked.values())
                np.random.seed(int(rng.integers(0, 2 ** 31)))
                try:
                    fn(v)
                    out = "ok"
                except Exception as e:
                    out = "exc:" + type(e).__name__
                    ctx.extra["adapter-call-raised"] += 1
                ctx.evaluated()
                ctx.tag("adapter-call")
                ctx.tag("variant:" + kind)
                if label.startswith(("Grid", "Catchment", "grid-")):
                    ctx.tag("variant:grid")
                checked = sum(st.args_checked.values()) - before
                if checked:
                    ctx.nontrivial(label, kind, rep)
                record(ctx, f"{label}[{kind}]")
            if i % 17 == 0 and rep == 0:
                ctx.sample({"adapter": label, "variants": V.names})
    ctx.tag("repeat-call", sum(st.repeats.values()))
    # ---- the other properties' workloads, replayed under the monitor
    st.repeat = False
    others = ["c01", "c03", "c04", "c06", "c08", "c10", "c11", "c13", "c14", "c15",
              "c16", "c17", "c20", "c02", "c07", "c12"]
    budget = 6 if ctx.tier == "quick" else 30
    for j, name in enumerate(others):
        if j % ctx.nshards != ctx.shard and not ctx.replaying:
            continue
        try:
            mod = importlib.import_module("hyverif.props." + name)
        except Exception:
            continue
        c2 = fake_ctx(ctx, name.upper(), budget)
        before = sum(st.calls.values())
        try:
            mod.run(c2)
        except Exception as e:
            ctx.notes.append(f"replayed workload {name} raised {e!r}")
        n = sum(st.calls.values()) - before
        ctx.tag("replayed-workload")
        ctx.extra[f"monitored-calls-during-{name}"] += n
        ctx.evaluated(n)
        record(ctx, f"workload-of-{name.upper()}")
    # ---- the hostile boundary workload of C05 (NaN / inf / empty / huge inputs),
    # in-process under the monitor (plain build)
    from hyverif.props import c05
    ents = [e for e in c05.ENTRIES if e not in ("datehelpers",)]
    for j, ent in enumerate(ents):
        if j % ctx.nshards != ctx.shard and not ctx.replaying:
            continue
        r2 = np.random.default_rng([ctx.seed, j])
        before = sum(st.calls.values())
        t_end = time.time() + (8 if ctx.tier == "quick" else 60)
        ncase = 0
        for cls, thunk in c05.ENTRIES[ent](r2, "quick"):
            if time.time() > t_end:
                break
            try:
                thunk()
            except Exception:
                pass
            ncase += 1
        ctx.tag("replayed-workload")
        ctx.extra[f"monitored-calls-during-C05:{ent}"] += sum(st.calls.values()) - before
        ctx.evaluated(ncase)
        record(ctx, f"C05-workload:{ent}")
    for k, v in st.calls.items():
        ctx.apis[k.replace("hydrodiy.", "")] += v
    ctx.count("argument-unchanged", int(sum(st.args_checked.values())))
    ctx.count("result-repeatable", int(sum(st.repeats.values())))
    ctx.info["args_checked"] = int(sum(st.args_checked.values()))
    ctx.extra["args-checked"] += int(sum(st.args_checked.values()))
    ctx.extra["repeat-calls"] += int(sum(st.repeats.values()))
    ctx.info["calls_by_function"] = {k: int(v) for k, v in st.calls.items()}


def replay(ctx, case):
    ctx.shard = 0
    ctx.nshards = 1
    run(ctx)


# the thorough tier adds the repository's tests: custom orchestration
def drive(a, pid, workdir, t0, cli):
    from hyverif import build as hb
    mod = sys.modules[__name__]
    builddir = hb.build("plain")
    if a.replay:
        case = json.loads(Path(a.replay).read_text())
        spec = {"name": "replay", "prop": pid, "module": "c18", "tier": "quick",
                "seed": case.get("seed", 0), "shard": 0, "nshards": 1,
                "replay": case["case"], "budget_s": 600}
        out = cli.run_workers([spec], builddir, "plain", workdir, 1800)
        _, res, meta = out[0]
        if res and case["key"] in res["violations"]:
            print(f"reproduced {case['key']}")
            print(f"VIOLATION property={pid} replay={a.replay}")
            return 1
        print("replay: not reproduced; saw",
              sorted(res["violations"]) if res else meta)
        return 0
    nsh = SHARDS[a.tier]
    specs = [{"name": f"s{i}", "prop": pid, "module": "c18", "tier": a.tier,
              "seed": a.seed, "shard": i, "nshards": nsh, "budget_s": BUDGET[a.tier]}
             for i in range(nsh)]
    outs = cli.run_workers(specs, builddir, "plain", workdir, BUDGET[a.tier] * 4 + 300)
    inconclusive = []
    merged = cli.merge(outs, pid, inconclusive, mod)
    extra = {}
    if a.tier == "thorough":
        env = cli.worker_env(builddir, "plain", workdir)
        outp = workdir / "purity-tests.json"
        env["HYVERIF_PURITY_OUT"] = str(outp)
        dirs = [str(hb.REPO / "src" / "hydrodiy" / d / "tests")
                for d in ("data", "stat", "gis", "plot")]
        with open(workdir / "pytest.log", "wb") as lf:
            p = subprocess.run([sys.executable, "-m", "pytest", "-q", "--no-header",
                                "-p", "no:cacheprovider", "-p", "hyverif.pytest_purity",
                                "--timeout=900"] + dirs, env=env, cwd=str(hb.REPO),
                               stdout=lf, stderr=lf, timeout=3000)
        if outp.exists():
            d = json.loads(outp.read_text())
            extra["repo_tests"] = {"monitored_calls": int(sum(d["calls"].values())),
                                   "functions": len(d["calls"]),
                                   "args_checked": int(sum(d["args_checked"].values())),
                                   "violations": len(d["violations"])}
            merged["evaluations"] += int(sum(d["calls"].values()))
            for v in d["violations"]:
                key = f"{v['function'].replace('hydrodiy.', '')}|{v['kind']}" + \
                    (f"|{v['param']}" if v.get("param") else "")
                dd = merged["violations"].setdefault(key, {"count": 0, "first": []})
                dd["count"] += 1
                if len(dd["first"]) < 2:
                    dd["first"].append({"pred": v["kind"],
                                        "case": {"kind": "repo-tests"},
                                        "detail": dict(v, during="repository tests")})
            for k, v in d["calls"].items():
                merged["apis"][k.replace("hydrodiy.", "")] += v
        else:
            inconclusive.append("repository tests under the monitor produced no output")
    # anchored functions must have been monitored
    calls = merged["apis"]
    missing = [f for f in ANCHORED if calls.get(f.replace("hydrodiy.", ""), 0) == 0]
    if missing:
        inconclusive.append("anchored functions never monitored: " + ", ".join(missing))
    extra["functions_monitored"] = len([k for k, v in calls.items() if v > 0])
    extra["anchored_functions"] = {f: int(calls.get(f.replace("hydrodiy.", ""), 0))
                                   for f in ANCHORED}
    return cli.finish(a, pid, mod, merged, inconclusive, t0, builddir, extra_cov=extra)
