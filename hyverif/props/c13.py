"""C13 - grids and catchments survive save/load, dict export, cloning and clipping.

Monitor: round-trip predicates at the API boundary: what the loader returns is
compared with what the writer was given (bytes of the cells, exact georeferencing,
dtype, no-data); files live under the per-run work directory and are removed."""
import copy
import io
import os
import shutil
import struct
import tempfile
import warnings
import zipfile
from pathlib import Path

import numpy as np

from hyverif.core import present

ID = "C13"
SHARDS = {"quick": 8, "thorough": 16}
BUDGET = {"quick": 300, "thorough": 1800}
RULE = ("grids 1x1..20x20; cell size / corners from arbitrary finite doubles (0.1, "
        "1/3, 1e-7, 123456.789012345, negatives, random mantissas); dtypes int8.."
        "int64, uint8..uint64, float16/32/64 with min / max / 0 / random full-range "
        "values and NaN / +-inf for floats; no-data values representable in the type "
        "(incl. the extremes); loaders from_header / from_stream / from_zip; a "
        "big-endian copy of every multi-byte raster (bytes swapped by the harness, "
        "BYTEORDER M); dict round trip; clone independence; clip boxes with both "
        "corners inside; catchments with and without inlets. Non-trivial: a grid "
        "with >= 2 cells or a non-default dtype; distinct by digest of (geometry, "
        "dtype, data).")
ASSUMPTIONS = [
    "cell values are first set through the public data setter; a setter that alters "
    "representable values is reported under its own key",
    "Catchment dictionaries are compared on outlet, inlets and the two area lists "
    "(the dictionary does not carry the flow-direction values)",
    "NaN no-data values compare equal to NaN",
]
OBLIGATIONS = {"dtype:int": 40, "dtype:uint": 40, "dtype:float": 30, "dtype:64bit": 20,
               "load:from_header": 50, "load:from_stream": 20, "load:from_zip": 20,
               "bigendian": 20, "dict": 50, "clone": 50, "clip": 30,
               "catchment-dict": 20, "catchment-dict:inlets": 10,
               "nodata:nondefault": 40, "values:extreme": 20, "layout-variant": 30,
               "resave": 30, "clip:corner-on-edge": 10,
               "clip:dict-clone": 20, "bigendian:resave": 10,
               "filename:special-characters": 50, "clip:grid-moved-after-use": 10,
               "zip:namesake-grid": 20, "clone:big-endian-dtype": 10}

DTYPES = [np.int8, np.int16, np.int32, np.int64, np.uint8, np.uint16, np.uint32,
          np.uint64, np.float16, np.float32, np.float64]


def mods():
    from hydrodiy.gis import grid as g
    return g


def workdir():
    base = os.environ.get("HYVERIF_WORK") or tempfile.gettempdir()
    d = Path(base) / f"c13-{os.getpid()}"
    d.mkdir(parents=True, exist_ok=True)
    return d


def gen_float(rng):
    k = int(rng.integers(0, 8))
    pool = [0.1, 1.0 / 3.0, 1e-7, 123456.789012345, 0.0025, 145.44625, 2.5, 1e5 / 3]
    if k < 4:
        return float(pool[int(rng.integers(0, len(pool)))])
    if k < 6:
        return float(rng.uniform(0.001, 1000.0))
    m = rng.random() + 1.0
    return float(m * 2.0 ** int(rng.integers(-20, 20)))


def gen_values(rng, dtype, shape):
    dt = np.dtype(dtype)
    n = int(np.prod(shape))
    if dt.kind in "iu":
        info = np.iinfo(dt)
        specials = [info.min, info.max, 0, 1, info.max - 1, info.min + 1]
        if dt.itemsize == 8:
            specials += [2 ** 53 + 1, info.max - 12345]
            if dt.kind == "i":
                specials += [-(2 ** 53) - 1, -(2 ** 62) - 7]
        vals = rng.integers(info.min, info.max, size=n, dtype=dt, endpoint=True)
        k = min(n, len(specials))
        pos = rng.choice(n, size=k, replace=False)
        for p, s in zip(pos, specials):
            vals[p] = s
        return vals.reshape(shape)
    info = np.finfo(dt)
    vals = (rng.normal(size=n) * 10.0 ** rng.integers(-3, 4, size=n)).astype(dt)
    specials = [info.max, info.min, info.tiny, 0.0, -0.0, np.nan, np.inf, -np.inf]
    k = min(n, len(specials))
    pos = rng.choice(n, size=k, replace=False)
    for p, s in zip(pos, specials[:k]):
        vals[p] = s
    return vals.reshape(shape)


def gen_nodata(rng, dtype):
    dt = np.dtype(dtype)
    if dt.kind in "iu":
        info = np.iinfo(dt)
        pool = [0, info.max, info.min, int(rng.integers(info.min, info.max,
                                                        dtype=dt, endpoint=True)),
                min(info.max, 32767)]
        if dt.itemsize == 8:
            # integers around the limit of exact float64 representation
            pool += [2 ** 53 + 1, 2 ** 53, 2 ** 53 + 2, 2 ** 53 - 1]
            if dt.kind == "i":
                pool += [-(2 ** 53) - 1, -(2 ** 53)]
        return pool[int(rng.integers(0, len(pool)))]
    info = np.finfo(dt)
    return [0.0, -9999.0, float(info.max), float(info.min), float("nan"), -1.5,
            float(dt.type(0.1)), -0.0, float(info.tiny)][int(rng.integers(0, 9))]


def same_scalar(a, b):
    a = np.asarray(a)
    b = np.asarray(b)
    if a.dtype.kind == "f" or b.dtype.kind == "f":
        fa, fb = float(a), float(b)
        # ("exactly": the sign of a zero is part of the number)
        return (np.isnan(fa) and np.isnan(fb)) or \
            (fa == fb and (fa != 0 or bool(np.signbit(fa)) == bool(np.signbit(fb))))
    return int(a) == int(b)


def geometry_equal(g1, g2):
    d = []
    if tuple(g1.shape) != tuple(g2.shape):
        d.append("shape")
    for k in ("xllcorner", "yllcorner", "cellsize"):
        if not same_scalar(np.float64(getattr(g1, k)), np.float64(getattr(g2, k))):
            d.append(k)
    if np.dtype(g1.dtype) != np.dtype(g2.dtype):
        d.append("dtype")
    try:
        if not same_scalar(g1.nodata, g2.nodata):
            d.append("nodata")
    except Exception:
        d.append("nodata")
    return d


def cells_equal(a, b):
    a = np.ascontiguousarray(a)
    b = np.ascontiguousarray(b)
    return a.dtype == b.dtype and a.shape == b.shape and a.tobytes() == b.tobytes()


def values_equal(a, b):
    """same values (NaN == NaN, +0 == -0 distinguished by bytes elsewhere)"""
    a = np.asarray(a)
    b = np.asarray(b)
    if a.shape != b.shape:
        return False
    if a.dtype.kind == "f":
        return bool(np.all((a == b) | (np.isnan(a) & np.isnan(b))))
    return bool(np.array_equal(a, b))


def run_case(ctx, case):
    g = mods()
    dtype = np.dtype(case["dtype"]).type
    dt = np.dtype(dtype)
    nrows, ncols = int(case["nrows"]), int(case["ncols"])
    rng = np.random.default_rng(int(case["seed"]))
    values = gen_values(rng, dtype, (nrows, ncols))
    nodata = case["nodata"]
    ctx.evaluated()
    ctx.tag({"i": "dtype:int", "u": "dtype:uint", "f": "dtype:float"}[dt.kind])
    if dt.itemsize == 8:
        ctx.tag("dtype:64bit")
    tagk = f"{dt.kind}{dt.itemsize * 8}"
    # the cell type is given as the scalar type, as a numpy.dtype instance, or by name
    dform = int(case["seed"]) % 4
    dgiven = [dtype, dt, dtype, dt.name][dform]
    if dform in (1, 3):
        ctx.tag("dtype-given-as:" + ["", "dtype-instance", "", "name"][dform])
    try:
        gr = g.Grid("verifgrid", ncols, nrows, cellsize=case["csz"],
                    xllcorner=case["xll"], yllcorner=case["yll"], dtype=dgiven,
                    nodata=nodata, comment="verif")
    except Exception as e:
        if dform == 3:
            # (a type name is not among the documented forms: a refusal is fine)
            ctx.extra["dtype-name-refused"] += 1
            gr = g.Grid("verifgrid", ncols, nrows, cellsize=case["csz"],
                        xllcorner=case["xll"], yllcorner=case["yll"], dtype=dtype,
                        nodata=nodata, comment="verif")
        else:
            ctx.check("ctor.dtype-instance", False, f"Grid|raises|dtype-given-as-numpy-dtype|{tagk}",
                      case, {"exc": repr(e)[:200], "dtype": repr(dgiven)})
            return
    # ... or was changed after construction through the dtype attribute (a float grid
    # with the same no-data value turned into the type of the case): the dictionary copy
    # of such a grid is the same grid
    if int(case["seed"]) % 3 == 0 and dt.kind in "iu" and dt.itemsize >= 2:
        ctx.tag("dtype-changed-after-construction")
        try:
            g0 = g.Grid("was-float", ncols, nrows, cellsize=case["csz"],
                        xllcorner=case["xll"], yllcorner=case["yll"], nodata=-9999.0
                        if dt.kind == "i" else 255.0)
            g0.dtype = dgiven if dform != 3 else dtype
            g0b = g.Grid.from_dict(copy.deepcopy(g0.to_dict()))
            dd_ = geometry_equal(g0, g0b)
            ctx.check("dict.after-dtype-change", not dd_,
                      "dict|metadata-after-dtype-change:" + "+".join(dd_), case,
                      lambda: {"differs": dd_, "nodata": [repr(g0.nodata), repr(g0b.nodata)]})
        except Exception as e:
            ctx.check("dict.after-dtype-change", False, f"dict|raises-after-dtype-change|{tagk}",
                      case, {"exc": repr(e)[:200]})
    if not same_scalar(gr.nodata, dtype(0)):
        ctx.tag("nodata:nondefault")
    ctx.tag("values:extreme")
    # the array is handed over in one of several memory layouts (saved files must not
    # depend on it)
    lay = ["C", "fortran", "rowstrided", "strided", "negstride", "readonly"][
        int(case["seed"]) % 6]
    pv = present(values, lay) if lay != "C" else None
    if pv is not None:
        ctx.tag("layout-variant")
    gr.data = pv if pv is not None else values.copy()
    ctx.api("Grid.data=")
    okset = cells_equal(gr.data, values)
    ctx.check("setter.keeps-values", okset, f"Grid.data|setter-alters-values|{tagk}",
              case, lambda: {"given": values.ravel()[:6].tolist(),
                             "stored": np.asarray(gr.data).ravel()[:6].tolist()})
    stored = np.array(gr.data, copy=True)
    if int(case["seed"]) % 5 == 2 and nrows * ncols >= 2:
        # the grid is the product of Grid.apply with a function returning its result in
        # column-major order (a transpose of a transpose, pandas .values ...): the cells
        # are the same, the memory behind them is not
        try:
            ga = gr.apply(lambda d_: np.asfortranarray(d_) if d_.ndim == 2
                          else np.asarray(d_))
            if cells_equal(ga.data, stored):
                gr = ga
                ctx.tag("grid:from-apply-column-major")
        except Exception:
            pass
    wd = workdir()
    # file names as they occur in archives of sub-grids: brackets, blanks, dots
    sub = wd / f"case{ctx.evaluations}"
    sub.mkdir(parents=True, exist_ok=True)
    stem = ["g", "grid_drainage[lake_eyre]", "g", "dem 30m", "a.b.c", "g",
            "x[1]", "run(2)", "mobile_gauge_dem", "g", "stability.bil.v2_",
            "bilbil"][int(case["seed"]) % 12]
    if stem != "g":
        ctx.tag("filename:special-characters")
    if int(case["seed"]) % 7 == 3:
        # ... and folders named after their content
        sub = sub / ["bil_rasters", "hdr", "grids.bil"][int(case["seed"]) // 7 % 3]
        sub.mkdir(parents=True, exist_ok=True)
        ctx.tag("filename:extension-letters-in-folder")
    base = sub / f"{stem}{ctx.evaluations}"
    fbil = str(base) + ".bil"
    fhdr = str(base) + ".hdr"
    if int(case["seed"]) % 6 == 4:
        # a bare file name, relative to the working directory
        ctx.tag("filename:bare-name-in-working-directory")
        cwd_ = os.getcwd()
        try:
            os.chdir(str(sub))
            ctx.api("Grid.save")
            gr.save("bare_" + os.path.basename(fbil))
            gbare = g.Grid.from_header("bare_" + os.path.basename(fhdr))
            ctx.check("load.cells", np.dtype(gbare.dtype) == dt and
                      cells_equal(gbare.data, stored), f"save-load|bare-file-name|{tagk}",
                      case, None)
        except Exception as e:
            ctx.check("load.runs", False, "save-load|bare-file-name|raises", case,
                      {"exc": repr(e)[:200]})
        finally:
            os.chdir(cwd_)
    try:
        ctx.api("Grid.save")
        gr.save(fbil)
        # ---------------------------------------------------------- loaders ----
        loaders = {}
        with warnings.catch_warnings():
            warnings.simplefilter("ignore")
            try:
                ctx.tag("load:from_header")
                loaders["from_header"] = g.Grid.from_header(fhdr)
            except Exception as e:
                ctx.check("load.runs", False, "from_header|raises", case,
                          {"exc": repr(e)})
            try:
                ctx.tag("load:from_stream")
                with open(fhdr, "r") as fh, open(fbil, "rb") as fd:
                    if (nrows + ncols) % 2:
                        # handles that were read from before (a caller peeking at the
                        # header, a loop over the same open files)
                        fh.readline()
                        fd.read(3)
                        ctx.tag("load:from_stream-handles-used-before")
                    loaders["from_stream"] = g.Grid.from_stream(fh, fd)
                    # ... and the same handles once more
                    loaders["from_stream(same handles again)"] = g.Grid.from_stream(fh, fd)
            except Exception as e:
                ctx.check("load.runs", False, "from_stream|raises", case,
                          {"exc": repr(e)})
            try:
                ctx.tag("load:from_zip")
                fz = str(base) + ".zip"
                with zipfile.ZipFile(fz, "w") as z:
                    # a namesake in another folder, stored first (same shape and type,
                    # other cells), as in archives holding one grid per year
                    ctx.tag("zip:namesake-grid")
                    z.write(fhdr, "other/grid.hdr")
                    z.writestr("other/grid.bil", np.asarray(
                        stored[::-1, ::-1]).astype(dt).tobytes())
                    z.write(fhdr, "sub/grid.hdr")
                    z.write(fbil, "sub/grid.bil")
                loaders["from_zip"] = g.Grid.from_zip(fz, "sub/grid.hdr")
            except Exception as e:
                ctx.check("load.runs", False, "from_zip|raises", case,
                          {"exc": repr(e)})
        for nm, g2 in loaders.items():
            ctx.api("Grid." + nm)
            d = geometry_equal(gr, g2)
            ctx.check("load.metadata", not d, f"save-load|{nm}|metadata:" + "+".join(d),
                      case, lambda: {"differs": d, "nodata_saved": repr(gr.nodata),
                                     "nodata_loaded": repr(g2.nodata),
                                     "xll": [repr(gr.xllcorner), repr(g2.xllcorner)],
                                     "csz": [repr(gr.cellsize), repr(g2.cellsize)]})
            okc = np.dtype(g2.dtype) == dt and cells_equal(g2.data, stored)
            ctx.check("load.cells", okc, f"save-load|{nm}|cells|{tagk}", case,
                      lambda: {"saved": stored.ravel()[:6].tolist(),
                               "loaded": np.asarray(g2.data).ravel()[:6].tolist()})
        # ------------------------- saving again under the same name, new values ----
        if nrows * ncols >= 2 and not cells_equal(stored[::-1, ::-1], stored):
            ctx.tag("resave")
            ctx.api("Grid.save")
            v2 = np.ascontiguousarray(stored[::-1, ::-1])
            gr2 = gr.clone()
            gr2.data = v2.copy()
            gr2.save(fbil)
            with warnings.catch_warnings():
                warnings.simplefilter("ignore")
                try:
                    g4 = g.Grid.from_header(fhdr)
                    ctx.check("resave.cells", cells_equal(g4.data, v2),
                              f"save-load|second-save-same-name|cells|{tagk}", case,
                              lambda: {"saved": v2.ravel()[:6].tolist(),
                                       "loaded": np.asarray(g4.data).ravel()[:6].tolist()})
                except Exception as e:
                    ctx.check("resave.cells", False, "save-load|second-save-same-name|raises",
                              case, {"exc": repr(e)})
            # grids loaded before the file was replaced keep what they loaded
            for nm, g2 in loaders.items():
                ctx.check("load.detached-from-file", cells_equal(g2.data, stored),
                          f"save-load|{nm}|loaded-grid-follows-file", case, None)
            ctx.check("resave.source-untouched", cells_equal(gr.data, stored),
                      "save|alters-grid", case, None)
        # ------------------------------------------------ big-endian raster ----
        if dt.itemsize > 1:
            ctx.tag("bigendian")
            bbil = str(base) + "_be.bil"
            bhdr = str(base) + "_be.hdr"
            stored.astype(dt.newbyteorder(">")).tofile(bbil)
            txt = open(fhdr).read().replace("BYTEORDER      I", "BYTEORDER      M")
            open(bhdr, "w").write(txt)
            with warnings.catch_warnings():
                warnings.simplefilter("ignore")
                def _be_header():
                    return g.Grid.from_header(bhdr)

                def _be_stream():
                    with open(bhdr, "r") as fh, open(bbil, "rb") as fd:
                        return g.Grid.from_stream(fh, fd)

                def _be_zip():
                    fzb = str(base) + "_be.zip"
                    with zipfile.ZipFile(fzb, "w") as z:
                        z.write(bhdr, "be/grid.hdr")
                        z.write(bbil, "be/grid.bil")
                    return g.Grid.from_zip(fzb, "be/grid.hdr")

                for lname, lfun in (("from_header", _be_header),
                                    ("from_stream", _be_stream), ("from_zip", _be_zip)):
                    try:
                        gb = lfun()
                        okb = values_equal(np.asarray(gb.data), stored) and \
                            not geometry_equal(gr, gb)
                        if lname == "from_header":
                            # ... and what was loaded can be saved and loaded again
                            ctx.tag("bigendian:resave")
                            f2 = str(base) + "_be2.bil"
                            gb.save(f2)
                            gb2 = g.Grid.from_header(str(base) + "_be2.hdr")
                            ctx.check("load.bigendian-resave",
                                      values_equal(np.asarray(gb2.data), stored) and
                                      not geometry_equal(gr, gb2),
                                      f"save-load|grid-loaded-from-big-endian-raster|{tagk}",
                                      case, lambda: {"expected": stored.ravel()[:4].tolist(),
                                                     "loaded": np.asarray(gb2.data)
                                                     .ravel()[:4].tolist()})
                        ctx.check("load.bigendian", okb,
                                  f"load|big-endian|{lname}|values|{tagk}", case,
                                  lambda: {"expected": stored.ravel()[:4].tolist(),
                                           "loaded": np.asarray(gb.data).ravel()[:4]
                                           .tolist()})
                    except Exception as e:
                        ctx.check("load.bigendian", False,
                                  f"load|big-endian|{lname}|raises", case,
                                  {"exc": repr(e)})
    finally:
        import shutil as _sh
        _sh.rmtree(sub, ignore_errors=True)
        for f in ():
            try:
                f.unlink()
            except OSError:
                pass
    # ------------------- conversion to an explicit big-endian dtype, then save / load ----
    if dt.itemsize > 1 and int(case["seed"]) % 3 == 0:
        ctx.tag("clone:big-endian-dtype")
        ctx.api("Grid.clone(dtype)")
        sub2 = wd / f"be{ctx.evaluations}"
        sub2.mkdir(parents=True, exist_ok=True)
        try:
            gbe = gr.clone(dt.newbyteorder(">"))
            fb2 = str(sub2 / "g.bil")
            gbe.save(fb2)
            with warnings.catch_warnings():
                warnings.simplefilter("ignore")
                gl = g.Grid.from_header(str(sub2 / "g.hdr"))
            ctx.check("clone.big-endian-save-load", values_equal(np.asarray(gl.data), stored),
                      f"save-load|grid-converted-to-big-endian-dtype|{tagk}", case,
                      lambda: {"expected": stored.ravel()[:4].tolist(),
                               "loaded": np.asarray(gl.data).ravel()[:4].tolist()})
        except (TypeError, ValueError) as e:
            # a library that refuses dtype instances is not wrong about cell values
            ctx.extra["clone-big-endian-refused"] += 1
        finally:
            import shutil as _sh2
            _sh2.rmtree(sub2, ignore_errors=True)
    # ----------------------------------------------------------- dictionary ----
    ctx.tag("dict")
    ctx.api("Grid.to_dict/from_dict")
    try:
        g3 = g.Grid.from_dict(copy.deepcopy(gr.to_dict()))
        d = geometry_equal(gr, g3)
        ctx.check("dict.metadata", not d, "dict|metadata:" + "+".join(d), case,
                  lambda: {"differs": d, "dict": {k: repr(v) for k, v in
                                                  gr.to_dict().items()}})
    except Exception as e:
        ctx.check("dict.metadata", False, "dict|raises", case, {"exc": repr(e)})
    # ... and from a process in another state (terse / legacy print options of numpy and
    # pandas, FP flags raised, stdout closed): what the dictionary holds is data
    try:
        from hyverif.core import dirty_process_state
        ctx.tag("dict:process-state")
        with dirty_process_state():
            dd = gr.to_dict()
        g4 = g.Grid.from_dict(copy.deepcopy(dd))
        d = geometry_equal(gr, g4)
        ctx.check("dict.metadata-process-state", not d,
                  "dict|result-depends-on-process-state:" + "+".join(d), case,
                  lambda: {"differs": d, "dict": {k: repr(v) for k, v in dd.items()}})
    except Exception as e:
        ctx.check("dict.metadata-process-state", False,
                  "dict|raises-in-another-process-state", case, {"exc": repr(e)})
    # ---------------------------------------------------------------- clone ----
    ctx.tag("clone")
    ctx.api("Grid.clone")
    cl = gr.clone()
    d = geometry_equal(gr, cl)
    ctx.check("clone.equal", not d and cells_equal(cl.data, stored),
              "clone|differs:" + "+".join(d), case, lambda: {"differs": d})
    before = np.array(gr.data, copy=True)
    cl.data.flat[0] = dtype(1) if stored.flat[0] != dtype(1) else dtype(2)
    cl.fill(dtype(3))
    ctx.check("clone.independent", cells_equal(gr.data, before) and
              not np.shares_memory(cl.data, gr.data), "clone|aliases-original", case,
              None)
    # clone with an explicit dtype (the grid's own, and another one) must be
    # independent copies as well
    for cd in (dtype, np.float64 if dtype is not np.float64 else np.float32):
        c2 = gr.clone(cd)
        ctx.api("Grid.clone(dtype)")
        okd = np.dtype(c2.dtype) == np.dtype(cd) and tuple(c2.shape) == tuple(gr.shape)
        if cd is dtype:
            okd = okd and cells_equal(c2.data, stored)
        before = np.array(gr.data, copy=True)
        c2.fill(cd(7))
        c2[0] = cd(5)
        indep = cells_equal(gr.data, before) and not np.shares_memory(c2.data, gr.data)
        ctx.check("clone.dtype", bool(okd), "clone(dtype)|differs", case,
                  lambda: {"dtype": str(np.dtype(cd))})
        ctx.check("clone.dtype-independent", bool(indep),
                  "clone(dtype)|aliases-original", case,
                  lambda: {"dtype": str(np.dtype(cd)), "own_dtype": str(dt)})
        gr.data = before
    # ----------------------------------------------------------------- clip ----
    if nrows * ncols >= 2 and int(case["seed"]) % 4 == 1:
        # the grid was used at another position / cell size first, then moved onto the
        # geometry under test by assigning its attributes (values untouched)
        try:
            x0, y0, c0_ = float(gr.xllcorner), float(gr.yllcorner), float(gr.cellsize)
            gr.xllcorner = x0 + 2.5 * c0_
            gr.yllcorner = y0 - 1.25 * c0_
            gr.cellsize = c0_ * 2.0
            gr.cell2coord(np.arange(min(nrows * ncols, 3)))
            gr.coord2cell(gr.cell2coord(np.arange(min(nrows * ncols, 3))))
            _ = gr.xvalues, gr.yvalues
            try:
                gr.clip(float(gr.xllcorner) + 0.1 * c0_, float(gr.yllcorner) + 0.1 * c0_,
                        float(gr.xllcorner) + 0.3 * c0_, float(gr.yllcorner) + 0.3 * c0_)
            except Exception:
                pass
            gr.xllcorner, gr.yllcorner, gr.cellsize = x0, y0, c0_
            ctx.tag("clip:grid-moved-after-use")
        except AttributeError:
            pass
    if nrows * ncols >= 2:
        ctx.tag("clip")
        ctx.api("Grid.clip")
        if int(case["seed"]) % 3 == 2 and dt.kind in "fi" and hasattr(type(gr), "mindata"):
            # the parent declares an admissible range while holding cells outside it
            # (flags written cell by cell): a clip copies cells, it does not judge them
            try:
                fin_ = stored[np.isfinite(stored.astype(float))] if dt.kind == "f" \
                    else stored.ravel()
                if len(fin_):
                    mid_ = np.sort(fin_.ravel())[len(fin_.ravel()) // 2]
                    gr.mindata = float(mid_) if dt.kind == "f" else int(mid_)
                    gr.data[...] = stored          # (in place: the setter would clip)
                    ctx.tag("clip:parent-with-cells-outside-its-declared-range")
            except Exception:
                pass
        r0, r1 = sorted(rng.integers(0, nrows, size=2))
        c0, c1 = sorted(rng.integers(0, ncols, size=2))
        csz = float(gr.cellsize)
        # corners strictly inside the lower-left and upper-right cells of the box
        fx0, fy0, fx1, fy1 = rng.uniform(0.1, 0.9, size=4)
        edge = int(rng.integers(0, 6))
        if edge >= 4:
            # corners exactly on cell edges, written as a user writes them
            # (round(k * cellsize, 10)): which cell holds such a corner is a rounding
            # matter, but the clipped grid must still agree with its parent
            fx0, fy0 = 0.0, 0.0
            fx1, fy1 = (1.0, 1.0) if edge == 4 else (0.5, 0.5)
        elif edge == 1:
            fx0 = fy0 = fx1 = fy1 = 0.5              # exactly on the cell centres
        elif edge == 2:
            fx0, fy0, fx1, fy1 = 0.001, 0.001, 0.999, 0.999   # close to the edges
        elif edge == 3:
            fx0, fy0, fx1, fy1 = 0.999, 0.999, 0.001, 0.001
        xl = float(gr.xllcorner) + (c0 + fx0) * csz
        xu = float(gr.xllcorner) + (c1 + fx1) * csz
        yl = float(gr.yllcorner) + (nrows - 1 - r1 + fy0) * csz
        yu = float(gr.yllcorner) + (nrows - 1 - r0 + fy1) * csz
        if edge >= 4:
            xl, yl = round(xl, 10), round(yl, 10)
            if edge == 4:
                xu, yu = round(xu, 10), round(yu, 10)
        # the cells that hold the two corners, located in exact arithmetic from the
        # float coordinates actually passed; corners too close to a cell edge for
        # the geometry's own resolution are not judged
        from hyverif.oracles.gridgeom import Geom
        import math as _m
        gm = Geom(nrows, ncols, float(gr.xllcorner), float(gr.yllcorner), csz)
        ca, da = gm.locate(xl, yl)
        cb, db = gm.locate(xu, yu)
        res = 100 * _m.ulp(max(abs(xl), abs(xu), abs(yl), abs(yu), abs(csz))) / csz
        if ca < 0 or cb < 0 or min(da, db) < max(1e-6, res):
            ctx.extra["clip-corner-on-edge-not-judged"] += 1
            ca = None
            # ... for its extent. Whatever block is cut, every cell of the clipped grid
            # must sit on a parent cell centre and hold that parent cell's value.
            try:
                with warnings.catch_warnings():
                    warnings.simplefilter("ignore")
                    cge = gr.clip(xl, yl, xu, yu)
                cce = cge.cell2coord(np.arange(cge.nrows * cge.ncols))
            except Exception:
                cge = None
            if cge is not None and cge.nrows * cge.ncols > 0 and res <= 0.01:
                # (only where the float geometry resolves a hundredth of a cell)
                ctx.tag("clip:corner-on-edge")
                ctx.api("Grid.clip")
                dat = np.asarray(cge.data).ravel()
                badc = None
                for j, (cx, cy) in enumerate(cce):
                    pc, dist = gm.locate(float(cx), float(cy))
                    if pc < 0 or dist < 0.48 or \
                            not values_equal(dat[j:j + 1], stored.ravel()[pc:pc + 1]):
                        badc = (j, float(cx), float(cy), int(pc), float(dist))
                        break
                ctx.check("clip.on-edge.consistent", badc is None,
                          f"clip|corner-on-cell-edge|inconsistent-with-parent|{tagk}", case,
                          lambda: {"box": [xl, yl, xu, yu],
                                   "clip_cell,x,y,parent_cell,dist_to_edge": badc,
                                   "clip_xll": float(cge.xllcorner),
                                   "clip_yll": float(cge.yllcorner)})
        else:
            (ra, ka), (rb, kb) = gm.rowcol(ca), gm.rowcol(cb)
            r0, r1, c0, c1 = rb, ra, ka, kb
            if r0 > r1 or c0 > c1:
                ca = None
        try:
            if ca is None:
                raise KeyError("skip")
            cg = gr.clip(xl, yl, xu, yu)
            okshape = tuple(cg.shape) == (r1 - r0 + 1, c1 - c0 + 1)
            okv = okshape and np.dtype(cg.dtype) == dt and \
                values_equal(np.asarray(cg.data), stored[r0:r1 + 1, c0:c1 + 1])
            # coinciding centres
            okgeo = okshape
            if okshape:
                cc = cg.cell2coord(np.arange(cg.nrows * cg.ncols))
                pc = gr.coord2cell(cc)
                exp = np.array([(r * ncols + k) for r in range(r0, r1 + 1)
                                for k in range(c0, c1 + 1)])
                okgeo = bool(np.array_equal(pc, exp))
            ctx.check("clip.values", bool(okv and okgeo), f"clip|values|{tagk}", case,
                      lambda: {"box_rows": [int(r0), int(r1)],
                               "box_cols": [int(c0), int(c1)],
                               "shape": list(cg.shape),
                               "clipped": np.asarray(cg.data).ravel()[:4].tolist(),
                               "parent": stored[r0:r1 + 1, c0:c1 + 1].ravel()[:4]
                               .tolist()})
            # a clip of the clip (a window refined step by step): still the parent's values
            # at coinciding centres - whatever position the first window had
            if okshape and cg.nrows >= 2 and cg.ncols >= 2:
                a_ = int(rng.integers(0, cg.nrows - 1)) + 1      # rows dropped at the top
                b_ = int(rng.integers(0, cg.ncols - 1)) + 1      # columns dropped left
                czs = float(cg.cellsize)
                try:
                    with warnings.catch_warnings():
                        warnings.simplefilter("ignore")
                        c2g = cg.clip(float(cg.xllcorner) + (b_ + 0.3) * czs,
                                      float(cg.yllcorner) + 0.3 * czs,
                                      float(cg.xllcorner) + (cg.ncols - 0.3) * czs,
                                      float(cg.yllcorner) + (cg.nrows - a_ - 0.3) * czs)
                    ctx.tag("clip:of-a-clip")
                    ctx.api("Grid.clip")
                    exp2 = stored[r0 + a_:r1 + 1, c0 + b_:c1 + 1]
                    ok2 = tuple(c2g.shape) == exp2.shape and \
                        values_equal(np.asarray(c2g.data), exp2)
                    if ok2:
                        cc2 = c2g.cell2coord(np.arange(c2g.nrows * c2g.ncols))
                        e2 = np.array([(r * ncols + k) for r in range(r0 + a_, r1 + 1)
                                       for k in range(c0 + b_, c1 + 1)])
                        ok2 = bool(np.array_equal(gr.coord2cell(cc2), e2))
                    ctx.check("clip.nested", bool(ok2), f"clip|clip-of-a-clip|values|{tagk}",
                              case, lambda: {"first_rows": [int(r0), int(r1)],
                                             "first_cols": [int(c0), int(c1)],
                                             "dropped": [a_, b_], "shape": list(c2g.shape),
                                             "expected_shape": list(exp2.shape)})
                except Exception as e2_:
                    ctx.check("clip.nested", False, f"clip|clip-of-a-clip|raises", case,
                              {"exc": repr(e2_)[:200]})
            ctx.check("clip.nodata", same_scalar(cg.nodata, gr.nodata),
                      "clip|nodata", case, None)
            # a clipped grid (it remembers its parent) survives the dictionary export
            # and clone like any other grid
            ctx.tag("clip:dict-clone")
            for how, fn_ in (("dict", lambda: g.Grid.from_dict(copy.deepcopy(cg.to_dict()))),
                             ("clone", lambda: cg.clone())):
                try:
                    c2 = fn_()
                    dd = geometry_equal(cg, c2)
                    okc2 = not dd and (how == "dict" or
                                       values_equal(np.asarray(c2.data),
                                                    np.asarray(cg.data)))
                    ctx.check("clip." + how, bool(okc2),
                              f"clip|{how}-of-clipped-grid|" + "+".join(dd or ["values"]),
                              case, lambda: {"differs": dd, "clip_shape": list(cg.shape),
                                             "rebuilt_shape": list(c2.shape)})
                except Exception as e:
                    ctx.check("clip." + how, False, f"clip|{how}-of-clipped-grid|raises",
                              case, {"exc": repr(e)})
        except KeyError:
            pass
        except Exception as e:
            ctx.check("clip.values", False, "clip|raises", case, {"exc": repr(e)})
    if nrows * ncols >= 2 or dtype is not np.float64:
        ctx.nontrivial(case["dtype"], nrows, ncols, case["csz"], case["xll"],
                       case["yll"], values)


def run_catchment_case(ctx, case):
    from hyverif.props.c06 import gen_forest
    from hyverif.oracles.flowgraph import FlowGraph
    g = mods()
    rng = np.random.default_rng(int(case["seed"]))
    nr, nc = int(case["nrows"]), int(case["ncols"])
    codes = gen_forest(rng, nr, nc, int(case["style"]))
    model = FlowGraph(codes.tolist())
    sizes = [len(model.area(o)) for o in range(model.n)]
    o = int(np.argmax(sizes))
    fd = g.Grid("fd", nc, nr, dtype=np.int64, cellsize=case["csz"],
                xllcorner=case["xll"], yllcorner=case["yll"])
    fd.data = codes
    cat = g.Catchment("cverif", fd)
    inlets = None
    if case["with_inlets"] and sizes[o] >= 3:
        cand = sorted(model.area(o) - {o})
        inlets = [int(v) for v in rng.choice(cand, size=min(2, len(cand)),
                                             replace=False)]
        if int(case["seed"]) % 3 == 1:
            # an inlet named more than once (lists merged from several sources)
            inlets = inlets + [inlets[0]] if int(case["seed"]) % 2 else [inlets[-1]] + inlets
            ctx.tag("catchment-dict:inlet-named-twice")
        ctx.tag("catchment-dict:inlets")
    ctx.evaluated()
    ctx.tag("catchment-dict")
    if int(case["seed"]) % 2 == 0 and sizes[o] >= 3:
        # the object was delineated before, from the same outlet with other inlets (the
        # dictionary describes the latest delineation only)
        rng2 = np.random.default_rng(int(case["seed"]) + 77)
        prev = [int(v) for v in rng2.choice(sorted(model.area(o) - {o}), size=1)]
        cat.delineate_area(o, prev, nval=model.n + 5)
        ctx.tag("catchment-dict:re-delineated")
    cat.delineate_area(o, inlets, nval=model.n + 5)
    ctx.api("Catchment.to_dict/from_dict")
    dic = cat.to_dict()
    c2 = g.Catchment.from_dict(copy.deepcopy(dic))
    ok_outlet = int(c2.idxcell_outlet) == int(cat.idxcell_outlet)
    i1 = None if cat.idxinlets is None else [int(v) for v in cat.idxinlets]
    i2 = None if c2.idxinlets is None else [int(v) for v in c2.idxinlets]
    ok_area = [int(v) for v in c2.idxcells_area] == [int(v) for v in cat.idxcells_area]
    ok_filled = [int(v) for v in c2.idxcells_area_filled] == \
        [int(v) for v in cat.idxcells_area_filled]
    ctx.check("catchment.dict.outlet-areas", ok_outlet and ok_area and ok_filled,
              "Catchment.dict|outlet-or-areas", case,
              lambda: {"outlet": [int(cat.idxcell_outlet), int(c2.idxcell_outlet)]})
    ctx.check("catchment.dict.inlets", i1 == i2, "Catchment.dict|inlets", case,
              lambda: {"original": i1, "rebuilt": i2})
    d = geometry_equal(cat.flowdir, c2.flowdir)
    ctx.check("catchment.dict.flowdir-geometry", not d,
              "Catchment.dict|flowdir:" + "+".join(d), case, {"differs": d})
    ctx.nontrivial("cat", codes, o, inlets)


def run_big_zip(ctx, variant):
    """rasters of 17 to 40 MB read from archives written with and without compression
    (a member larger than any plausible block size, its compressed size much smaller)"""
    g = mods()
    nr, nc, dtype = [(1500, 1500, np.float64), (2300, 2300, np.float32),
                     (2100, 2400, np.float64), (4100, 4100, np.int16)][variant % 4]
    rng = np.random.default_rng(ctx.seed + variant)
    vals = (np.arange(nr * nc, dtype=np.int64) % 977).reshape((nr, nc)).astype(dtype)
    vals[rng.integers(0, nr, 50), rng.integers(0, nc, 50)] = dtype(7)
    gr = g.Grid("big", nc, nr, cellsize=0.05, xllcorner=112.0, yllcorner=-44.0, dtype=dtype)
    gr.data = vals
    wd = workdir() / f"bigzip{variant}"
    shutil.rmtree(wd, ignore_errors=True)
    wd.mkdir(parents=True)
    ctx.evaluated()
    ctx.tag("zip:member-larger-than-16MiB")
    case = {"kind": "bigzip", "variant": variant, "shape": [nr, nc],
            "dtype": np.dtype(dtype).str}
    try:
        fbil = str(wd / "grid.bil")
        gr.save(fbil)
        fhdr = str(wd / "grid.hdr")
        for comp, cname in ((zipfile.ZIP_DEFLATED, "deflated"), (zipfile.ZIP_STORED, "stored"),
                            (zipfile.ZIP_BZIP2, "bzip2"))[: 2 + variant % 2]:
            fz = str(wd / f"grid_{cname}.zip")
            with zipfile.ZipFile(fz, "w", compression=comp) as z:
                z.write(fhdr, "sub/grid.hdr")
                z.write(fbil, "sub/grid.bil")
            ctx.api("Grid.from_zip")
            try:
                g2 = g.Grid.from_zip(fz, "sub/grid.hdr")
                ok = np.dtype(g2.dtype) == np.dtype(dtype) and cells_equal(g2.data, vals)
                det = {"compression": cname, "differ": int((np.asarray(g2.data) != vals).sum())
                       if np.asarray(g2.data).shape == vals.shape else "shape"}
            except Exception as e:
                ok, det = False, {"compression": cname, "exc": repr(e)[:200]}
            ctx.check("load.big-zip-member", ok, f"save-load|from_zip|large-member|{cname}",
                      case, det)
            os.remove(fz)
    finally:
        shutil.rmtree(wd, ignore_errors=True)
    ctx.nontrivial("bigzip", variant)


def run(ctx):
    rng = ctx.rng(1)
    nrep = 40 if ctx.tier == "quick" else 3000
    if ctx.shard in (3, 7) or (ctx.tier == "thorough" and ctx.shard in (11, 13)):
        run_big_zip(ctx, {3: 0, 7: 1, 11: 2, 13: 3}[ctx.shard] if ctx.nshards > 1 else
                    ctx.seed % 4)
    try:
        for it0 in range(nrep):
            it = it0 + ctx.shard
            if ctx.out_of_time():
                ctx.notes.append(f"stopped at {it0}")
                break
            dtype = DTYPES[it % len(DTYPES)]
            nrows = int(rng.integers(1, 21))
            ncols = int(rng.integers(1, 21))
            if it % 9 == 0:
                nrows, ncols = 1, 1
            elif it % 9 == 4:
                # dimensions at the neighbours of powers of two / round numbers
                ed = [31, 32, 33, 99, 100, 101, 127, 128, 129, 255, 256, 257, 511, 512,
                      513, 1000, 1023, 1024, 1025]
                ncols = ed[(it // 9) % len(ed)]
                nrows = [1, 2, 3, ed[(it // 27) % 6]][(it // 9) % 4]
                if it % 18 == 4:
                    nrows, ncols = ncols, nrows
            csz = gen_float(rng)
            sgn = [1, -1][int(rng.integers(0, 2))]
            case = {"kind": "grid", "dtype": np.dtype(dtype).str, "nrows": nrows,
                    "ncols": ncols, "csz": csz,
                    "xll": sgn * gen_float(rng) * [1, 100, 0][int(rng.integers(0, 3))],
                    "yll": -sgn * gen_float(rng) * [1, 100, 0][int(rng.integers(0, 3))],
                    "nodata": gen_nodata(rng, dtype),
                    "seed": int(rng.integers(0, 2 ** 31))}
            run_case(ctx, case)
            if it0 % 20 == 0:
                ctx.sample(case)
            if it0 % 2 == 0:
                run_catchment_case(ctx, {"kind": "catchment",
                                         "nrows": int(rng.integers(2, 9)),
                                         "ncols": int(rng.integers(2, 9)),
                                         "style": it % 3, "csz": gen_float(rng),
                                         "xll": gen_float(rng), "yll": -gen_float(rng),
                                         "with_inlets": bool((it0 // 2) % 2),
                                         "seed": int(rng.integers(0, 2 ** 31))})
    finally:
        shutil.rmtree(workdir(), ignore_errors=True)


def replay(ctx, case):
    if case.get("kind") == "bigzip":
        return run_big_zip(ctx, int(case.get("variant", 0)))
    try:
        if case["kind"] == "grid":
            run_case(ctx, case)
        else:
            run_catchment_case(ctx, case)
    finally:
        shutil.rmtree(workdir(), ignore_errors=True)
