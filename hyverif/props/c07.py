"""C07 - grid cell numbers, rows/columns and coordinates are mutually consistent.

Monitor: exact rational geometry model (oracles/gridgeom.py) compared with every
observed answer of Grid.coord2cell / cell2coord / cell2rowcol / neighbours /
xvalues / yvalues."""
import math
from fractions import Fraction

import numpy as np

from hyverif.core import digest

from hyverif.oracles.gridgeom import Geom

ID = "C07"
SHARDS = {"quick": 8, "thorough": 16}
BUDGET = {"quick": 300, "thorough": 1800}
RULE = ("grids with nrows, ncols in {1, 2, 3, 5, 7, random <= 60}, cell size "
        "u x 10^k (k in -4..4), origins up to +-1e4 cell sizes; all cells of small "
        "grids, random cells of large ones; per cell 9+ interior points (to within "
        "2e-9 of the edges); outside points on the 4 sides and 4 diagonals at "
        "{1e-9 .. 1e6} cell sizes from the extent; invalid cells {-1, n, n+1, "
        "+-2^62}. Points closer than 1e-9 cell sizes to a grid line (as located in "
        "exact rationals from the float coordinates) are executed but not judged. "
        "Non-trivial: every judged (geometry, point) / (geometry, cell) pair; "
        "distinct by digest.")
ASSUMPTIONS = [
    "the expected cell of a point is computed in exact rational arithmetic from "
    "the float64 coordinates actually passed",
    "cell2coord may differ from the exact centre by 4 ulp of the largest magnitude "
    "involved (corner, extent, result)",
    "for an invalid cell number any of -1 / NaN / an exception is accepted",
]
OBLIGATIONS = {"many-points": 100, "derived:clip": 20, "derived:two-rows-or-more": 20, "invalid-cell:scalar-forms": 100, "outside:first-double-beyond-the-origin-sides": 100, "outside:left": 100, "outside:right": 100, "outside:bottom": 100,
               "outside:top": 100, "outside:diag": 100, "inside": 1000,
               "grid:1row": 3, "grid:1col": 3, "invalid-cell": 50,
               "neighbours": 200, "rowcol": 200, "xyvalues": 20,
               "construction-path:1": 20, "construction-path:2": 20,
               "construction-path:3": 20, "construction-path:4": 20,
               "construction-path:5": 20, "batch:single-value": 50,
               "batch:origin-inside": 5, "batch:whole-grid-size": 30,
               "grid:more-than-2^31-cells": 1, "dims:numpy-integer": 20,
               "container:two-points": 50}


def G():
    from hydrodiy.gis.grid import Grid
    return Grid


def gen_geom(rng, it):
    sizes = [1, 2, 3, 5, 7]
    if it % 3 == 0:
        nrows = sizes[int(rng.integers(0, 5))]
        ncols = sizes[int(rng.integers(0, 5))]
    elif it % 3 == 1:
        nrows = int(rng.integers(1, 61))
        ncols = int(rng.integers(1, 61))
    else:
        nrows, ncols = [(1, int(rng.integers(1, 30))), (int(rng.integers(1, 30)), 1),
                        (2, int(rng.integers(1, 30))), (int(rng.integers(2, 9)), 2)][
            int(rng.integers(0, 4))]
    u = [1.0, 0.25, 0.05, 1.0 / 3.0, float(rng.uniform(0.1, 9.9)), 0.1][
        int(rng.integers(0, 6))]
    csz = u * 10.0 ** int(rng.integers(-4, 5))
    m = [0.0, float(rng.integers(-10000, 10000)), float(rng.uniform(-1e4, 1e4)),
         float(rng.uniform(-3, 3))]
    xll = m[int(rng.integers(0, 4))] * csz
    yll = m[int(rng.integers(0, 4))] * csz
    if it % 7 == 0:
        xll, yll = 112.0, -44.5          # AWAP-like
        csz = 0.05
    if it % 11 == 6:
        # global grids: the columns span exactly 360 (degrees), in various cell sizes; or
        # a projected grid that happens to be 360 units wide
        nc_, cz_ = [(360, 1.0), (720, 0.5), (36, 10.0), (1440, 0.25), (3600, 0.1)][
            (it // 11) % 5]
        ncols, csz = nc_, cz_
        nrows = [nc_ // 2, 3, 1][(it // 55) % 3]
        xll, yll = [(-180.0, -90.0), (0.0, -90.0), (1000.0, 5.0)][(it // 11) % 3]
    if it % 7 == 3:
        # grids placed around the origin: the point (0, 0) is inside some cell
        xll = -csz * (ncols // 2 + float(rng.choice([0.5, 0.25, 0.0625])))
        yll = -csz * (nrows // 2 + float(rng.choice([0.5, 0.25, 0.0625])))
        if ncols // 2 + 0.5 > ncols:
            xll = -csz * 0.5
        if nrows // 2 + 0.5 > nrows:
            yll = -csz * 0.5
    return nrows, ncols, xll, yll, csz


def run_geom_case(ctx, case):
    Grid = G()
    nrows, ncols = int(case["nrows"]), int(case["ncols"])
    xll, yll, csz = float(case["xll"]), float(case["yll"]), float(case["csz"])
    seed = int(case["seed"])
    rng = np.random.default_rng(seed)
    g = Geom(nrows, ncols, xll, yll, csz)
    # the dimensions as the caller may hold them: python ints or numpy integers of
    # any width that can hold them (their product need not fit that width)
    dkind = [int, np.int64, np.int32, np.int16, np.uint8, np.uint16, int][seed % 7]
    try:
        dnc, dnr = dkind(ncols), dkind(nrows)
        if int(dnc) != ncols or int(dnr) != nrows:
            dnc, dnr = ncols, nrows
    except (OverflowError, ValueError):
        dnc, dnr = ncols, nrows
    if not isinstance(dnc, int):
        ctx.tag("dims:numpy-integer")
    gr = Grid("g", dnc, dnr, cellsize=csz, xllcorner=xll, yllcorner=yll)
    path = seed % 6
    if path in (4, 5):
        # a grid that was used with another geometry first (and, for path 5, cloned
        # after use), then moved / rescaled by assigning its geometry attributes
        gr = Grid("g", ncols, nrows, cellsize=csz * 3.0, xllcorner=xll - 7.25 * csz,
                  yllcorner=yll + 1000.5 * csz)
        c0 = np.arange(min(g.ncells, 5))
        p0 = gr.cell2coord(c0)
        gr.coord2cell(p0)
        gr.cell2rowcol(c0)
        gr.neighbours(0)
        _ = gr.xvalues, gr.yvalues
        if path == 5:
            gr = gr.clone()
        try:
            gr.xllcorner = xll
            gr.yllcorner = yll
            gr.cellsize = csz
        except AttributeError:
            # a grid whose geometry cannot be re-assigned has nothing to get wrong here
            ctx.extra["geometry-not-assignable"] += 1
            gr = Grid("g", ncols, nrows, cellsize=csz, xllcorner=xll, yllcorner=yll)
    elif path == 1:
        gr = Grid.from_dict(gr.to_dict())
    elif path == 2:
        gr = gr.clone(np.int32)
    elif path == 3:
        gr = Grid("g", ncols, nrows, cellsize=csz, xllcorner=xll, yllcorner=yll,
                  dtype=np.uint8).clone()
    ctx.tag(f"construction-path:{path}")
    ctx.evaluated()
    if nrows == 1:
        ctx.tag("grid:1row")
    if ncols == 1:
        ctx.tag("grid:1col")
    n = g.ncells
    cells = np.arange(n) if n <= 64 else np.unique(np.concatenate(
        [rng.integers(0, n, size=40), [0, ncols - 1, n - ncols, n - 1]]))
    # ---- cell2coord against exact centres
    ctx.api("cell2coord")
    xy = gr.cell2coord(cells)
    mag = max(abs(xll), abs(yll), abs(xll + ncols * csz), abs(yll + nrows * csz))
    tol = 4 * math.ulp(mag)
    bad = None
    for c, (x, y) in zip(cells, xy):
        ex, ey = g.centre(int(c))
        if abs(Fraction(float(x)) - ex) > tol or abs(Fraction(float(y)) - ey) > tol:
            bad = (int(c), float(x), float(y), float(ex), float(ey))
            break
    ctx.check("cell2coord.centre", bad is None, "cell2coord|centre", case,
              lambda: {"cell,x,y,exact_x,exact_y": bad})
    # ---- coord2cell(cell2coord(c)) == c
    ctx.api("coord2cell")
    back = gr.coord2cell(xy)
    ctx.check("roundtrip.cell", bool(np.array_equal(back, cells)),
              "coord2cell|roundtrip-of-centre", case,
              lambda: {"cells": cells[:10], "back": back[:10]})
    # ---- interior points
    offs = [-0.5 + 2e-9, -0.499, -0.25, 0.0, 0.25, 0.499, 0.5 - 2e-9]
    pts, exp = [], []
    sub = cells if len(cells) <= 25 else rng.choice(cells, size=25, replace=False)
    for c in sub:
        cx, cy = float(xy[list(cells).index(c), 0]), float(xy[list(cells).index(c), 1])
        for _ in range(9):
            ox = offs[int(rng.integers(0, len(offs)))] if rng.random() < 0.6 else \
                float(rng.uniform(-0.5, 0.5))
            oy = offs[int(rng.integers(0, len(offs)))] if rng.random() < 0.6 else \
                float(rng.uniform(-0.5, 0.5))
            pts.append((cx + ox * csz, cy + oy * csz))
    # coordinates that are exactly zero, first in the batch (the equator, a local datum),
    # then repeated: wherever the grid sits, zero is a coordinate like any other
    if len(pts) and seed % 2:
        x0, y0 = pts[0]
        pts = [(x0, 0.0), (x0, -0.0), (0.0, y0), (0.0, 0.0), (x0, 0.0)] + pts
        ctx.tag("points:zero-coordinate-first")
    pts = np.array(pts, dtype=float).reshape((-1, 2))
    got = gr.coord2cell(pts)
    njudged = 0
    bad = None
    for (x, y), gc in zip(pts, got):
        ec, dist = g.locate(float(x), float(y))
        if dist < 1e-9:
            ctx.extra["points-on-edge-not-judged"] += 1
            continue
        njudged += 1
        if int(gc) != ec and bad is None:
            bad = (float(x), float(y), int(gc), ec, dist)
        ctx.nontrivial(nrows, ncols, xll, yll, csz, float(x), float(y))
    ctx.tag("inside", njudged)
    ctx.evaluated(njudged)
    ctx.check("coord2cell.inside", bad is None, "coord2cell|inside-footprint", case,
              lambda: {"x,y,got,expected,edge_dist": bad})
    # ---- two points handed over as a tuple / list of two arrays, of tuples, of lists
    if len(pts) >= 2:
        p2 = pts[:2]
        e2 = [g.locate(float(a), float(b)) for a, b in p2]
        if min(d_ for _, d_ in e2) >= 1e-9:
            for cname, cont in (("tuple-of-arrays", (p2[0].copy(), p2[1].copy())),
                                ("list-of-arrays", [p2[0].copy(), p2[1].copy()]),
                                ("list-of-lists", p2.tolist()),
                                ("tuple-of-tuples", tuple(map(tuple, p2.tolist())))):
                ctx.tag("container:two-points")
                ctx.api("coord2cell")
                try:
                    r2 = [int(v) for v in np.asarray(gr.coord2cell(cont)).ravel()]
                except Exception:
                    ctx.extra[f"container-refused:{cname}"] += 1
                    continue
                ctx.check("coord2cell.two-points-container", r2 == [c_ for c_, _ in e2],
                          f"coord2cell|two-points-as-{cname}", case,
                          lambda: {"points": p2.tolist(), "got": r2,
                                   "expected": [c_ for c_, _ in e2]})
    # ---- batches that name every cell once, in another order, or as many cells as the
    # grid has with repeats (first and last cell at the ends)
    if 3 <= n <= 400:
        mid = rng.permutation(np.arange(1, n - 1))
        batches = {"all-shuffled": np.concatenate([[0], mid, [n - 1]]),
                   "all-reversed": np.arange(n)[::-1].copy(),
                   "n-with-repeats": np.concatenate([[0], rng.integers(0, n, size=n - 2),
                                                     [n - 1]])}
        for bname, bc in batches.items():
            bc = bc.astype(np.int64)
            ctx.tag("batch:whole-grid-size")
            ctx.api("cell2coord")
            ctx.api("cell2rowcol")
            bxy = np.asarray(gr.cell2coord(bc), dtype=float)
            brc = np.asarray(gr.cell2rowcol(bc))
            badb = None
            for j, c in enumerate(bc):
                ex, ey = g.centre(int(c))
                if abs(Fraction(float(bxy[j, 0])) - ex) > tol or \
                        abs(Fraction(float(bxy[j, 1])) - ey) > tol or \
                        tuple(int(v) for v in brc[j]) != g.rowcol(int(c)):
                    badb = (j, int(c), bxy[j].tolist(), brc[j].tolist())
                    break
            ctx.check("batch.whole-grid-size", badb is None,
                      f"cell2coord-cell2rowcol|batch-{bname}", case,
                      lambda: {"position,cell,coord,rowcol": badb})
    # ---- batches of one point / of identical points, incl. the origin itself
    for px, py in ((0.0, 0.0), (float(pts[0, 0]), float(pts[0, 1]))):
        ec, dist = g.locate(px, py)
        if dist < 1e-9:
            continue
        for rep_ in (1, 3):
            ctx.api("coord2cell")
            ctx.tag("batch:single-value")
            if px == 0.0 and py == 0.0 and ec >= 0:
                ctx.tag("batch:origin-inside")
            r1 = np.asarray(gr.coord2cell(np.array([[px, py]] * rep_)))
            ctx.check("coord2cell.small-batch", r1.shape == (rep_,) and
                      bool(np.all(r1 == ec)), "coord2cell|batch-of-identical-points", case,
                      lambda: {"point": [px, py], "repeat": rep_, "got": r1.tolist(),
                               "expected": ec})
    # ---- the same points / cell numbers in another memory layout or container
    # (np.array([x, y]).T is Fortran-ordered)
    prng = np.random.default_rng(digest(pts) % 2 ** 32)
    ctx.presentations("coord2cell", lambda p_: np.asarray(gr.coord2cell(p_)), [pts], got,
                      case, prng, n=1, rtol=0.0)
    ci = np.asarray(cells, dtype=np.int64)
    ctx.presentations("cell2coord", lambda c_: np.asarray(gr.cell2coord(c_)), [ci], xy,
                      case, prng, n=1, rtol=0.0)
    ctx.presentations("cell2rowcol", lambda c_: np.asarray(gr.cell2rowcol(c_)), [ci],
                      np.asarray(gr.cell2rowcol(ci)), case, prng, n=1, rtol=0.0)
    # ---- outside points
    dists = [1e-9 * 4, 1e-6, 0.5, 1.0 - 1e-6, 1.0, 1.5, 10.0, 1e3, 1e6,
             # whole numbers of cells that are powers of two and their neighbours, out to
             # where row x ncols no longer fits 64 bits, plus one full turn of 360
             float(2.0 ** int(rng.integers(30, 63))), float(2.0 ** int(rng.integers(44, 64))),
             float(2.0 ** 54), float(2.0 ** 59 + 2.0 ** 12), 360.0 / csz, 1e15, 9.3e18, 1e30] \
        + [float(2.0 ** k_) for k_ in range(40, 64, 1 + seed % 3)]
    x0, x1 = xll, xll + ncols * csz
    y0, y1 = yll, yll + nrows * csz
    sides = []
    for d in dists:
        yy = float(rng.uniform(y0, y1))
        xx = float(rng.uniform(x0, x1))
        sides += [("left", x0 - d * csz, yy), ("right", x1 + d * csz, yy),
                  ("bottom", xx, y0 - d * csz), ("top", xx, y1 + d * csz)]
        d2 = dists[int(rng.integers(0, len(dists)))]
        sides += [("diag", x0 - d * csz, y0 - d2 * csz), ("diag", x1 + d * csz, y0 - d2 * csz),
                  ("diag", x0 - d * csz, y1 + d2 * csz), ("diag", x1 + d * csz, y1 + d2 * csz)]
    po = np.array([[s[1], s[2]] for s in sides], dtype=float)
    ctx.api("coord2cell")
    go = gr.coord2cell(po)
    for (side, x, y), gc in zip(sides, go):
        ec, dist = g.locate(float(x), float(y))
        if ec != -1 or dist < 1e-9:
            ctx.extra["outside-points-not-judged"] += 1
            continue
        ctx.tag("outside:" + side)
        ctx.evaluated()
        ctx.check("coord2cell.outside", int(gc) == -1, f"coord2cell|outside|{side}",
                  case, lambda: {"x": x, "y": y, "got": int(gc),
                                 "distance_from_extent_in_cells": dist})
        ctx.nontrivial(nrows, ncols, xll, yll, csz, float(x), float(y))
    # ---- the first double left of / below the extent: outside, on this grid and on the
    # same grid placed at the origin (where that double is the smallest subnormal) with
    # cell sizes below and above 1
    Grid_ = type(gr)
    for gx, ox, oy, cz in [(gr, xll, yll, csz)] + [
            (Grid_("o", ncols, nrows, cellsize=cz_, xllcorner=0.0, yllcorner=0.0), 0.0, 0.0, cz_)
            for cz_ in (csz, 2.0, 0.5, 250.0)]:
        pe = np.array([[np.nextafter(ox, -np.inf), oy + 0.5 * cz],
                       [ox + 0.5 * cz, np.nextafter(oy, -np.inf)],
                       [np.nextafter(ox, -np.inf), np.nextafter(oy, -np.inf)],
                       [ox + 0.5 * cz, oy + 0.5 * cz]])
        ctx.api("coord2cell")
        ge = np.asarray(gx.coord2cell(pe))
        ctx.tag("outside:first-double-beyond-the-origin-sides")
        ctx.check("coord2cell.outside-by-one-ulp", bool(np.all(ge[:3] == -1)) and
                  int(ge[3]) == (nrows - 1) * ncols,
                  "coord2cell|first-double-left-of-or-below-the-extent-mapped-to-a-cell",
                  case, lambda: {"origin": [ox, oy], "cellsize": cz, "points": pe,
                                 "got": ge, "expected": [-1, -1, -1, (nrows - 1) * ncols]})
    # ---- rowcol and neighbours
    ctx.api("cell2rowcol")
    rc = gr.cell2rowcol(cells)
    exp_rc = np.array([g.rowcol(int(c)) for c in cells]).reshape((-1, 2))
    ctx.tag("rowcol", len(cells))
    ctx.check("cell2rowcol", bool(np.array_equal(rc, exp_rc)), "cell2rowcol|value",
              case, lambda: {"got": rc[:6], "expected": exp_rc[:6]})
    for c in (cells if len(cells) <= 30 else rng.choice(cells, 30, replace=False)):
        c = int(c)
        ctx.api("neighbours")
        nb = gr.neighbours(c)
        ref = g.neighbours(c)
        ctx.tag("neighbours")
        ok = list(map(int, nb)) == ref
        ctx.check("neighbours.value", ok, "neighbours|value", case,
                  lambda: {"cell": c, "got": list(map(int, nb)), "expected": ref})
        if ok:
            # symmetry / mirrored positions, observed on the real code
            for p, nbc in enumerate(ref):
                if nbc >= 0:
                    nb2 = gr.neighbours(nbc)
                    ctx.check("neighbours.mirror", int(nb2[8 - p]) == c,
                              "neighbours|mirror", case,
                              lambda: {"cell": c, "pos": p, "neighbour": nbc,
                                       "its_neighbours": list(map(int, nb2))})
        ctx.evaluated()
        ctx.nontrivial(nrows, ncols, "nb", c)
    # ---- invalid cells
    for bad_c in (-1, n, n + 1, 2 ** 62, -2 ** 62, -n):
        ctx.tag("invalid-cell")
        try:
            v = gr.cell2coord([bad_c])
            okv = bool(np.all(np.isnan(v)))
        except Exception:
            okv = True
        ctx.check("invalid.cell2coord", okv, "cell2coord|invalid-cell-mapped", case,
                  lambda: {"cell": bad_c, "got": v})
        try:
            v2 = gr.cell2rowcol([bad_c])
            okv = bool(np.all(v2 == -1))
        except Exception:
            okv = True
        ctx.check("invalid.cell2rowcol", okv, "cell2rowcol|invalid-cell-mapped", case,
                  lambda: {"cell": bad_c, "got": v2})
        try:
            v3 = gr.neighbours(bad_c)
            okv = bool(np.all(v3 == -1))
        except Exception:
            okv = True
        ctx.check("invalid.neighbours", okv, "neighbours|invalid-cell-mapped", case,
                  lambda: {"cell": bad_c, "got": v3})
    # ---- results kept by the caller stay valid after further calls on the grid
    keep = [(int(c), gr.neighbours(int(c)), gr.cell2coord([int(c)]),
             gr.cell2rowcol([int(c)])) for c in cells[:12]]
    okk = True
    wit = None
    for c, nbk, cck, rck in keep:
        ex, ey = g.centre(c)
        if list(map(int, nbk)) != g.neighbours(c) or \
                tuple(int(v) for v in rck[0]) != g.rowcol(c) or \
                abs(Fraction(float(cck[0, 0])) - ex) > tol:
            okk = False
            wit = (c, list(map(int, nbk)), g.neighbours(c))
    ctx.check("results-not-overwritten", okk, "neighbours-cell2coord|earlier-result-overwritten",
              case, lambda: {"cell,kept,expected": wit})
    # ---- invalid cell numbers mixed with valid ones in one call: each answer must
    # depend on its own cell number only
    mix = np.array([0, -1, n - 1, n, int(cells[len(cells) // 2]), 2 ** 62, 0, -5, n + 7,
                    n - 1], dtype=np.int64)
    valid = (mix >= 0) & (mix < n)
    ctx.tag("invalid-cell")
    try:
        cm = gr.cell2coord(mix)
        rm = gr.cell2rowcol(mix)
        okm = bool(np.all(np.isnan(cm[~valid]))) and bool(np.all(rm[~valid] == -1))
        solo = gr.cell2coord(mix[valid])
        okm = okm and bool(np.array_equal(cm[valid], solo)) and \
            bool(np.array_equal(rm[valid], gr.cell2rowcol(mix[valid])))
    except Exception:
        okm = True          # rejecting the whole call is accepted
        cm = rm = None
    ctx.check("invalid.mixed-call", okm, "cell2coord-cell2rowcol|invalid-cell-in-mixed-call",
              case, lambda: {"cells": mix.tolist(),
                             "coords": None if cm is None else cm.tolist(),
                             "rowcol": None if rm is None else rm.tolist()})
    # ---- xvalues / yvalues
    ctx.tag("xyvalues")
    ctx.api("xvalues/yvalues")
    xv, yv = np.asarray(gr.xvalues, float), np.asarray(gr.yvalues, float)
    okx = len(xv) == ncols and all(
        abs(Fraction(float(xv[k])) - g.centre(k)[0]) <= tol for k in range(ncols))
    oky = len(yv) == nrows and all(
        abs(Fraction(float(yv[r])) - g.centre(r * ncols)[1]) <= tol
        for r in range(nrows))
    ctx.check("xyvalues", okx and oky, "xvalues-yvalues|centres", case,
              lambda: {"xvalues": xv[:5], "yvalues": yv[:5]})
    # the arrays handed out belong to the caller: editing them (a common way of making
    # relative coordinates) changes nothing for this grid, nor for another grid with
    # the same axes
    for ax in ("xvalues", "yvalues"):
        got1 = getattr(gr, ax)
        keep = np.array(got1, dtype=float, copy=True)
        try:
            got1 -= got1[-1] + 17.25
            got1[...] = got1[::-1].copy()
        except (ValueError, TypeError):
            pass                                  # read-only result: fine
        twin = Grid("twin", ncols, nrows, cellsize=gr.cellsize,
                        xllcorner=gr.xllcorner, yllcorner=gr.yllcorner)
        again, other = np.asarray(getattr(gr, ax), float), np.asarray(getattr(twin, ax),
                                                                      float)
        ctx.api("xvalues/yvalues", 3)
        ctx.check("xyvalues.owned-by-caller", bool(np.array_equal(again, keep)) and
                  bool(np.array_equal(other, keep)),
                  "xvalues-yvalues|changed-by-editing-an-earlier-result", case,
                  lambda: {"axis": ax, "first": keep[:4], "after_edit": again[:4],
                           "same_axes_other_grid": other[:4]})


def run_integer_case(ctx, case):
    """grids whose origin and cell size are whole numbers (metres), queried with points
    held in integer arrays (survey coordinates, pixel indices): every point that is not
    on a grid line has one exact answer"""
    Grid = G()
    nrows, ncols = int(case["nrows"]), int(case["ncols"])
    xll, yll, csz = int(case["xll"]), int(case["yll"]), int(case["csz"])
    rng = np.random.default_rng(int(case["seed"]))
    dt = [np.int64, np.int32, np.int16, np.uint16, np.int64][int(case["seed"]) % 5]
    gr = Grid("g", ncols, nrows, cellsize=[csz, float(csz)][int(case["seed"]) % 2],
              xllcorner=xll, yllcorner=yll)
    g = Geom(nrows, ncols, float(xll), float(yll), float(csz))
    if np.iinfo(dt).min == 0 and min(xll, yll) - 2 * csz < 0:
        dt = np.int32                   # an unsigned type cannot hold this window
    lo = np.iinfo(dt).min
    px = rng.integers(max(lo, xll - 2 * csz), xll + (ncols + 2) * csz + 1, size=80)
    py = rng.integers(max(lo, yll - 2 * csz), yll + (nrows + 2) * csz + 1, size=80)
    pts = np.column_stack([px, py]).astype(dt)
    ctx.evaluated()
    ctx.tag("integer-points")
    ctx.api("coord2cell")
    try:
        got = np.asarray(gr.coord2cell(pts))
    except Exception as e:
        ctx.check("coord2cell.integer-points.runs", False,
                  "coord2cell|raises-on-integer-points", case, {"exc": repr(e)[:200]})
        return
    bad = None
    for (x, y), c in zip(pts.tolist(), got.tolist()):
        if (x - xll) % csz == 0 or (y - yll) % csz == 0:
            continue                               # on a grid line: not judged
        exp, _ = g.locate(x, y)
        if exp < 0:
            ctx.tag("integer-points:outside")
        if int(c) != exp and bad is None:
            bad = (x, y, int(c), exp)
        ctx.nontrivial("intpt", nrows, ncols, xll, yll, csz, x, y)
    ctx.check("coord2cell.integer-points", bad is None,
              "coord2cell|integer-points-on-integer-grid", case,
              lambda: {"x,y,got,expected": bad, "dtype": np.dtype(dt).name})


def run_huge_grid(ctx):
    """a grid with more than 2^31 cells (a continental 30 m raster): cell numbers beyond
    the 32-bit range are ordinary valid cells (int8 cells, allocated lazily)"""
    Grid = G()
    nrows, ncols = 32769, 65536
    try:
        gr = Grid("huge", ncols, nrows, cellsize=0.25, xllcorner=-1200.0,
                  yllcorner=-7852.0, dtype=np.int8)
    except MemoryError:
        ctx.notes.append("huge grid: not enough memory, skipped")
        return
    g = Geom(nrows, ncols, -1200.0, -7852.0, 0.25)
    case = {"kind": "huge"}
    cells = np.array([0, 2 ** 31 - 1, 2 ** 31, 2 ** 31 + 1, 2 ** 31 + 40007,
                      nrows * ncols - 1, 2 ** 31 + 12345], dtype=np.int64)
    ctx.tag("grid:more-than-2^31-cells")
    ctx.evaluated(len(cells))
    xy = np.asarray(gr.cell2coord(cells), dtype=float)
    rc = np.asarray(gr.cell2rowcol(cells))
    back = np.asarray(gr.coord2cell(xy))
    ctx.api("cell2coord")
    ctx.api("cell2rowcol")
    ctx.api("coord2cell")
    bad = None
    for j, c in enumerate(cells):
        ex, ey = g.centre(int(c))
        nb = [int(v) for v in gr.neighbours(int(c))]
        if abs(Fraction(float(xy[j, 0])) - ex) > 1e-6 or \
                abs(Fraction(float(xy[j, 1])) - ey) > 1e-6 or \
                tuple(int(v) for v in rc[j]) != g.rowcol(int(c)) or int(back[j]) != int(c) \
                or nb != g.neighbours(int(c)):
            bad = (int(c), xy[j].tolist(), rc[j].tolist(), int(back[j]))
            break
        ctx.nontrivial("huge", int(c))
    ctx.check("huge-grid.consistent", bad is None, "huge-grid|cell-beyond-2^31", case,
              lambda: {"cell,coord,rowcol,back": bad})


def run_derived_case(ctx, case):
    """A grid obtained from another one (cut out with Grid.clip, cloned, rebuilt from its
    dictionary) answers every geometric question exactly like a grid built by the
    constructor with the geometry it reports; and invalid cell numbers are flagged
    whatever form the number is given in (bare Python / numpy integers too)."""
    def scalar_forms(v):
        f = [int(v), np.int64(v), np.array(v, dtype=np.int64)]
        if -2 ** 31 <= v < 2 ** 31:
            f.append(np.int32(v))
        if 0 <= v < 2 ** 16:
            f.append(np.uint16(v))
        return f
    Grid = G()
    rng = np.random.default_rng(int(case["seed"]))
    nrows, ncols = int(case["nrows"]), int(case["ncols"])
    xll, yll, csz = float(case["xll"]), float(case["yll"]), float(case["csz"])
    pl, pb, pr, pt = [int(v) for v in case["pads"]]
    big = Grid("parent", ncols + pl + pr, nrows + pb + pt, cellsize=csz,
               xllcorner=xll - pl * csz, yllcorner=yll - pb * csz,
               dtype=[np.float64, np.int32, np.uint8][nrows % 3])
    ctx.evaluated()
    derived = {}
    try:
        derived["clip"] = big.clip(xll + 0.5 * csz, yll + 0.5 * csz,
                                   xll + (ncols - 0.5) * csz, yll + (nrows - 0.5) * csz)
        derived["clip-of-clip"] = derived["clip"].clip(
            derived["clip"].xllcorner + 0.5 * csz, derived["clip"].yllcorner + 0.5 * csz,
            derived["clip"].xllcorner + (derived["clip"].ncols - 0.5) * csz,
            derived["clip"].yllcorner + (derived["clip"].nrows - 0.5) * csz)
        derived["clone-of-clip"] = derived["clip"].clone()
        derived["dict-of-clip"] = Grid.from_dict(derived["clip"].to_dict())
    except Exception as e:
        ctx.extra["derived-grid-refused:" + type(e).__name__] += 1
    for how, gd in derived.items():
        ctx.tag("derived:" + how)
        if gd.nrows >= 2:
            ctx.tag("derived:two-rows-or-more")
        twin = Grid("twin", gd.ncols, gd.nrows, cellsize=gd.cellsize,
                    xllcorner=gd.xllcorner, yllcorner=gd.yllcorner)
        nc_ = gd.nrows * gd.ncols
        cells = np.arange(nc_) if nc_ <= 400 else np.unique(np.concatenate(
            [np.arange(50), nc_ - 1 - np.arange(50), rng.integers(0, nc_, 200)]))
        x0, x1, y0, y1 = gd.xllcorner, gd.xllcorner + gd.ncols * csz, gd.yllcorner, \
            gd.yllcorner + gd.nrows * csz
        pts = np.column_stack([rng.uniform(x0 - 2 * csz, x1 + 2 * csz, 300),
                               rng.uniform(y0 - 2 * csz, y1 + 2 * csz, 300)])
        probes = {"cell2coord": lambda q: np.asarray(q.cell2coord(cells)),
                  "coord2cell": lambda q: np.asarray(q.coord2cell(pts)),
                  "coord2cell-of-own-centres": lambda q: np.asarray(
                      q.coord2cell(np.asarray(q.cell2coord(cells)))),
                  "cell2rowcol": lambda q: np.asarray(q.cell2rowcol(cells)),
                  "xvalues": lambda q: np.asarray(q.xvalues, float),
                  "yvalues": lambda q: np.asarray(q.yvalues, float),
                  "neighbours": lambda q: np.concatenate(
                      [np.asarray(q.neighbours(int(c_))).ravel() for c_ in cells[:40]])}
        for nm, fn in probes.items():
            ctx.api(nm.split("-")[0])
            try:
                a, b = fn(gd), fn(twin)
                ok = a.shape == b.shape and bool(np.array_equal(a, b, equal_nan=a.dtype.kind == "f"))
            except Exception as e:
                a = b = None
                ok = False
            ctx.check("derived." + nm, ok, f"{nm}|derived-grid-differs-from-constructed-twin",
                      dict(case, how=how),
                      lambda: {"how": how, "derived": None if a is None else a.ravel()[:6],
                               "twin": None if b is None else b.ravel()[:6]})
        # centres lie inside the extent the grid itself reports
        cc = np.asarray(gd.cell2coord(cells))
        ctx.check("derived.centres-inside-own-extent",
                  bool(np.all((cc[:, 0] > x0) & (cc[:, 0] < x1) & (cc[:, 1] > y0) &
                              (cc[:, 1] < y1))),
                  "cell2coord|derived-grid-centres-outside-its-own-extent",
                  dict(case, how=how), lambda: {"how": how, "centres": cc[:3]})
    # ---- invalid cell numbers, one at a time, in every scalar form
    gq = Grid("q", ncols, nrows, cellsize=csz, xllcorner=xll, yllcorner=yll)
    ncell = nrows * ncols
    for bad in (ncell, ncell + 1, -1, -ncell, 2 * ncell, 2 ** 31, 2 ** 40):
        for form in scalar_forms(bad):
            ctx.tag("invalid-cell:scalar-forms")
            ctx.api("cell2rowcol")
            try:
                rc = np.asarray(gq.cell2rowcol(form)).ravel()
                okb = bool(np.all(rc == -1))
            except (ValueError, OverflowError, TypeError, IndexError):
                rc, okb = None, True
            ctx.check("cell2rowcol.invalid-scalar", okb,
                      "cell2rowcol|invalid-cell-number-mapped-to-a-position",
                      dict(case, cell=bad),
                      lambda: {"cell": bad, "form": type(form).__name__, "got": rc,
                               "ncells": ncell})
            ctx.api("cell2coord")
            try:
                xy = np.asarray(gq.cell2coord(form), dtype=float).ravel()
                okc = bool(np.all(np.isnan(xy)))
            except (ValueError, OverflowError, TypeError, IndexError):
                xy, okc = None, True
            ctx.check("cell2coord.invalid-scalar", okc,
                      "cell2coord|invalid-cell-number-mapped-to-a-point",
                      dict(case, cell=bad),
                      lambda: {"cell": bad, "form": type(form).__name__, "got": xy})
    for good in (0, ncell - 1, ncell // 2):
        for form in scalar_forms(good):
            ctx.api("cell2rowcol")
            try:
                rc = np.asarray(gq.cell2rowcol(form)).ravel().tolist()
            except Exception as e:
                rc = repr(e)
            ctx.check("cell2rowcol.valid-scalar", rc == [good // ncols, good % ncols],
                      "cell2rowcol|scalar-cell-number", dict(case, cell=good),
                      lambda: {"cell": good, "form": type(form).__name__, "got": rc})


def run_many_points(ctx):
    """coord2cell on hundreds of thousands to millions of points, at counts next to every
    round number with two significant digits (and one more than twice such a number): the
    answer for each point is the one it gets in a call of a thousand points"""
    Grid = G()
    gr = Grid("many", 9, 7, cellsize=0.5, xllcorner=-1.25, yllcorner=10.0)
    rng = np.random.default_rng(ctx.seed + 77)
    base = np.column_stack([rng.uniform(-2.5, 4.5, 1000), rng.uniform(9.0, 14.5, 1000)])
    base[::7] = gr.cell2coord(rng.integers(0, 63, size=len(base[::7])))
    exp0 = np.asarray(gr.coord2cell(base.copy()))
    sizes = sorted({n_ for a in range(10, 100) for e in (4, 5)
                    for n_ in (a * 10 ** e - 1, a * 10 ** e, a * 10 ** e + 1,
                               2 * a * 10 ** e + 1) if n_ <= 4000001} |
                   {2 ** k + d for k in range(17, 22) for d in (-1, 0, 1)})
    mine = [n_ for i, n_ in enumerate(sizes) if i % ctx.nshards == ctx.shard]
    for n_ in mine:
        if ctx.out_of_time():
            break
        reps = -(-n_ // 1000)
        off = int(rng.integers(0, 1000))
        pts = np.roll(np.tile(base, (reps, 1)), off, axis=0)[:n_]
        exp = np.roll(np.tile(exp0, reps), off)[:n_]
        ctx.evaluated()
        ctx.api("coord2cell")
        ctx.tag("many-points")
        got = np.asarray(gr.coord2cell(pts))
        bad = np.where(got != exp)[0] if got.shape == exp.shape else np.array([0])
        ctx.check("coord2cell.many-points", len(bad) == 0,
                  "coord2cell|differs-in-a-call-with-very-many-points",
                  {"kind": "manypoints", "n": int(n_)},
                  lambda: {"npoints": int(n_), "first_wrong_point": int(bad[0]),
                           "wrong": int(len(bad)), "got": int(got[bad[0]]) if got.shape ==
                           exp.shape else None, "expected": int(exp[bad[0]])})
    ctx.nontrivial("manypoints", len(mine))


def run(ctx):
    run_many_points(ctx)
    if ctx.shard == 0:
        run_huge_grid(ctx)
    rng = ctx.rng(1)
    nrep = 40 if ctx.tier == "quick" else 3000
    for it in range(nrep):
        if ctx.out_of_time():
            ctx.notes.append(f"stopped at {it}")
            break
        nrows, ncols, xll, yll, csz = gen_geom(rng, it + ctx.shard)
        case = {"kind": "geom", "nrows": nrows, "ncols": ncols, "xll": xll,
                "yll": yll, "csz": csz, "seed": int(rng.integers(0, 2 ** 31))}
        run_geom_case(ctx, case)
        if it % 15 == 0:
            ctx.sample(case)
        run_derived_case(ctx, {"kind": "derived", "nrows": int(rng.integers(1, 9)),
                               "ncols": int(rng.integers(1, 9)),
                               "xll": float(rng.integers(-40, 40)) * 0.25,
                               "yll": float(rng.integers(-40, 40)) * 0.5,
                               "csz": [0.25, 0.5, 1.0, 2.0, 0.125][it % 5],
                               "pads": [int(v) for v in rng.integers(0, 4, size=4)],
                               "seed": int(rng.integers(0, 2 ** 31))})
        if it % 2 == 0:
            run_integer_case(ctx, {"kind": "intgeom", "nrows": int(rng.integers(1, 12)),
                                   "ncols": int(rng.integers(1, 12)),
                                   "xll": int(rng.integers(-3, 200)),
                                   "yll": int(rng.integers(-60, 60)),
                                   "csz": [1, 2, 5, 10, 30, 2, 3][it // 2 % 7],
                                   "seed": int(rng.integers(0, 2 ** 31))})


def replay(ctx, case):
    if case.get("kind") == "huge":
        return run_huge_grid(ctx)
    if case.get("kind") == "intgeom":
        return run_integer_case(ctx, case)
    if case.get("kind") == "derived":
        return run_derived_case(ctx, case)
    if case.get("kind") == "manypoints":
        return run_many_points(ctx)
    run_geom_case(ctx, case)
