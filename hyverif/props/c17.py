"""C17 - AR simulation and residual computation are exact inverses.

Monitor: the recursion evaluated by an independent reference that also propagates an
a-priori rounding bound; round-trip predicates on pairs of observed executions."""
import math
import warnings

import numpy as np

from hyverif.core import digest, same_result, scalar_forms, size_edges

ID = "C17"
SHARDS = {"quick": 8, "thorough": 16}
BUDGET = {"quick": 300, "thorough": 1800}
RULE = ("orders 1..10 (0 and 11 for rejection) x coefficient vectors of any sign "
        "with sum|phi| <= 1.5 x means / initial values of any sign x series of "
        "length 0..5000 with NaN anywhere incl. the first `order` steps x default "
        "and explicit sim_mean / sim_ini. Non-trivial: length >= 2, some non-zero "
        "coefficient and a rounding bound below 1e-6 x max|y| (explosive cases are "
        "executed but counted trivial); distinct by digest of inputs.")
ASSUMPTIONS = [
    "tolerance = 64 x a rounding bound propagated through the same recursion "
    "(|err_t| <= sum|phi_k| err_{t-k} + (order+3) eps (sum|phi_k y_{t-k}| + |e_t| + "
    "|y_t|))",
    "sim(residual(y)) is compared with y at the non-missing positions of y",
]
OBLIGATIONS = {"order=1": 20, "order=10": 10, "nan-innov": 30, "nan-first-steps": 20,
               "nan-inputs": 30, "len=0": 5, "len=1": 5, "default-mean": 30, "default-mean:no-valid-input": 10, "options-by-position": 30, "nan-inputs:one-long-run": 5, "series-constant-at-the-mean": 30,
               "explicit-ini": 30, "explicit-ini=0": 10, "reject:order": 20, "reject:nan-param": 20,
               "negative-coef": 30, "size-edge": 10}
EPS = 2.0 ** -52


def A():
    from hydrodiy.stat import armodels
    return armodels


def _fsum(it):
    """math.fsum that returns inf / nan instead of raising on overflow"""
    vals = list(it)
    try:
        return math.fsum(vals)
    except (OverflowError, ValueError):
        return float(np.sum(np.asarray(vals, dtype=float)))


def ref_sim(phi, e, mean, ini):
    p = len(phi)
    prev = [ini - mean] * p
    perr = [EPS * abs(ini - mean)] * p
    y = np.empty(len(e))
    bound = np.empty(len(e))
    for t in range(len(e)):
        v = 0.0 if math.isnan(e[t]) else e[t]
        terms = [phi[k] * prev[k] for k in range(p)]
        c = _fsum(terms + [v])
        mag = _fsum(abs(x) for x in terms) + abs(v)
        err = _fsum(abs(phi[k]) * perr[k] for k in range(p)) + (p + 3) * EPS * mag
        prev = [c] + prev[:-1]
        perr = [err] + perr[:-1]
        y[t] = c + mean
        bound[t] = err + EPS * (abs(c) + abs(mean))
    return y, bound


def ref_res(phi, y, mean, ini):
    p = len(phi)
    prev = [ini - mean] * p
    perr = [EPS * (abs(ini) + abs(mean))] * p
    r = np.empty(len(y))
    bound = np.empty(len(y))
    for t in range(len(y)):
        terms = [phi[k] * prev[k] for k in range(p)]
        pred = _fsum(terms)
        mag = _fsum(abs(x) for x in terms)
        perr_pred = _fsum(abs(phi[k]) * perr[k] for k in range(p)) + \
            (p + 3) * EPS * mag
        if math.isnan(y[t]):
            v = pred
            verr = perr_pred
            r[t] = 0.0
            bound[t] = 2 * perr_pred + (p + 3) * EPS * mag
        else:
            v = y[t] - mean
            verr = EPS * (abs(y[t]) + abs(mean))
            r[t] = v - pred
            bound[t] = verr + perr_pred + (p + 3) * EPS * (abs(v) + mag)
        prev = [v] + prev[:-1]
        perr = [verr] + perr[:-1]
    return r, bound


def gen_case(rng, it, tier):
    order = int(rng.integers(1, 11))
    if it % 7 == 0:
        order = 1
    if it % 11 == 0:
        order = 10
    phi = rng.normal(size=order)
    if it % 3 == 0:
        phi = np.abs(phi)
    tot = rng.uniform(0.05, 1.5)
    phi = phi / np.sum(np.abs(phi)) * tot
    if it % 13 == 0:
        phi[int(rng.integers(0, order))] = 0.0
    if it % 17 == 5:
        # a random walk / an alternating one: coefficient exactly +-1 at order 1
        phi = np.array([[1.0, -1.0][(it // 17) % 2]])
        order = 1
    lens = [0, 1, 2, 3, order, order + 1, 50, 500, 5000 if tier == "thorough" else 1200]
    n = lens[it % len(lens)] if it % 2 == 0 else int(rng.integers(0, 300))
    if it % 10 == 3:
        ed = size_edges(2, 20001 if tier == "quick" else 100001)
        n = ed[(it // 10) % len(ed)]
        tags_extra = ["size-edge"]
    else:
        tags_extra = []
    sc = 10.0 ** rng.integers(-3, 4)
    e = rng.normal(size=n) * sc
    mean = float(rng.normal() * sc * rng.choice([0, 1, 10]))
    ini = float(mean + rng.normal() * sc * rng.choice([0, 1, 5]))
    if it % 5 == 0:
        ini = 0.0                      # explicit initial value 0 with a non-zero mean
    elif it % 5 == 1:
        ini = -mean
    if it % 9 == 0:
        mean = 0.0
    nanpat = it % 4
    tags = list(tags_extra)
    if n > 0 and nanpat == 1:
        e[rng.random(n) < 0.15] = np.nan
    if n > 0 and nanpat == 2:
        e[: min(n, order)] = np.nan
        tags.append("nan-first-steps")
    if n > 0 and nanpat == 3 and n > 3:
        e[-1] = np.nan
        e[n // 2] = np.nan
    explicit = bool(it % 2)
    if it % 3 == 1 and n > 0 and np.isnan(e).any():
        # missing values as arithmetic produces them (sign bit set), not only np.nan
        with np.errstate(all="ignore"):
            negnan = [-np.nan, np.log(-1.0), np.inf - np.inf, np.float64(0.0) * -np.inf][
                (it // 3) % 4]
        e = e.copy()
        e[np.isnan(e)] = negnan
        tags.append("nan:sign-bit-set")
    if it % 19 == 7 and n >= 3:
        # one coefficient tiny but not zero, acting on a level that dwarfs the innovations
        # (a series far from its mean): its term is as large as the others
        phi = phi.copy()
        phi[int(rng.integers(0, order))] = [5e-11, -1e-12, 3e-20, 1e-10][(it // 19) % 4] \
            * [1, -1][it % 2]
        ini = float(mean + [2e13, -5e14, 1e22, 3e12][(it // 19) % 4] * sc)
        explicit = True
        tags.append("tiny-coefficient-large-level")
    if it % 23 == 9 and n >= 2:
        # innovations, mean and initial value at the bottom of the number line (all
        # subnormal): still numbers, not missing values
        e = rng.normal(size=n) * 1e-310
        mean, ini = 0.0, [0.0, 3e-311][(it // 23) % 2]
        explicit = True
        tags.append("subnormal-series")
    return {"kind": "ar", "phi": phi, "e": e, "mean": mean, "ini": ini,
            "explicit": explicit, "tags": tags}


def call(fn, *a, **k):
    with warnings.catch_warnings():
        warnings.simplefilter("ignore")
        with np.errstate(all="ignore"):
            return fn(*a, **k)


def run_case(ctx, case):
    ar = A()
    phi = np.asarray(case["phi"], dtype=float)
    e = np.asarray(case["e"], dtype=float)
    mean, ini = float(case["mean"]), float(case["ini"])
    explicit = case["explicit"]
    p = len(phi)
    n = len(e)
    ctx.evaluated()
    for t in case.get("tags", []):
        ctx.tag(t)
    if p == 1:
        ctx.tag("order=1")
    if p == 10:
        ctx.tag("order=10")
    if np.isnan(e).any():
        ctx.tag("nan-innov")
    if n == 0:
        ctx.tag("len=0")
    if n == 1:
        ctx.tag("len=1")
    if (phi < 0).any():
        ctx.tag("negative-coef")
    kw = {"sim_mean": mean, "sim_ini": ini} if explicit else {"sim_mean": mean}
    if explicit:
        ctx.tag("explicit-ini")
        if ini == 0.0 and mean != 0.0:
            ctx.tag("explicit-ini=0")
    ini_eff = ini if explicit else mean
    ctx.api("armodel_sim")
    params = phi if (p > 1 or case.get("scalar") is False) else float(phi[0])
    if p > 1 and n % 3 == 1:
        params = phi.tolist()                 # plain list of coefficients
    elif p > 1 and n % 3 == 2:
        params = np.asfortranarray(np.column_stack([phi, phi]))[:, 0]   # strided
    y = call(ar.armodel_sim, params, e.copy(), **kw)
    try:
        yref, yb = ref_sim(phi.tolist(), e.tolist(), mean, ini_eff)
    except (OverflowError, ValueError):
        yref = yb = np.full(len(e), np.inf)
    ctx.check("sim.shape", y.shape == e.shape, "armodel_sim|shape", case,
              {"shape": list(y.shape)})
    if y.shape != e.shape:
        return
    ymax = float(np.max(np.abs(yref))) if n else 0.0
    FLOOR = 1e-300 if ymax > 1e-290 or ymax == 0 else 1e-3 * ymax + 5e-322
    tol = 64 * yb + FLOOR
    # (series growing beyond 1e150 are explosive for every practical purpose: sums of
    # such values - the default mean - overflow in double precision)
    stable = n == 0 or (bool(np.all(np.isfinite(yref))) and bool(np.all(np.isfinite(yb)))
                        and float(np.max(yb)) <= 1e-6 * max(ymax, 1e-300)
                        and ymax < 1e150)
    if not stable:
        # explosive coefficients (values overflow): executed, not judged
        ctx.extra["explosive-not-judged"] += 1
        return
    bad = np.where(~(np.abs(y - yref) <= tol))[0]
    ctx.check("sim.recursion", len(bad) == 0 or not stable, "armodel_sim|recursion",
              case, lambda: {"t": int(bad[0]), "got": float(y[bad[0]]),
                             "ref": float(yref[bad[0]]), "bound": float(yb[bad[0]])})
    ctx.check("sim.no-nan", not np.isnan(y).any() or not stable,
              "armodel_sim|nan-output", case, None)
    # residual(sim(e)) == e  (NaN -> 0)
    ctx.api("armodel_residual")
    r = call(ar.armodel_residual, params, y.copy(), **kw)
    # the same numbers in another memory layout / container / exact dtype
    if n >= 1:
        kws = {k_: scalar_forms(v_, n + i_) for i_, (k_, v_) in enumerate(kw.items())}
        try:
            ysf = call(ar.armodel_sim, params, e.copy(), **kws)
            ctx.check("sim.scalar-forms", same_result(ysf, y),
                      "armodel_sim|result-depends-on-scalar-type-of-options", case,
                      lambda: {k_: repr(v_) for k_, v_ in kws.items()})
        except Exception as ex:
            ctx.check("sim.scalar-forms", False, "armodel_sim|raises-on-numpy-scalar-option",
                      case, {"exc": repr(ex), **{k_: repr(v_) for k_, v_ in kws.items()}})
    if n >= 1:
        # ... and for the inverse (a mean taken from an integer or single-precision
        # data set, when it is the same number)
        kws = {k_: scalar_forms(v_, n + i_ + 1) for i_, (k_, v_) in enumerate(kw.items())}
        for k_, v_ in list(kws.items()):
            fv_ = float(np.asarray(v_))
            if (n + p) % 3 == 0 and np.isfinite(fv_) and float(np.float32(fv_)) == fv_:
                kws[k_] = np.float32(fv_)
        ctx.tag("residual:scalar-forms")
        try:
            rsf = call(ar.armodel_residual, params, y.copy(), **kws)
            ctx.check("residual.scalar-forms", same_result(rsf, r),
                      "armodel_residual|result-depends-on-scalar-type-of-options", case,
                      lambda: {k_: repr(v_) for k_, v_ in kws.items()})
        except Exception as ex:
            ctx.check("residual.scalar-forms", False,
                      "armodel_residual|raises-on-numpy-scalar-option",
                      case, {"exc": repr(ex), **{k_: repr(v_) for k_, v_ in kws.items()}})
    if n >= 1 and n <= 300:
        ctx.reuse("armodel_sim", lambda p_, e_: call(ar.armodel_sim, p_, e_, **kw),
                  [phi, e], y, case)
        ctx.reuse("armodel_residual", lambda p_, y_: call(ar.armodel_residual, p_, y_, **kw),
                  [phi, y], r, case)
    if n >= 1 and p > 1:
        prng = np.random.default_rng(digest(phi, e) % 2 ** 32)
        ctx.presentations("armodel_sim", lambda p_, e_: call(ar.armodel_sim, p_, e_, **kw),
                          [phi, e], y, case, prng, n=1)
        ctx.presentations("armodel_residual",
                          lambda p_, y_: call(ar.armodel_residual, p_, y_, **kw),
                          [phi, y], r, case, prng, n=1)
    e0 = np.where(np.isnan(e), 0.0, e)
    if stable and n:
        # bound: residual of y recomputes pred from y itself; error dominated by yb
        amp = 1 + float(np.sum(np.abs(phi)))
        tolr = 64 * amp * (yb + np.concatenate([[0], np.maximum.accumulate(yb)[:-1]])) \
            + 64 * EPS * (np.abs(yref) + abs(mean)) * (p + 3) + FLOOR
        badr = np.where(~(np.abs(r - e0) <= tolr))[0]
        ctx.check("roundtrip.residual-of-sim", len(badr) == 0,
                  "armodel|residual(sim(e))", case,
                  lambda: {"t": int(badr[0]), "e": float(e0[badr[0]]),
                           "got": float(r[badr[0]]), "tol": float(tolr[badr[0]])})
    # a series held in an integer array (counts, rounded levels) with the mean left to
    # its default: the same numbers as the float series
    if stable and n >= 2 and not explicit:
        yi = np.round(np.where(np.isfinite(y), y, 0.0) * 4).astype(np.int64)
        if np.abs(yi).max() < 2 ** 40 and float(np.mean(yi)) != float(int(np.mean(yi))):
            ctx.tag("integer-series-default-mean")
            ctx.api("armodel_residual", 2)
            try:
                ri = call(ar.armodel_residual, params, yi[(n % 2):].astype(
                    [np.int64, np.int32, np.int16][n % 3] if np.abs(yi).max() < 2 ** 15
                    else np.int64))
                rf = call(ar.armodel_residual, params, yi[(n % 2):].astype(np.float64))
                ctx.check("residual.integer-series", same_result(ri, rf, 1e-12, 1e-12),
                          "armodel_residual|integer-series-differs-from-float-series",
                          case, lambda: {"int": np.asarray(ri)[:4], "float":
                                         np.asarray(rf)[:4], "mean": float(np.mean(yi))})
            except Exception as ex:
                ctx.check("residual.integer-series", False,
                          "armodel_residual|raises-on-integer-series", case,
                          {"exc": repr(ex)[:200]})
    # residual definition on an arbitrary series with NaN + sim(residual(y)) == y
    yin = y.copy()
    if n > 3 and case.get("nan_inputs", True) and stable:
        rs = np.random.default_rng(int(abs(mean * 1000)) % 1000 + n)
        mask = rs.random(n) < 0.1
        if case.get("tags") and "nan-first-steps" in case["tags"]:
            mask[:p] = True
        if case.get("nan_run"):
            # one long run of missing inputs (a sensor outage) instead of scattered ones
            a_, l_ = case["nan_run"]
            mask[:] = False
            mask[a_:a_ + l_] = True
            ctx.tag("nan-inputs:one-long-run")
        yin[mask] = np.nan
        if mask.any():
            ctx.tag("nan-inputs")
    use_default_mean = (not explicit) and n > 0 and np.isfinite(yin).any() and \
        case.get("default_mean", True)
    if use_default_mean:
        ctx.tag("default-mean")
        with warnings.catch_warnings():
            warnings.simplefilter("ignore")
            mres = float(np.nanmean(yin))
        kwr = {}
        inir = mres
    else:
        mres = mean
        kwr = dict(kw)
        inir = ini_eff
    # default mean with nothing to take a mean from (no step at all, or every step
    # missing): the answer is still the zero residual of each missing input
    for ynone in ([yin, np.zeros(0, dtype=np.int64), np.zeros(0, dtype=np.uint8),
                   np.zeros(0, dtype=np.float32)] if n == 0
                  else [np.full(n, np.nan)] if n <= 6 or n % 7 == 0 else []):
        ctx.api("armodel_residual")
        ctx.tag("default-mean:no-valid-input")
        try:
            r0 = np.asarray(call(ar.armodel_residual, params, ynone.copy()))
            ctx.check("residual.default-mean-without-valid-input",
                      r0.shape == ynone.shape and bool(np.all(r0 == 0)),
                      "armodel_residual|default-mean|nonzero-without-valid-input", case,
                      lambda: {"n": n, "residuals": r0[:5]})
        except Exception as ex:
            ctx.check("residual.default-mean-without-valid-input", False,
                      "armodel_residual|default-mean|raises-without-valid-input",
                      dict(case, n_series=n), {"n": n, "exc": repr(ex)[:200]})
    ctx.api("armodel_residual")
    r2 = call(ar.armodel_residual, params, yin.copy(), **kwr)
    if kwr and n % 2:
        # mean and initial value given by position, in the documented order
        ctx.tag("options-by-position")
        pos = [kwr["sim_mean"]] + ([kwr["sim_ini"]] if "sim_ini" in kwr else [])
        rp = call(ar.armodel_residual, params, yin.copy(), *pos)
        yp = call(ar.armodel_sim, params, e.copy(), *pos)
        ctx.api("armodel_sim")
        ctx.check("options.by-position", same_result(rp, r2, 0.0, 0.0) and
                  same_result(yp, y, 0.0, 0.0),
                  "armodel|options-by-position-differ-from-options-by-name", case,
                  lambda: {"residual_by_position": np.asarray(rp)[:4],
                           "residual_by_name": np.asarray(r2)[:4],
                           "sim_by_position": np.asarray(yp)[:4], "sim_by_name": y[:4]})
    if explicit and stable:
        # a series that sits exactly on the mean while the initial value does not: the
        # first residuals carry the decay from the initial value
        for k_ in sorted({1, 3, min(n, 40)} - {0}):
            yc = np.full(k_, mean)
            ctx.tag("series-constant-at-the-mean")
            rc = np.asarray(call(ar.armodel_residual, params, yc.copy(), sim_mean=mean,
                                 sim_ini=ini), dtype=float)
            rcr, rcb = ref_res(phi.tolist(), yc.tolist(), mean, ini)
            sc_ = max(abs(mean), abs(ini), 1e-300)
            badc = np.where(~(np.abs(rc - rcr) <= 64 * rcb + 1e-13 * sc_))[0]
            ctx.check("residual.constant-at-mean", len(badc) == 0,
                      "armodel_residual|definition|series-constant-at-the-mean", case,
                      lambda: {"t": int(badc[0]), "got": float(rc[badc[0]]),
                               "ref": float(rcr[badc[0]]), "mean": mean, "ini": ini})
    rref, rb = ref_res(phi.tolist(), yin.tolist(), mres, inir)
    if stable:
        badr = np.where(~(np.abs(r2 - rref) <= 64 * rb + FLOOR))[0]
        ctx.check("residual.definition", len(badr) == 0, "armodel_residual|definition",
                  case, lambda: {"t": int(badr[0]), "got": float(r2[badr[0]]),
                                 "ref": float(rref[badr[0]]),
                                 "bound": float(rb[badr[0]])})
        nanpos = np.isnan(yin)
        if nanpos.any():
            ctx.check("residual.zero-at-missing",
                      bool(np.all(np.abs(r2[nanpos]) <= 64 * rb[nanpos] + FLOOR)),
                      "armodel_residual|nonzero-at-missing", case,
                      lambda: {"residuals": r2[nanpos][:5].tolist()})
        # sim(residual(y)) == y at the non-missing positions
        ctx.api("armodel_sim")
        y3 = call(ar.armodel_sim, params, r2.copy(), sim_mean=mres, sim_ini=inir)
        y3ref, y3b = ref_sim(phi.tolist(), r2.tolist(), mres, inir)
        okp = ~nanpos
        amp = 1 + float(np.sum(np.abs(phi)))
        tol3 = 64 * amp * (np.maximum.accumulate(y3b) + np.maximum.accumulate(rb)) \
            + 1e-300
        if float(np.max(tol3, initial=0)) <= 1e-6 * max(ymax, 1e-300) * 64:
            bad3 = np.where(okp & ~(np.abs(y3 - yin) <= tol3))[0]
            ctx.check("roundtrip.sim-of-residual", len(bad3) == 0,
                      "armodel|sim(residual(y))", case,
                      lambda: {"t": int(bad3[0]), "y": float(yin[bad3[0]]),
                               "got": float(y3[bad3[0]]), "tol": float(tol3[bad3[0]])})
    if stable and n >= 2 and np.any(phi != 0):
        ctx.nontrivial("ar", phi, e, mean, ini, explicit)


def run_reject(ctx, case):
    ar = A()
    ctx.evaluated()
    what = case["what"]
    e = np.asarray(case["e"], dtype=float)
    phi = np.asarray(case["phi"], dtype=float)
    kw = {"sim_mean": case.get("mean", 0.0)}
    if "ini" in case:
        kw["sim_ini"] = case["ini"]
    ctx.tag("reject:order" if what == "order" else "reject:nan-param")
    for nm, fn in (("armodel_sim", ar.armodel_sim), ("armodel_residual",
                                                     ar.armodel_residual)):
        # the caller catches the error and tries again (same arguments, then other
        # innovations): rejected every time
        for attempt, ee in enumerate((e, e, e[::-1].copy() if len(e) else e)):
            ctx.api(nm)
            try:
                r = call(fn, phi, ee.copy(), **kw)
                ctx.check("reject." + what, False, f"{nm}|accepts-invalid-{what}" +
                          ("" if attempt == 0 else "|on-repeated-call"), case,
                          lambda: {"returned": np.asarray(r)[:5], "attempt": attempt + 1})
            except ValueError:
                ctx.check("reject." + what, True)
            except Exception as ex:
                ctx.check("reject." + what, False, f"{nm}|wrong-exception-{what}", case,
                          {"exc": repr(ex)})


def run(ctx):
    rng = ctx.rng(1)
    nrep = 250 if ctx.tier == "quick" else 6000
    for it in range(nrep):
        if ctx.out_of_time():
            ctx.notes.append(f"stopped at {it}")
            break
        case = gen_case(rng, it + ctx.shard * 3, ctx.tier)
        run_case(ctx, case)
        if it % 40 == 0 and len(case["e"]) <= 8:
            ctx.sample(case)
        if it % 25 == 3:
            # slowly decaying (or not decaying) models across an outage of 1000 to 3000
            # steps
            ph_ = [[1.0], [0.6, 0.4], [0.995], [0.5, 0.3, 0.2], [1.2, -0.2], [0.9999]][
                (it // 25) % 6]
            l_ = [1001, 1500, 3000, 1000, 1024, 2049][(it // 25 + ctx.shard) % 6]
            n_ = l_ + int(rng.integers(40, 400))
            a_ = int(rng.integers(5, n_ - l_ - 5))
            mu_ = float(rng.normal() * 3)
            run_case(ctx, {"kind": "ar", "phi": ph_, "e": rng.normal(size=n_) * 0.1,
                           "mean": mu_, "ini": mu_ + float(rng.normal()) + 2.0,
                           "explicit": True, "nan_run": [a_, l_], "default_mean": False})
        e = rng.normal(size=int(rng.integers(0, 20)))
        if it % 2 == 0:
            run_reject(ctx, {"kind": "reject", "what": "order",
                             "phi": [] if it % 4 == 0 else (np.ones(11) * 0.05).tolist(),
                             "e": e})
            # ... also when the series has exactly as many steps as there are
            # coefficients (11, 12, 16 ...)
            od = [11, 12, 16, 20, 11][it // 2 % 5]
            run_reject(ctx, {"kind": "reject", "what": "order",
                             "phi": (np.ones(od) * 0.04).tolist(),
                             "e": rng.normal(size=od)})
        else:
            phi = (rng.normal(size=int(rng.integers(1, 11))) * 0.1)
            c = {"kind": "reject", "what": "nan-param", "phi": phi, "e": e}
            k = it % 3
            with np.errstate(all="ignore"):
                nan_ = [np.nan, -np.nan, float(np.log(-1.0)), float(np.inf - np.inf)][
                    (it // 3) % 4]
            if k == 0:
                phi[int(rng.integers(0, len(phi)))] = nan_
            elif k == 1:
                c["mean"] = float(nan_)
                if it % 2:
                    c["ini"] = float(rng.normal())     # explicit finite initial value
            else:
                c["ini"] = float(nan_)
                if it % 2:
                    c["mean"] = float(rng.normal())
            run_reject(ctx, c)


def replay(ctx, case):
    if case["kind"] == "ar":
        run_case(ctx, case)
    else:
        run_reject(ctx, case)
