"""C20 - sampling, ranking and summary helpers return what their names promise.

Monitors: exact-rational stratum oracle for lhs, ordering / symmetry post-conditions
for ppos and standard_normal, brute-force dominance definition for pareto_front,
independent percentile reference for the box-plot and violin summaries."""
import math
import warnings
from fractions import Fraction

import numpy as np

from hyverif.core import digest, same_result

ID = "C20"
SHARDS = {"quick": 8, "thorough": 16}
BUDGET = {"quick": 300, "thorough": 1800}
RULE = ("lhs: 1..500 samples x 1..6 parameters with arbitrary finite ranges (tiny, "
        "huge, offset); ppos: sizes 1..500 x cst in [0, 0.5]; standard_normal: "
        "NaN-free vectors with / without ties; pareto_front: 0..60 points x 1..5 "
        "dims with heavy ties and NaN coordinates, both orientations; box-plot and "
        "violin: columns of 0..500 values with NaN / +-inf anywhere, ties, constant "
        "columns, box coverage in [40, 100), whisker coverage above, grouping "
        "vectors with 2+ categories of unequal size. Non-trivial: >= 2 samples / "
        "points / finite values; distinct by digest of the inputs.")
ASSUMPTIONS = [
    "lhs stratum index computed in exact rationals; a point within 4 ulp of a "
    "stratum edge may count for either side; ranges whose strata are narrower than "
    "16 ulp are executed but not judged",
    "reference percentiles use linear interpolation between order statistics "
    "(the numpy / pandas default), compared to 1e-12 x magnitude",
    "a violin density profile is only required for columns with > 2 finite, "
    "non-constant values",
]
OBLIGATIONS = {"lhs": 50, "lhs:n=1": 3, "lhs:narrow-range": 5, "lhs:scalar-pmax": 5, "ppos": 50,
               "stdnorm:ties": 20, "stdnorm:noties": 20, "stdnorm:reject-nan": 10, "stdnorm:sorted-with-ties": 5,
               "pareto:complete": 30, "pareto:nan": 30, "pareto:ties": 30,
               "pareto:n<=1": 5, "box:nan-inf": 30, "box:lt4": 10, "box:constant": 5,
               "box:by": 20, "violin": 20, "violin:inf": 5, "violin:constant": 3,
               "violin:odd-size": 3, "lhs:bounds-reused": 50, "box:drawn": 10, "box:width_from_count": 10,
               "violin:long-column": 3,
               "ppos:caller-modifies-result": 30}


def S():
    from hydrodiy.stat import sutils
    return sutils


# ------------------------------------------------------------------- lhs ----
def lhs_strata_ok(col, lo, hi, n):
    """exact-rational stratum indices with edge leniency; perfect matching"""
    flo, fhi = Fraction(lo), Fraction(hi)
    w = (fhi - flo) / n
    u = max(math.ulp(abs(lo)), math.ulp(abs(hi)))
    if float(w) < 16 * u:
        return None, None
    cands = []
    for s in col:
        s = float(s)
        if not (math.isfinite(s)):
            return False, {"value": s}
        t = (Fraction(s) - flo) / w
        k = math.floor(t)
        c = {k}
        tolv = 4 * max(math.ulp(abs(s)), u)
        if float((t - k) * w) <= tolv:
            c.add(k - 1)
        if float((k + 1 - t) * w) <= tolv:
            c.add(k + 1)
        c = {x for x in c if 0 <= x < n}
        if not c:
            return False, {"value": s, "stratum": k, "n": n}
        cands.append(sorted(c))
    # bipartite matching points -> strata
    match = {}

    def aug(i, seen):
        for k in cands[i]:
            if k in seen:
                continue
            seen.add(k)
            if k not in match or aug(match[k], seen):
                match[k] = i
                return True
        return False

    import sys
    sys.setrecursionlimit(10000)
    order = sorted(range(len(cands)), key=lambda i: len(cands[i]))
    for i in order:
        if not aug(i, set()):
            return False, {"point": i, "value": float(col[i]), "candidates": cands[i]}
    return True, None


def run_lhs_case(ctx, case):
    su = S()
    n = int(case["n"])
    pmin = np.asarray(case["pmin"], dtype=float)
    pmax = np.asarray(case["pmax"], dtype=float)
    ctx.evaluated()
    ctx.tag("lhs")
    pmax_arg = pmax.copy()
    if case.get("scalar_pmax"):
        ctx.tag("lhs:scalar-pmax")
        pmax = np.repeat(pmax, len(pmin))
    if n == 1:
        ctx.tag("lhs:n=1")
    np.random.seed(int(case["npseed"]))
    ctx.api("lhs")
    smp = su.lhs(n, pmin.copy(), pmax_arg)
    ctx.check("lhs.shape", smp.shape == (n, len(pmin)), "lhs|shape", case,
              {"shape": list(smp.shape)})
    if smp.shape != (n, len(pmin)):
        return
    for j in range(len(pmin)):
        ok, wit = lhs_strata_ok(smp[:, j], float(pmin[j]), float(pmax[j]), n)
        if ok is None:
            ctx.tag("lhs:narrow-range")
            ctx.extra["lhs.columns-not-judged-narrow"] += 1
            continue
        ctx.check("lhs.one-per-stratum", ok, "lhs|strata", case,
                  lambda: {"param": j, "witness": wit, "range": [pmin[j], pmax[j]]})
    if n >= 2:
        ctx.nontrivial("lhs", n, pmin, pmax, case["npseed"])
    # the same bound arrays used for a second and a third sample: they are inputs
    ctx.tag("lhs:bounds-reused")
    a, b = np.ascontiguousarray(pmin.copy()), np.ascontiguousarray(pmax.copy())
    for k in range(3):
        ctx.api("lhs")
        s2 = su.lhs(n, a, b)
        okb = bool(np.array_equal(a, pmin)) and bool(np.array_equal(b, pmax))
        ctx.check("lhs.bounds-unaltered", okb, "lhs|alters-bounds", case,
                  lambda: {"call": k + 1, "pmin_now": a[:4], "pmin": pmin[:4]})
        if s2.shape != (n, len(pmin)):
            continue
        for j in range(len(pmin)):
            ok, wit = lhs_strata_ok(s2[:, j], float(pmin[j]), float(pmax[j]), n)
            if ok is None:
                continue
            ctx.check("lhs.one-per-stratum-on-reuse", ok, "lhs|strata|bounds-reused",
                      case, lambda: {"call": k + 1, "param": j, "witness": wit})


# --------------------------------------------------------- ppos / std normal ----
def run_ppos_case(ctx, case):
    su = S()
    n, cst = int(case["n"]), float(case["cst"])
    ctx.evaluated()
    ctx.tag("ppos")
    ctx.api("ppos")
    p = np.asarray(su.ppos(n, cst), dtype=float)
    ok = len(p) == n and bool(np.all(p > 0) and np.all(p < 1))
    ok &= bool(np.all(np.diff(p) > 0))
    ok &= bool(np.all(np.abs(p + p[::-1] - 1) <= 1e-12))
    ctx.check("ppos.props", ok, "ppos|increasing-symmetric-in-(0,1)", case,
              lambda: {"ppos": p[:5], "tail": p[-5:]})
    if n >= 2:
        ctx.nontrivial("ppos", n, cst)
    # the size as a caller holds it: a numpy integer of any width that takes it (the
    # length of a short record kept in a uint8, say), also at the maximum of the type
    for nn_, dt_ in ((n, np.int64), (n, np.int32), (min(n, 32767), np.int16),
                     (min(n, 127), np.int8), (min(n, 255), np.uint8), (127, np.int8),
                     (255, np.uint8), (32767, np.int16), (65535, np.uint16)):
        if (n + nn_) % 3 and nn_ == n:
            continue
        ctx.tag("ppos:size-as-numpy-integer")
        ctx.api("ppos", 2)
        try:
            with np.errstate(all="ignore"), warnings.catch_warnings():
                warnings.simplefilter("ignore")
                pa = np.asarray(su.ppos(dt_(nn_), cst), dtype=float)
            pb = np.asarray(su.ppos(int(nn_), cst), dtype=float)
            okn = pa.shape == pb.shape and bool(np.allclose(pa, pb, rtol=1e-14, atol=0))
        except Exception as e:
            pa, okn = repr(e)[:200], False
        ctx.check("ppos.numpy-integer-size", okn,
                  "ppos|result-depends-on-integer-type-of-the-size", case,
                  lambda: {"n": int(nn_), "dtype": np.dtype(dt_).name,
                           "first": pa[:3] if isinstance(pa, np.ndarray) else pa})
    # the caller turns its positions into percentages in place; a later call is not
    # affected
    r1 = su.ppos(n, cst)
    if isinstance(r1, np.ndarray) and r1.size and r1.flags.writeable:
        ctx.tag("ppos:caller-modifies-result")
        r1 *= 100.0
        r1[0] = -5.0
        ctx.api("ppos", 2)
        p2 = np.asarray(su.ppos(n, cst), dtype=float)
        ctx.check("ppos.unaffected-by-callers-edits", bool(np.array_equal(p2, p)),
                  "ppos|later-call-sees-callers-edits", case,
                  lambda: {"second": p2[:5], "first": p[:5]})


def run_stdnorm_case(ctx, case):
    su = S()
    x = np.asarray(case["x"], dtype=float)
    cst = float(case.get("cst", 0.0))
    ctx.evaluated()
    if np.isnan(x).any():
        ctx.tag("stdnorm:reject-nan")
        try:
            r = su.standard_normal(x.copy(), cst)
            ctx.check("stdnorm.reject-nan", False, "standard_normal|accepts-nan", case,
                      None)
        except ValueError:
            ctx.check("stdnorm.reject-nan", True)
        return
    ties = len(np.unique(x)) < len(x)
    ctx.tag("stdnorm:ties" if ties else "stdnorm:noties")
    if ties and len(x) >= 2 and bool(np.all(np.diff(x) >= 0)):
        ctx.tag("stdnorm:sorted-with-ties")
    ctx.api("standard_normal")
    u, ranks = su.standard_normal(x.copy(), cst)
    u = np.asarray(u, dtype=float)
    order = np.argsort(x, kind="mergesort")
    xs, us = x[order], u[order]
    dx = np.diff(xs)
    du = np.diff(us)
    ok = bool(np.all(np.isfinite(u))) and len(u) == len(x)
    ok &= bool(np.all(du[dx > 0] > 0)) and bool(np.all(du[dx == 0] == 0))
    ctx.check("stdnorm.monotone-in-ranks", ok, "standard_normal|monotone", case,
              lambda: {"x": xs[:10], "u": us[:10]})
    if len(x) >= 2:
        ctx.nontrivial("sn", x, cst)
    ctx.presentations("standard_normal", lambda x_: su.standard_normal(x_, cst), [x],
                      (u, np.asarray(ranks)), case,
                      np.random.default_rng(digest(x) % 2 ** 32), n=1)
    # the same ordering carried by 64-bit integers that doubles cannot tell apart
    # (counters, identifiers, nanosecond stamps): distinct integers, distinct scores
    if 2 <= len(x) <= 200:
        rk = np.argsort(np.argsort(x, kind="mergesort"), kind="mergesort")
        dense = np.searchsorted(np.unique(x), x)          # ties stay ties
        for base_, dt_ in ((2 ** 60, np.int64), (2 ** 63 + 2 ** 40, np.uint64),
                           (-2 ** 62, np.int64)):
            xi = (np.array([base_] * len(x), dtype=object) + dense.astype(object)) \
                .astype(dt_)
            ctx.tag("stdnorm:integers-beyond-2^53")
            ctx.api("standard_normal")
            try:
                ui, _ = su.standard_normal(xi, cst)
                ui = np.asarray(ui, dtype=float)
                ctx.check("stdnorm.big-integers", same_result(ui, u, 1e-12, 1e-12),
                          "standard_normal|scores-differ-for-64-bit-integers", case,
                          lambda: {"dtype": np.dtype(dt_).name, "first": ui[:5].tolist(),
                                   "expected": u[:5].tolist()})
            except Exception as e:
                ctx.extra["stdnorm-big-integers-refused"] += 1


# ------------------------------------------------------------- pareto front ----
def pareto_ref(data, orientation):
    n = len(data)
    out = np.zeros(n, dtype=int)
    for i in range(n):
        for j in range(n):
            if i == j:
                continue
            d = orientation * (data[j] - data[i])
            m = ~np.isnan(d)
            if np.all(d[m] > 0):
                out[i] = 1
                break
    return out


def run_pareto_case(ctx, case):
    su = S()
    data = np.asarray(case["data"], dtype=float)
    if data.ndim == 1:
        data = data.reshape((0, int(case.get("ncol", 1))))
    ctx.evaluated()
    n = data.shape[0]
    hasnan = bool(np.isnan(data).any())
    ctx.tag("pareto:nan" if hasnan else "pareto:complete")
    if n <= 1:
        ctx.tag("pareto:n<=1")
    if n > 1 and len(np.unique(data[~np.isnan(data)])) < data.size - np.isnan(data).sum():
        ctx.tag("pareto:ties")
    for ori in (1, -1):
        ctx.api("pareto_front")
        got = np.asarray(su.pareto_front(data.copy(), ori))
        ref = pareto_ref(data, ori)
        ctx.check("pareto.definition", got.shape == ref.shape and
                  bool(np.array_equal(got.astype(int), ref)),
                  "pareto_front|definition", case,
                  lambda: {"orientation": ori, "got": got.tolist(),
                           "ref": ref.tolist()})
        if not hasnan and n >= 1:
            ctx.check("pareto.front-nonempty", int((got == 0).sum()) >= 1,
                      "pareto_front|empty-front", case, {"orientation": ori})
        if data.size:
            ctx.presentations("pareto_front",
                              lambda d_: np.asarray(su.pareto_front(d_, ori)), [data],
                              got, case,
                              np.random.default_rng(digest(data, ori) % 2 ** 32), n=1)
        if data.size and not hasnan:
            # the same points as whole numbers in a narrow integer type (scores read
            # from an image, counts): zeros and the ends of the type included
            di = np.round(data * 2)
            di = di - di.min()
            if di.max() <= 255:
                dt_ = [np.uint8, np.uint16, np.int16, np.uint32][n % 4]
                ctx.tag("pareto:unsigned-or-narrow-integers")
                ctx.api("pareto_front")
                try:
                    gi = np.asarray(su.pareto_front(di.astype(dt_), ori))
                    ri = pareto_ref(di, ori)
                    ctx.check("pareto.integer-data", bool(np.array_equal(gi.astype(int), ri)),
                              "pareto_front|definition|integer-typed-data", case,
                              lambda: {"orientation": ori, "dtype": np.dtype(dt_).name,
                                       "got": gi.tolist(), "ref": ri.tolist()})
                except Exception as e:
                    ctx.extra["pareto-integer-refused"] += 1
        neg = np.asarray(su.pareto_front(-data, -ori))
        ctx.check("pareto.orientation-is-negation", bool(np.array_equal(neg, got)),
                  "pareto_front|orientation", case,
                  lambda: {"got": got.tolist(), "negated": neg.tolist()})
    if n >= 2:
        ctx.nontrivial("pf", data)


# -------------------------------------------------------- box plot / violin ----
def pct_ref(v, q):
    """percentile (q in [0, 100]) with linear interpolation of order statistics"""
    s = np.sort(np.asarray(v, dtype=float))
    n = len(s)
    h = Fraction(n - 1) * Fraction(q) / 100
    lo = math.floor(h)
    hi = min(lo + 1, n - 1)
    frac = float(h - lo)
    return float(s[lo] + (s[hi] - s[lo]) * frac)


def box_ref(col, bc, wc):
    col = np.asarray(col, dtype=float)
    fin = col[np.isfinite(col)]
    b1, b2 = (100 - bc) / 2.0, 100 - (100 - bc) / 2.0
    w1, w2 = (100 - wc) / 2.0, 100 - (100 - wc) / 2.0
    qq = [w1, b1, 50, b2, w2]
    names = ["{0:0.1f}%".format(q) for q in qq]
    out = {"count": float(len(fin))}
    if len(fin) > 3:
        for nm, q in zip(names, qq):
            out[nm] = pct_ref(fin, q)
        out["mean"] = math.fsum(fin) / len(fin)
        out["max"] = float(fin.max())
        out["min"] = float(fin.min())
    else:
        for nm in names + ["mean", "max", "min"]:
            out[nm] = float("nan")
    return out, names


def cmp_stats(got, ref, mag):
    bad = []
    for k, r in ref.items():
        if k not in got:
            # a statistic that is NaN for every group is dropped from the pivoted
            # table; absent is accepted where NaN is expected
            if not math.isnan(r):
                bad.append((k, "missing", r))
            continue
        g = float(got[k])
        if math.isnan(r):
            if not math.isnan(g):
                bad.append((k, g, r))
        elif not (abs(g - r) <= 1e-12 * max(mag, abs(r))):
            bad.append((k, g, r))
    return bad


def gen_column(rng, n, kind):
    if kind == 0:
        v = rng.normal(size=n) * 10.0 ** rng.integers(-2, 4)
    elif kind == 1:
        v = rng.integers(-5, 6, size=n).astype(float)         # ties
    elif kind == 2:
        v = np.full(n, float(rng.integers(-3, 4)))            # constant
    elif kind == 3:
        v = np.exp(rng.normal(size=n) * 2)
    else:
        v = rng.uniform(-1, 1, size=n)
    return v.astype(float)


def spoil(rng, v, mode):
    v = v.copy()
    n = len(v)
    if n == 0:
        return v
    if mode == 1:
        v[rng.random(n) < 0.2] = np.nan
    elif mode == 2:
        m = rng.random(n) < 0.15
        v[m] = rng.choice([np.inf, -np.inf], size=int(m.sum()))
    elif mode == 3:
        m = rng.random(n) < 0.3
        v[m] = rng.choice([np.nan, np.inf, -np.inf], size=int(m.sum()))
    elif mode == 4:
        v[:] = np.nan
        k = min(n, int(rng.integers(0, 4)))
        v[:k] = rng.normal(size=k)
    return v


def run_box_case(ctx, case):
    import pandas as pd
    from hydrodiy.plot import boxplot
    cols = [np.asarray(c, dtype=float) for c in case["cols"]]
    bc, wc = float(case["box"]), float(case["whisk"])
    ctx.evaluated()
    df = pd.DataFrame({f"c{i}": c for i, c in enumerate(cols)})
    for i, c in enumerate(cols):
        fin = c[np.isfinite(c)]
        if len(fin) < len(c):
            ctx.tag("box:nan-inf")
        if len(fin) <= 3:
            ctx.tag("box:lt4")
        elif fin.min() == fin.max():
            ctx.tag("box:constant")
        ref, names = box_ref(c, bc, wc)
        ctx.api("boxplot_stats")
        with warnings.catch_warnings():
            warnings.simplefilter("ignore")
            got = boxplot.boxplot_stats(c.copy(), bc, wc)
        mag = float(np.max(np.abs(fin))) if len(fin) else 1.0
        bad = cmp_stats(got, ref, mag)
        ctx.check("box.stats", not bad, "boxplot_stats|values", case,
                  lambda: {"col": i, "bad(name,got,ref)": bad[:4]})
        if len(fin) > 3:
            seq = [float(got["min"])] + [float(got[nm]) for nm in names] + \
                [float(got["max"])]
            ctx.check("box.ordered", all(a <= b for a, b in zip(seq, seq[1:])),
                      "boxplot_stats|order", case, lambda: {"sequence": seq})
        if len(fin) >= 2:
            ctx.evaluated()
            ctx.nontrivial("box", c, bc, wc)

        def bstats(c_):
            with warnings.catch_warnings():
                warnings.simplefilter("ignore")
                return np.asarray(boxplot.boxplot_stats(c_, bc, wc).values, dtype=float)
        ctx.presentations("boxplot_stats", bstats, [c], bstats(c.copy()), case,
                          np.random.default_rng(digest(c, bc) % 2 ** 32), n=1,
                          rtol=1e-12, atol=1e-12 * mag)
    # Boxplot object: per-column stats
    ctx.api("Boxplot")
    with warnings.catch_warnings():
        warnings.simplefilter("ignore")
        try:
            # (width_from_count only changes how wide the boxes are drawn)
            wfc = bool(ctx.evaluations % 3 == 0)
            if wfc:
                ctx.tag("box:width_from_count")
            bp = boxplot.Boxplot(df, box_coverage=bc, whiskers_coverage=wc,
                                 width_from_count=wfc)
            st = bp.stats
        except Exception as e:
            ctx.check("Boxplot.runs", False, "Boxplot|raises", case, {"exc": repr(e)})
            st = None
    if st is not None:
        for i, c in enumerate(cols):
            ref, _ = box_ref(c, bc, wc)
            fin = c[np.isfinite(c)]
            mag = float(np.max(np.abs(fin))) if len(fin) else 1.0
            bad = cmp_stats(st[f"c{i}"], ref, mag)
            ctx.check("Boxplot.stats", not bad, "Boxplot|stats", case,
                      lambda: {"col": i, "bad": bad[:4]})
        if len(cols) >= 2:
            # a frame with a repeated column label (two series of the same name put side
            # by side): one summary per *column*, in the order of the columns
            lab = ["flow"] * 2 + [f"c{i}" for i in range(2, len(cols))]
            dfd = pd.DataFrame(np.column_stack(cols), columns=lab)
            ctx.tag("box:repeated-column-label")
            ctx.api("Boxplot")
            try:
                with warnings.catch_warnings():
                    warnings.simplefilter("ignore")
                    std = boxplot.Boxplot(dfd, box_coverage=bc, whiskers_coverage=wc).stats
                okd = std.shape[1] == len(cols) and list(std.columns) == lab
                for i, c in enumerate(cols):
                    if not okd:
                        break
                    ref, _ = box_ref(c, bc, wc)
                    fin = c[np.isfinite(c)]
                    mag = float(np.max(np.abs(fin))) if len(fin) else 1.0
                    okd = not cmp_stats(std.iloc[:, i], ref, mag)
                ctx.check("Boxplot.repeated-labels", bool(okd),
                          "Boxplot|stats|repeated-column-label", case,
                          lambda: {"columns_in": lab, "columns_out": list(std.columns)})
            except Exception as e:
                ctx.extra["Boxplot-repeated-labels-refused"] += 1
        if ctx.evaluations % 5 == 0:
            # drawing the plot (linear and log axis) is a read-only use of the table
            import matplotlib
            matplotlib.use("Agg")
            import matplotlib.pyplot as plt
            before = st.copy()
            for kwd in ({}, {"logscale": True}):
                fig, ax = plt.subplots()
                try:
                    with warnings.catch_warnings():
                        warnings.simplefilter("ignore")
                        bp.draw(ax=ax, **kwd)
                except Exception:
                    ctx.extra["Boxplot.draw-raised"] += 1
                finally:
                    plt.close(fig)
                ctx.tag("box:drawn")
                ctx.api("Boxplot.draw")
                now = bp.stats
                same = now.shape == before.shape and bool(np.all(
                    (now.values == before.values) |
                    (np.isnan(now.values.astype(float)) &
                     np.isnan(before.values.astype(float)))))
                ctx.check("Boxplot.stats-after-draw", same, "Boxplot|stats-changed-by-draw",
                          case, lambda: {"options": kwd})


def run_boxby_case(ctx, case):
    import pandas as pd
    from hydrodiy.plot import boxplot
    v = np.asarray(case["values"], dtype=float)
    by = list(case["by"])
    bc, wc = float(case["box"]), float(case["whisk"])
    ctx.evaluated()
    ctx.tag("box:by")
    ctx.api("Boxplot(by)")
    with warnings.catch_warnings():
        warnings.simplefilter("ignore")
        try:
            # both series are columns of one data frame: same index, which is the
            # default one only when the frame was never filtered, sorted or thinned
            idx = None
            ik = case.get("index", "default")
            n_ = len(v)
            if ik == "permuted":
                idx = np.random.default_rng(n_).permutation(n_)
            elif ik == "gapped":
                idx = np.arange(n_) * 2 + 1
            elif ik == "shifted":
                idx = np.arange(n_) + n_ // 2
            elif ik == "dates":
                idx = pd.date_range("2001-01-01", periods=n_, freq="D")
            elif ik == "labels":
                idx = [f"row{k}" for k in range(n_)]
            elif ik == "repeated":
                # two records concatenated without renumbering: every label twice,
                # the two halves in different categories more often than not
                idx = np.concatenate([np.arange(n_ - n_ // 2), np.arange(n_ // 2)])
            elif ik == "repeated-dates":
                idx = pd.date_range("2001-01-01", periods=n_, freq="D")[
                    np.arange(n_) // 3]
            if idx is not None:
                ctx.tag("box:by-shared-non-default-index")
            by_se = pd.Series(by, index=idx)
            if case.get("categorical"):
                # the categories as an ordered factor whose order is not the alphabetical
                # one (low < medium < high; seasons; months)
                order_ = list(dict.fromkeys(by))[::-1] if case["categorical"] == "reversed" \
                    else sorted(set(by), key=lambda c_: (len(str(c_)), str(c_)[::-1]))
                by_se = pd.Series(pd.Categorical(by, categories=order_,
                                                 ordered=bool(len(v) % 2)), index=idx)
                ctx.tag("box:by-categorical-with-its-own-order")
            # the series carry names (columns of a frame; a grouping vector computed
            # from the data series inherits its name)
            nk = (len(v) + len(set(by))) % 5
            dname, bname = [(None, None), ("flow", "flow"), ("flow", "season"),
                            (None, "value"), ("q", 0)][nk]
            if nk:
                ctx.tag("box:by-named-series")
            if nk == 1:
                ctx.tag("box:by-named-like-the-data")
            by_se.name = bname
            bp = boxplot.Boxplot(pd.Series(v, index=idx, name=dname), by=by_se,
                                 box_coverage=bc, whiskers_coverage=wc)
            st = bp.stats
        except Exception as e:
            ctx.check("Boxplot.by.runs", False, "Boxplot(by)|raises", case,
                      {"exc": repr(e)})
            return
    cats = sorted(set(by), key=str)
    ctx.check("Boxplot.by.columns", sorted(map(str, st.columns)) ==
              sorted(map(str, cats)), "Boxplot(by)|groups", case,
              lambda: {"columns": list(map(str, st.columns)), "cats": cats})
    bya = np.array(by, dtype=object)
    for cat in cats:
        if cat not in st.columns:
            continue
        g = v[bya == cat]
        ref, _ = box_ref(g, bc, wc)
        fin = g[np.isfinite(g)]
        mag = float(np.max(np.abs(fin))) if len(fin) else 1.0
        bad = cmp_stats(st[cat], ref, mag)
        ctx.check("Boxplot.by.stats", not bad, "Boxplot(by)|group-stats", case,
                  lambda: {"group": cat, "bad": bad[:4]})
    ctx.nontrivial("boxby", v, repr(by), bc, wc)


def run_violin_case(ctx, case):
    import pandas as pd
    from hydrodiy.plot import violinplot
    cols = [np.asarray(c, dtype=float) for c in case["cols"]]
    ctx.evaluated()
    ctx.tag("violin")
    n = len(cols[0])
    if 100 < n < 500 and n % 2 == 1:
        ctx.tag("violin:odd-size")
    if n > 500:
        ctx.tag("violin:long-column")
    df = pd.DataFrame({f"c{i}": c for i, c in enumerate(cols)})
    np.random.seed(int(case.get("npseed", 1)))
    ctx.api("Violin")
    with warnings.catch_warnings():
        warnings.simplefilter("ignore")
        try:
            # (the documented re-sampling size only concerns the density estimate)
            vkw = {} if n % 3 else {"nresample_kde": [80, 500, 2000][n % 9 // 3]}
            vl = violinplot.Violin(df, **vkw)
            st = vl.stats
            kx, ky = vl.kde_x, vl.kde_y
        except Exception as e:
            ctx.check("violin.runs", False, "Violin|raises", case,
                      lambda: {"exc": repr(e)[:300], "n": n,
                               "finite_per_col": [int(np.isfinite(c).sum())
                                                  for c in cols],
                               "constant": [bool(np.isfinite(c).any() and
                                                 np.nanmin(c[np.isfinite(c)]) ==
                                                 np.nanmax(c[np.isfinite(c)]))
                                            for c in cols]})
            return
    levels = {"Q0": 0, "Q25": 25, "median": 50, "Q75": 75, "Q100": 100}
    for i, c in enumerate(cols):
        fin = c[np.isfinite(c)]
        if len(fin) < len(c) and np.isinf(c).any():
            ctx.tag("violin:inf")
        const = len(fin) > 0 and fin.min() == fin.max()
        if const and len(fin) > 2:
            ctx.tag("violin:constant")
        if len(fin) > 2 and not const and \
                fin.max() - fin.min() <= 1e-9 * float(np.max(np.abs(fin))):
            ctx.tag("violin:offset-dominated-column")
        if len(fin) == 0:
            continue
        mag = float(np.max(np.abs(fin)))
        bad = []
        for nm, q in levels.items():
            g = float(st.loc[nm, f"c{i}"])
            r = pct_ref(fin, q)
            if not abs(g - r) <= 1e-12 * max(mag, 1e-300):
                bad.append((nm, g, r))
        ctx.check("violin.stats", not bad, "Violin|stats", case,
                  lambda: {"col": i, "bad(name,got,ref)": bad,
                           "has_inf": bool(np.isinf(c).any())})
        if len(fin) > 2 and not const:
            y = ky[f"c{i}"].values.astype(float)
            x = kx[f"c{i}"].values.astype(float)
            oky = bool(np.all(np.isfinite(y))) and abs(y.min()) <= 1e-12 and \
                abs(y.max() - 1) <= 1e-12 and bool(np.all((y >= 0) & (y <= 1)))
            okx = bool(np.all(np.isfinite(x))) and bool(np.all(np.diff(x) >= 0)) and \
                x.min() >= fin.min() - 2e-6 - 4 * np.spacing(mag) and \
                x.max() <= fin.max() + 2e-6 + 4 * np.spacing(mag)
            ctx.check("violin.density", oky and okx, "Violin|density-profile", case,
                      lambda: {"col": i, "ymin": float(np.nanmin(y)),
                               "ymax": float(np.nanmax(y))})
        if len(fin) >= 2:
            ctx.evaluated()
            ctx.nontrivial("violin", c)
    # drawing - whole range, then zoomed on a window tighter than the data - is a
    # read-only use of the object: statistics and density profiles stay what they were
    if n >= 5 and n % 2:
        import matplotlib
        matplotlib.use("Agg")
        import matplotlib.pyplot as plt
        kx0, ky0, st0 = kx.copy(), ky.copy(), st.copy()
        allfin = np.concatenate([c[np.isfinite(c)] for c in cols]) if cols else np.array([])
        if len(allfin) >= 2 and allfin.min() < allfin.max():
            lo_, hi_ = np.quantile(allfin, [0.3, 0.6])
            for kwd in ({}, {"ylim": (float(lo_), float(hi_))}, {}):
                fig, ax = plt.subplots()
                try:
                    with warnings.catch_warnings():
                        warnings.simplefilter("ignore")
                        vl.draw(ax=ax, **kwd)
                except Exception:
                    ctx.extra["Violin.draw-raised"] += 1
                finally:
                    plt.close(fig)
            ctx.tag("violin:drawn-zoomed")
            ctx.api("Violin.draw", 3)

            def eqf(a_, b_):
                a_, b_ = np.asarray(a_.values, float), np.asarray(b_.values, float)
                return a_.shape == b_.shape and bool(np.all((a_ == b_) |
                                                            (np.isnan(a_) & np.isnan(b_))))
            ctx.check("violin.unchanged-by-draw", eqf(vl.kde_x, kx0) and
                      eqf(vl.kde_y, ky0) and eqf(vl.stats, st0),
                      "Violin|changed-by-draw", case,
                      lambda: {"kde_y_nan_before": int(np.isnan(ky0.values).sum()),
                               "kde_y_nan_after": int(np.isnan(np.asarray(
                                   vl.kde_y.values, float)).sum())})


# ------------------------------------------------------------------ driver ----
def run(ctx):
    rng = ctx.rng(1)
    nrep = 60 if ctx.tier == "quick" else 2500
    for it0 in range(nrep):
        it = it0 + ctx.shard * 5
        if ctx.out_of_time():
            ctx.notes.append(f"stopped at {it0}")
            break
        # lhs
        n = [1, 2, 3][it % 3] if it % 10 == 0 else int(rng.integers(1, 501))
        npar = int(rng.integers(1, 7))
        pmin, pmax = [], []
        for _ in range(npar):
            k = int(rng.integers(0, 6))
            if k == 0:
                lo, hi = 0.0, 1.0
            elif k == 1:
                lo = float(rng.normal() * 10.0 ** rng.integers(-3, 9))
                hi = lo + float(abs(rng.normal()) + 0.01) * 10.0 ** rng.integers(-6, 6)
            elif k == 2:
                lo = -float(10.0 ** rng.integers(0, 12))
                hi = float(10.0 ** rng.integers(0, 12))
            elif k == 3:
                lo = float(rng.uniform(1e6, 1e7))
                hi = lo + float(rng.uniform(1e-7, 1e-5))       # narrow, offset
            elif k == 4:
                lo, hi = float(rng.integers(-10, 0)), float(rng.integers(1, 10))
            else:
                lo = float(rng.normal())
                hi = lo + float(10.0 ** rng.uniform(-9, 3))
            if not hi > lo:
                hi = lo + 1.0
            pmin.append(lo)
            pmax.append(hi)
        run_lhs_case(ctx, {"kind": "lhs", "n": n, "pmin": pmin, "pmax": pmax,
                           "npseed": int(rng.integers(0, 2 ** 31))})
        if it % 4 == 0:
            # one upper bound for all parameters (documented broadcast)
            top = float(max(pmax)) + 1.0
            run_lhs_case(ctx, {"kind": "lhs", "n": n, "pmin": pmin, "pmax": [top],
                               "scalar_pmax": True,
                               "npseed": int(rng.integers(0, 2 ** 31))})
        # ppos
        run_ppos_case(ctx, {"kind": "ppos", "n": int(rng.integers(1, 501)),
                            "cst": [0.0, 0.5, 0.3, float(rng.uniform(0, 0.5))][it % 4]})
        # standard normal
        m = int(rng.integers(1, 300))
        x = gen_column(rng, m, it % 5)
        if it % 5 == 2:
            x = rng.permutation(np.arange(m)).astype(float)
        if it % 7 == 3:
            x = np.sort(np.round(x))             # already sorted, with ties
        elif it % 7 == 4:
            x = np.full(m, float(rng.integers(-3, 4)))   # constant
        elif it % 7 == 5:
            x = np.sort(np.round(x))[::-1].copy()        # descending with ties
        if it % 6 == 5:
            x[int(rng.integers(0, m))] = np.nan
        run_stdnorm_case(ctx, {"kind": "stdnorm", "x": x,
                               "cst": [0.0, 0.3, 0.5][it % 3]})
        # pareto
        for rep in range(3):
            npt = [0, 1, 2][rep] if it % 8 == 0 else int(rng.integers(0, 61))
            if it % 8 == 3 and rep == 0:
                npt = [63, 64, 65, 127, 128, 129, 255, 256, 257, 100, 300][(it // 8) % 11]
            nd = int(rng.integers(1, 6))
            kk = (it + rep) % 3
            if kk == 0:
                data = rng.integers(0, 4, size=(npt, nd)).astype(float)
            elif kk == 1:
                data = rng.normal(size=(npt, nd))
            else:
                data = rng.integers(-2, 3, size=(npt, nd)) / 2.0
            if (it + rep) % 2 == 0 and npt:
                data[rng.random((npt, nd)) < 0.2] = np.nan
            case = {"kind": "pareto", "data": data, "ncol": nd}
            run_pareto_case(ctx, case)
            if it0 % 30 == 0 and rep == 0 and data.size <= 24:
                ctx.sample(case)
        # box plot
        ncol = int(rng.integers(1, 4))
        nrow = [0, 1, 3, 4, 5][it % 5] if it % 4 == 0 else int(rng.integers(4, 400))
        cols = [spoil(rng, gen_column(rng, nrow, int(rng.integers(0, 5))),
                      int(rng.integers(0, 5))) for _ in range(ncol)]
        bc = float(rng.choice([40, 50, 60, 75, 90, float(rng.uniform(40, 99))]))
        wc = float(min(99.9, bc + rng.uniform(0.5, 100 - bc))) if bc < 99 else 99.9
        if it % 6 == 1:
            wc = 100.0
        if nrow > 0:
            run_box_case(ctx, {"kind": "box", "cols": cols, "box": bc, "whisk": wc})
        # grouped
        nrow2 = int(rng.integers(6, 200))
        ncat = int(rng.integers(2, 6))
        labels = [["a", "b", "c", "d", "e"], [1, 2, 3, 4, 5],
                  ["low", "medium", "high", "extreme", "none"],
                  ["winter", "spring", "summer", "autumn", "all"]][it % 4][:ncat]
        p = rng.dirichlet(np.ones(ncat))
        by = [labels[i] for i in rng.choice(ncat, size=nrow2, p=p)]
        if len(set(by)) >= 2:
            v = spoil(rng, gen_column(rng, nrow2, int(rng.integers(0, 5))),
                      int(rng.integers(0, 4)))
            run_boxby_case(ctx, {"kind": "boxby", "values": v, "by": by, "box": bc,
                                 "whisk": wc,
                                 "index": ["default", "permuted", "gapped", "shifted",
                                           "dates", "labels", "repeated",
                                           "repeated-dates"][it0 % 8],
                                 "categorical": [None, "reversed", None, "own"][it0 % 4]
                                 if it % 4 >= 2 else None})
        # violin
        if it0 % 3 == 0:
            nv = [5, 101, 151, 30, 499, 120, 3, 250, 500, 501, 640, 1000, 1025,
                  2500][(it // 3) % 14] \
                if it % 2 == 0 else int(rng.integers(1, 400))
            ncv = int(rng.integers(1, 4))
            vc = [spoil(rng, gen_column(rng, nv, int(rng.integers(0, 5))),
                        int(rng.integers(0, 4))) for _ in range(ncv)]
            if it0 % 2 == 1 and nv >= 3:
                # a column dominated by an offset: times within one second of an epoch,
                # levels above a datum ... (range 1e-9 .. 1e-11 of the magnitude)
                off, spread = [(1.7e9, 1.0), (1.0, 1e-10), (1e6, 1e-4), (-4.2e5, 1e-5),
                               (3e12, 100.0)][int(rng.integers(0, 5))]
                vc[0] = off + spread * rng.uniform(0, 1, size=nv)
            elif it0 % 4 == 2 and nv >= 3:
                # a column in very large or very small units (volumes in litres, storages
                # in cubic kilometres): the raw density is 1e-10 .. 1e-16 or 1e+12
                un_ = [1e10, 3e12, 1e16, 1e-12, 1e25, 1e-30][int(rng.integers(0, 6))]
                vc[-1] = un_ * rng.normal(size=nv) + un_
                ctx.tag("violin:column-in-extreme-units")
            run_violin_case(ctx, {"kind": "violin", "cols": vc,
                                  "npseed": int(rng.integers(0, 2 ** 31))})


def replay(ctx, case):
    {"lhs": run_lhs_case, "ppos": run_ppos_case, "stdnorm": run_stdnorm_case,
     "pareto": run_pareto_case, "box": run_box_case, "boxby": run_boxby_case,
     "violin": run_violin_case}[case["kind"]](ctx, case)
