"""Worker-side context: counters, predicate evaluation, violations, digests."""
import hashlib
import json
import math
import os
import time
from collections import Counter

import numpy as np


def jsonable(o, depth=0):
    """Best-effort conversion of a case / detail to something json.dump accepts.
    Floats keep full precision (repr round-trip); NaN/inf are kept as floats
    (python's json writes NaN / Infinity and reads them back)."""
    if isinstance(o, (str, bool, type(None), int)):
        return o
    if isinstance(o, float):
        return o
    if isinstance(o, (np.bool_,)):
        return bool(o)
    if isinstance(o, np.integer):
        return int(o)
    if isinstance(o, np.floating):
        return float(o)
    if isinstance(o, np.ndarray):
        if o.dtype.kind in "fc":
            return [jsonable(v, depth + 1) for v in o.tolist()]
        return o.tolist()
    if isinstance(o, dict):
        return {str(k): jsonable(v, depth + 1) for k, v in o.items()}
    if isinstance(o, (list, tuple, set, frozenset)):
        return [jsonable(v, depth + 1) for v in o]
    try:
        import pandas as pd
        if isinstance(o, pd.Series):
            return {"index": [str(i) for i in o.index], "values": jsonable(o.values)}
        if isinstance(o, pd.DataFrame):
            return {"columns": [str(c) for c in o.columns],
                    "values": jsonable(o.values)}
    except Exception:
        pass
    return repr(o)


def truncate(o, maxlen=12):
    """shorten long lists so that a sample stays readable"""
    if isinstance(o, list):
        out = [truncate(v, maxlen) for v in o[:maxlen]]
        if len(o) > maxlen:
            out.append(f"... ({len(o)} items)")
        return out
    if isinstance(o, dict):
        return {k: truncate(v, maxlen) for k, v in o.items()}
    return o


def digest(*objs):
    h = hashlib.blake2b(digest_size=8)
    for o in objs:
        if isinstance(o, np.ndarray):
            h.update(str(o.dtype).encode())
            h.update(str(o.shape).encode())
            h.update(np.ascontiguousarray(o).tobytes())
        elif isinstance(o, bytes):
            h.update(o)
        else:
            h.update(repr(o).encode())
        h.update(b"|")
    return int.from_bytes(h.digest(), "little") >> 1


class Ctx:
    MAX_DIGESTS = 400000
    MAX_PER_KEY = 3

    def __init__(self, prop, tier, seed, shard, nshards, replaying=False):
        self.prop = prop
        self.tier = tier
        self.seed = int(seed)
        self.shard = shard
        self.nshards = nshards
        self.replaying = replaying
        self.evaluations = 0
        self.predicates = Counter()
        self.classes = Counter()
        self.apis = Counter()
        self.extra = Counter()
        self.digests = set()
        self.digests_capped = False
        self.samples = []
        self.violations = {}     # key -> {count, first:[...]}
        self.notes = []
        self.t0 = time.time()
        self.deadline = None
        self.info = {}

    # ---- randomness -----------------------------------------------------------
    def rng(self, *stream):
        pn = int(self.prop[1:])
        ss = [self.seed & 0xFFFFFFFF, pn, self.shard] + [int(s) & 0xFFFFFFFF
                                                         for s in stream]
        return np.random.default_rng(ss)

    def seed_global(self, *stream):
        s = digest(self.seed, self.prop, self.shard, *stream) & 0x7FFFFFFF
        np.random.seed(s)
        return s

    # ---- bookkeeping ----------------------------------------------------------
    def evaluated(self, n=1):
        self.evaluations += n

    def tag(self, cls, n=1):
        self.classes[cls] += n

    def api(self, name, n=1):
        self.apis[name] += n

    def nontrivial(self, *objs):
        if len(self.digests) >= self.MAX_DIGESTS:
            self.digests_capped = True
            return
        self.digests.add(digest(*objs))

    def sample(self, obj, cap=4, maxlen=12):
        if len(self.samples) < cap:
            self.samples.append(truncate(jsonable(obj), maxlen))

    def risky(self, case):
        """synchronously record the case about to be executed (used before calls
        that a defect could turn into an endless loop, so that the driver can
        name the case when the watchdog fires)"""
        fd = getattr(self, "_hbfd", None)
        if fd is None:
            path = getattr(self, "hb_path", None)
            if not path:
                return
            fd = self._hbfd = os.open(path, os.O_WRONLY | os.O_CREAT, 0o644)
        rec = json.dumps({"t": time.time(), "case": jsonable(case)})[:3900]
        os.pwrite(fd, rec.encode().ljust(4000), 0)

    def out_of_time(self):
        return self.deadline is not None and time.time() > self.deadline

    # ---- predicates -----------------------------------------------------------
    def check(self, pred, ok, key=None, case=None, detail=None):
        """Record one evaluation of predicate `pred`; on failure record a violation
        under the mechanism key `key` (defaults to pred)."""
        self.predicates[pred] += 1
        if ok:
            return True
        self.violate(key or pred, pred, case, detail)
        return False

    def count(self, pred, n):
        self.predicates[pred] += n

    def violate(self, key, pred, case=None, detail=None):
        v = self.violations.setdefault(key, {"count": 0, "first": []})
        v["count"] += 1
        if len(v["first"]) < self.MAX_PER_KEY:
            if callable(case):
                case = case()
            if callable(detail):
                detail = detail()
            v["first"].append({"pred": pred, "case": jsonable(case),
                               "detail": jsonable(detail)})

    def result(self):
        return {
            "prop": self.prop, "shard": self.shard,
            "evaluations": self.evaluations,
            "predicates": dict(self.predicates),
            "classes": dict(self.classes),
            "apis": dict(self.apis),
            "extra": dict(self.extra),
            "samples": self.samples,
            "violations": self.violations,
            "digests_capped": self.digests_capped,
            "notes": self.notes,
            "info": self.info,
            "wall_s": time.time() - self.t0,
        }


def ulp(x):
    x = abs(float(x))
    if not math.isfinite(x):
        return float("inf")
    return math.ulp(x)


def close(a, b, rel=1e-9, abs_=0.0):
    """NaN-aware closeness for scalars."""
    a = float(a)
    b = float(b)
    if math.isnan(a) or math.isnan(b):
        return math.isnan(a) and math.isnan(b)
    if math.isinf(a) or math.isinf(b):
        return a == b
    return abs(a - b) <= max(abs_, rel * max(abs(a), abs(b)))
