"""Worker-side context: counters, predicate evaluation, violations, digests."""
import contextlib
import hashlib
import json
import math
import os
import sys
import time
from collections import Counter

import numpy as np


def jsonable(o, depth=0):
    """Best-effort conversion of a case / detail to something json.dump accepts.
    Floats keep full precision (repr round-trip); NaN/inf are kept as floats
    (python's json writes NaN / Infinity and reads them back)."""
    if isinstance(o, (str, bool, type(None), int)):
        return o
    if isinstance(o, float):
        return o
    if isinstance(o, (np.bool_,)):
        return bool(o)
    if isinstance(o, np.integer):
        return int(o)
    if isinstance(o, np.floating):
        return float(o)
    if isinstance(o, np.ndarray):
        if o.dtype.kind in "fc":
            return [jsonable(v, depth + 1) for v in o.tolist()]
        return o.tolist()
    if isinstance(o, dict):
        return {str(k): jsonable(v, depth + 1) for k, v in o.items()}
    if isinstance(o, (list, tuple, set, frozenset)):
        return [jsonable(v, depth + 1) for v in o]
    try:
        import pandas as pd
        if isinstance(o, pd.Series):
            return {"index": [str(i) for i in o.index], "values": jsonable(o.values)}
        if isinstance(o, pd.DataFrame):
            return {"columns": [str(c) for c in o.columns],
                    "values": jsonable(o.values)}
    except Exception:
        pass
    return repr(o)


def truncate(o, maxlen=12):
    """shorten long lists so that a sample stays readable"""
    if isinstance(o, list):
        out = [truncate(v, maxlen) for v in o[:maxlen]]
        if len(o) > maxlen:
            out.append(f"... ({len(o)} items)")
        return out
    if isinstance(o, dict):
        return {k: truncate(v, maxlen) for k, v in o.items()}
    return o


def digest(*objs):
    h = hashlib.blake2b(digest_size=8)
    for o in objs:
        if isinstance(o, np.ndarray):
            h.update(str(o.dtype).encode())
            h.update(str(o.shape).encode())
            h.update(np.ascontiguousarray(o).tobytes())
        elif isinstance(o, bytes):
            h.update(o)
        else:
            h.update(repr(o).encode())
        h.update(b"|")
    return int.from_bytes(h.digest(), "little") >> 1


# ------------------------------------------------- value-identical presentations ----
ND_PRESENTATIONS = ["strided", "negstride", "rowstrided", "fortran", "readonly",
                    "bigendian", "subclass", "memmap"]
# ("f32" exists below but is not a default: float32 input is legitimately processed
# in float32 arithmetic by several functions, so results differ at the 1e-7 level)
# ("masked-nomask" exists too and is not a default either: numpy's masked arithmetic
# masks invalid results instead of returning NaN, so a masked array is not "the same
# numbers" to any function that relies on NaN propagation)
OTHER_PRESENTATIONS = ["list", "pandas", "pandas-idx", "int", "int-narrow"]
# ndarray presentations that the unchanged library itself does not accept, with the
# reason (a refusal is then counted, not reported; a result, if given, must still match)
REFUSED_BY_DEPENDENCY = {
    ("standard_normal", "bigendian"): "pandas.Series.rank refuses arrays in non-native "
                                      "byte order",
}


def present(a, kind):
    """The same values handed over differently (another memory layout, a read-only
    buffer, another container or an exactly equivalent dtype). Returns None when the
    presentation does not exist for this array. Gaps of strided views hold a loud
    sentinel so that a kernel walking the wrong memory shows in its result."""
    a = np.asarray(a)
    if a.ndim == 0 or a.size == 0:
        return None
    sent = 7.7e77 if a.dtype.kind == "f" else (113 if a.dtype.kind in "iu" else None)
    if kind == "strided":
        big = np.empty(a.shape[:-1] + (2 * a.shape[-1],), dtype=a.dtype)
        if sent is not None:
            big[...] = sent
        big[..., ::2] = a
        return big[..., ::2]
    if kind == "negstride":
        return a[..., ::-1].copy()[..., ::-1]
    if kind == "rowstrided":
        if a.ndim != 2:
            return None
        big = np.empty((2 * a.shape[0],) + a.shape[1:], dtype=a.dtype)
        if sent is not None:
            big[...] = sent
        big[::2] = a
        return big[::2]
    if kind == "fortran":
        return np.asfortranarray(a) if a.ndim == 2 and min(a.shape) > 1 else None
    if kind == "readonly":
        c = np.ascontiguousarray(a.copy())
        c.setflags(write=False)
        return c
    if kind == "list":
        return a.tolist()
    if kind == "pandas":
        import pandas as pd
        if a.ndim == 1:
            return pd.Series(a.copy())
        return pd.DataFrame(a.copy()) if a.ndim == 2 else None
    if kind == "pandas-idx":
        # every argument gets the same non-default index (positions and labels differ)
        import pandas as pd
        idx = pd.Index(1000 + np.arange(a.shape[0])[::-1])
        if a.ndim == 1:
            return pd.Series(a.copy(), index=idx)
        return pd.DataFrame(a.copy(), index=idx) if a.ndim == 2 else None
    if kind == "f32":
        if a.dtype != np.float64:
            return None
        with np.errstate(all="ignore"):
            b = a.astype(np.float32)
            same = (b.astype(np.float64) == a) | np.isnan(a)
        return b if bool(np.all(same)) else None
    if kind == "bigendian":
        # value-identical array in the other byte order (data read from a binary file)
        if a.dtype.kind not in "fiu" or a.dtype.itemsize == 1:
            return None
        return a.astype(a.dtype.newbyteorder(">"))
    if kind == "subclass":
        class Labelled(np.ndarray):         # an ndarray subclass that adds nothing
            pass
        return np.ascontiguousarray(a.copy()).view(Labelled)
    if kind == "masked-nomask":
        return np.ma.masked_array(a.copy())
    if kind == "memmap":
        # a read-only memory-mapped file holding the same numbers
        import tempfile
        d = os.environ.get("HYVERIF_WORK") or tempfile.gettempdir()
        os.makedirs(d, exist_ok=True)
        fd, fn = tempfile.mkstemp(prefix="mm-", suffix=".bin", dir=d)
        os.close(fd)
        try:
            np.ascontiguousarray(a).tofile(fn)
            mm = np.memmap(fn, dtype=a.dtype, mode="r", shape=a.shape)
        finally:
            os.unlink(fn)            # the mapping stays valid after the name is gone
        return mm
    if kind == "int-narrow":
        # whole numbers held in the narrowest integer type that takes them all, signed
        # or unsigned (masks, counts, category codes, scores read from an image)
        if a.dtype.kind not in "fiu" or not bool(np.all(np.isfinite(a))) or \
                not bool(np.all(a == np.round(a))):
            return None
        lo, hi = float(a.min()), float(a.max())
        order = [np.uint8, np.int8, np.uint16, np.int16, np.uint32, np.int32]
        if int(hi + a.size) % 2:
            order = [np.int8, np.uint8, np.int16, np.uint16, np.int32, np.uint32]
        for t in order:
            ii = np.iinfo(t)
            if ii.min <= lo and hi <= ii.max:
                return a.astype(t)
        return None
    if kind == "int":
        if a.dtype != np.float64 or not bool(np.all(np.isfinite(a))) or \
                not bool(np.all(a == np.round(a))) or bool(np.any(np.abs(a) > 2 ** 52)):
            return None
        return a.astype(np.int64)
    raise ValueError(kind)


_LIBC = None


def _c_stdout_unbuffered():
    """Make the C library's stdout unbuffered (once per process), so that a failing
    write shows at the printing call itself and not at some later flush."""
    global _LIBC
    if _LIBC is None:
        import ctypes
        _LIBC = ctypes.CDLL(None)
        so = ctypes.c_void_p.in_dll(_LIBC, "stdout")
        _LIBC.fflush(so)
        _LIBC.setvbuf(so, None, 2, 0)          # _IONBF


@contextlib.contextmanager
def dirty_process_state(chdir=None):
    """The state other code may leave a process in, none of which is an input of the
    library: errno = ERANGE left by an earlier libm call, floating-point status flags
    raised, file descriptor 1 unwritable (closed pipe, full disk: every C-level print
    fails), terse numpy / pandas print options, optionally another working directory.
    Python-level prints of the library go to a string buffer meanwhile."""
    import io
    import pandas as pd
    _c_stdout_unbuffered()
    sys.stdout.flush()
    saved_fd = os.dup(1)
    full = os.open("/dev/full", os.O_WRONLY)
    os.dup2(full, 1)
    os.close(full)
    py_out, sys.stdout = sys.stdout, io.StringIO()
    cwd = os.getcwd()
    po = np.get_printoptions()
    pdo = {k: pd.get_option(k) for k in ("display.precision", "display.max_rows",
                                         "display.max_columns", "display.width",
                                         "display.max_colwidth", "display.max_seq_items")}
    try:
        if chdir:
            os.chdir(chdir)
        np.set_printoptions(precision=2, threshold=4, edgeitems=1, linewidth=30,
                            suppress=True, legacy="1.13")
        pd.set_option("display.precision", 2)
        pd.set_option("display.max_rows", 4)
        pd.set_option("display.max_columns", 2)
        pd.set_option("display.width", 20)
        pd.set_option("display.max_colwidth", 6)
        pd.set_option("display.max_seq_items", 3)
        with np.errstate(all="ignore"):
            np.float64(1.0) / np.float64(0.0)
            np.float64(1e308) * np.float64(1e10)
            np.sqrt(np.float64(-1.0))
        try:
            math.exp(-1000.0)                   # leaves errno = ERANGE behind
            math.pow(1e-200, 2)
        except (OverflowError, ValueError):
            pass
        yield
    finally:
        np.set_printoptions(**po)
        for k, v in pdo.items():
            pd.set_option(k, v)
        if chdir:
            os.chdir(cwd)
        sys.stdout = py_out
        os.dup2(saved_fd, 1)
        os.close(saved_fd)


@contextlib.contextmanager
def stdout_is_a_terminal():
    """file descriptor 1 is the slave side of a pseudo-terminal for the duration of the
    block (an interactive session), drained by a helper process; Python's
    own sys.stdout is diverted to a string buffer meanwhile"""
    import io
    import pty
    import threading
    _c_stdout_unbuffered()
    sys.stdout.flush()
    import subprocess
    master, slave = pty.openpty()
    # (drained by another *process*: a kernel that prints while it holds the interpreter
    # lock would never let a draining thread run, and block on a full terminal buffer)
    drain = subprocess.Popen(["cat"], stdin=master, stdout=subprocess.DEVNULL,
                             stderr=subprocess.DEVNULL, close_fds=True)
    saved_fd = os.dup(1)
    os.dup2(slave, 1)
    py_out, sys.stdout = sys.stdout, io.StringIO()
    try:
        yield
    finally:
        sys.stdout = py_out
        os.dup2(saved_fd, 1)
        os.close(saved_fd)
        os.close(slave)
        try:
            os.close(master)
        except OSError:
            pass
        try:
            drain.terminate()
            drain.wait(timeout=10)
        except Exception:
            pass


def size_edges(lo=1, hi=10001):
    """lengths at which blocked processing, fixed-size buffers and thresholds change
    hands: powers of two and round decimal numbers, each with its two neighbours"""
    s = set()
    for k in range(1, 21):
        s.update((2 ** k - 1, 2 ** k, 2 ** k + 1))
    for r in (10, 100, 146, 250, 500, 1000, 2000, 2500, 5000, 10000, 20000, 50000,
              65535, 100000):
        s.update((r - 1, r, r + 1))
    return sorted(v for v in s if lo <= v <= hi)


def scalar_forms(v, k=0):
    """the same number as another scalar type a caller may hold (numpy scalars come out
    of every array reduction; 0-d arrays out of np.asarray / xarray)"""
    if isinstance(v, (bool, np.bool_)):
        return [np.bool_(v), bool(v)][k % 2]
    if isinstance(v, (int, np.integer)):
        forms = [np.int64(v), np.int32(v), np.array(v, dtype=np.int64), int(v)]
        if -2 ** 15 <= int(v) < 2 ** 15:
            forms.append(np.int16(v))
        if -2 ** 7 <= int(v) < 2 ** 7:
            forms.append(np.int8(v))
        if 0 <= int(v) < 2 ** 8:
            forms.append(np.uint8(v))
        return forms[k % len(forms)]
    forms = [np.float64(v), np.array(float(v)), float(v)]
    fv = float(v)
    # (no float32 form: arithmetic with a single-precision scalar is legitimately done in
    # single precision by numpy)
    if np.isfinite(fv) and fv == int(fv) and abs(fv) < 2 ** 31:
        forms += [int(fv), np.int64(int(fv))]
    return forms[k % len(forms)]


SMALL_STACK_TEMPLATE = """
import sys, threading, warnings, json
import numpy as np
import pandas as pd
import scipy.stats
warnings.simplefilter("ignore")
{imports}
threading.stack_size({kb} * 1024)
out = {{}}
def work():
{body}
t = threading.Thread(target=work)
t.start()
t.join()
print("RESULT " + json.dumps(out))
"""


def on_small_stack(imports, body, kb=192, timeout=600):
    """Run `body` (python source defining entries of the dict `out`, numbers only) on a
    thread with a small C stack, in a child interpreter (thread pools of embedded and
    musl-based systems give 128 KiB; the unchanged library runs within 128 KiB, imports
    included). Returns (returncode, dict or None)."""
    import subprocess
    import textwrap
    code = SMALL_STACK_TEMPLATE.format(imports=imports, kb=kb,
                                       body=textwrap.indent(textwrap.dedent(body), "    "))
    r = subprocess.run([sys.executable, "-c", code], capture_output=True, text=True,
                       timeout=timeout)
    res = None
    for ln in r.stdout.splitlines():
        if ln.startswith("RESULT "):
            try:
                res = json.loads(ln[7:])
            except Exception:
                res = None
    return r.returncode, res


def runtime_str(s, k=0):
    """the same text as a string object built at run time (read from a configuration
    file, a command line, a JSON document, an array of labels): equal to the literal,
    not the same object - and, for one form, a numpy string scalar"""
    forms = ["".join(list(s)), (s + " ").strip(), np.str_(s),
             bytes(s, "ascii").decode("ascii"), json.loads(json.dumps([s]))[0]]
    return forms[k % len(forms)]


def _first_diff(a, b):
    if a.shape != b.shape:
        return None
    with np.errstate(all="ignore"):
        d = np.where(~((a == b) | (np.isnan(a) & np.isnan(b))))[0]
    if not len(d):
        return None
    i = int(d[np.argmax(np.abs(a[d] - b[d]))]) if np.isfinite(a[d] - b[d]).any() else int(d[0])
    return {"index": i, "got": float(a[i]), "expected": float(b[i])}


def same_result(r1, r2, rtol=0.0, atol=0.0):
    """bitwise (NaN = NaN) or relative / absolute comparison of nested results"""
    if isinstance(r1, (tuple, list)) and isinstance(r2, (tuple, list)):
        return len(r1) == len(r2) and all(same_result(x, y, rtol, atol)
                                          for x, y in zip(r1, r2))
    if isinstance(r1, dict) and isinstance(r2, dict):
        return set(r1) == set(r2) and all(same_result(r1[k], r2[k], rtol, atol)
                                          for k in r1)
    if type(r1).__name__ == "Grid" and type(r2).__name__ == "Grid":
        return same_result(np.asarray(r1.data), np.asarray(r2.data), rtol, atol)
    try:
        import pandas as pd
        if isinstance(r1, (pd.Series, pd.DataFrame)):
            r1 = r1.values
        if isinstance(r2, (pd.Series, pd.DataFrame)):
            r2 = r2.values
    except Exception:
        pass
    try:
        x = np.asarray(r1, dtype=float)
        y = np.asarray(r2, dtype=float)
    except Exception:
        return type(r1) is type(r2)
    if x.shape != y.shape:
        return False
    with np.errstate(all="ignore"):
        ok = (x == y) | (np.isnan(x) & np.isnan(y))
        if rtol or atol:
            ok |= np.abs(x - y) <= rtol * np.maximum(np.abs(x), np.abs(y)) + atol
    return bool(np.all(ok))


class Ctx:
    MAX_DIGESTS = 400000
    MAX_PER_KEY = 3

    def __init__(self, prop, tier, seed, shard, nshards, replaying=False):
        self.prop = prop
        self.tier = tier
        self.seed = int(seed)
        self.shard = shard
        self.nshards = nshards
        self.replaying = replaying
        self.evaluations = 0
        self.predicates = Counter()
        self.classes = Counter()
        self.apis = Counter()
        self.extra = Counter()
        self.digests = set()
        self.digests_capped = False
        self.samples = []
        self.violations = {}     # key -> {count, first:[...]}
        self.notes = []
        self.t0 = time.time()
        self.deadline = None
        self.info = {}

    # ---- randomness -----------------------------------------------------------
    def rng(self, *stream):
        pn = int(self.prop[1:])
        ss = [self.seed & 0xFFFFFFFF, pn, self.shard] + [int(s) & 0xFFFFFFFF
                                                         for s in stream]
        return np.random.default_rng(ss)

    def seed_global(self, *stream):
        s = digest(self.seed, self.prop, self.shard, *stream) & 0x7FFFFFFF
        np.random.seed(s)
        return s

    # ---- bookkeeping ----------------------------------------------------------
    def evaluated(self, n=1):
        self.evaluations += n

    def tag(self, cls, n=1):
        self.classes[cls] += n

    def api(self, name, n=1):
        self.apis[name] += n

    def nontrivial(self, *objs):
        if len(self.digests) >= self.MAX_DIGESTS:
            self.digests_capped = True
            return
        self.digests.add(digest(*objs))

    def sample(self, obj, cap=4, maxlen=12):
        if len(self.samples) < cap:
            self.samples.append(truncate(jsonable(obj), maxlen))

    def presentations(self, label, fn, arrays, base, case, rng, rtol=1e-14, n=2,
                      kinds=None, atol=0.0):
        """Metamorphic relation between observed executions: fn(*arrays) with some of
        the arrays handed over in another (value-identical) presentation returns what
        it returned for plain C-contiguous float64 arrays. ndarray presentations
        must be accepted; other containers / dtypes may be refused with an exception
        (counted), but a result, if given, must be the same - to 1e-14 relative, not
        bitwise: numpy's own loops for exp / power take another code path on strided
        data and differ in the last place."""
        kinds = kinds or (ND_PRESENTATIONS + OTHER_PRESENTATIONS)
        for _ in range(n):
            kind = kinds[int(rng.integers(0, len(kinds)))]
            which = int(rng.integers(0, len(arrays) + 1))    # one array, or all
            args = []
            changed = False
            for j, a in enumerate(arrays):
                p = present(a, kind) if which in (j, len(arrays)) else None
                if p is None:
                    args.append(np.array(a, copy=True))
                else:
                    args.append(p)
                    changed = True
            if not changed:
                continue
            self.tag("presentation:" + kind)
            self.api(label)
            try:
                r = fn(*args)
            except Exception as e:
                if (kind in ND_PRESENTATIONS or kind == "f32") and \
                        (label, kind) not in REFUSED_BY_DEPENDENCY:
                    self.check("presentation.accepted", False,
                               f"{label}|raises-on-{kind}-input", case,
                               {"exc": repr(e)[:300], "presentation": kind,
                                "argument": which})
                else:
                    self.extra[f"presentation-refused:{label}:{kind}"] += 1
                continue
            self.check("presentation.same-result", same_result(r, base, rtol, atol),
                       f"{label}|result-depends-on-presentation|{kind}", case,
                       lambda: {"presentation": kind, "argument": which,
                                "result": jsonable(truncate(jsonable(r))),
                                "base": jsonable(truncate(jsonable(base)))})

    def reuse(self, label, fn, arrays, base, case, rtol=1e-14, atol=0.0, mutate=None):
        """Three calls with the *same* argument objects, as a caller's loop does: the
        arguments are still what they were; the first result, kept by the caller, is
        not overwritten by the second call; and after the caller has edited the
        results it was given, the third call still returns the first answer."""
        from hyverif.monitors.purity import scramble
        import copy as _copy
        if mutate is None:
            def mutate(a, i):
                # new content made of the array's own values (so it stays inside
                # whatever domain the function has): rows shifted by a different amount
                # per argument, and one value overwritten by another one
                a[...] = np.roll(a, i + 1, axis=0)
                if a.size >= 2:
                    a.flat[0] = a.flat[a.size // 2 or 1]
        args = [np.ascontiguousarray(np.array(a, copy=True)) if isinstance(a, np.ndarray)
                else _copy.deepcopy(a) for a in arrays]
        orig = [_copy.deepcopy(a) for a in args]
        self.tag("reuse:" + label)
        self.api(label, 3)
        try:
            r1 = fn(*args)
            keep = _copy.deepcopy(r1)
            r2 = fn(*args)
            ok_kept = same_result(r1, keep)
            scramble(r1)
            scramble(r2)
            r3 = fn(*args)
        except Exception as e:
            self.check("reuse.runs", False, f"{label}|raises-on-repeated-call", case,
                       {"exc": repr(e)[:300]})
            return
        self.check("reuse.arguments-kept",
                   all(same_result(a, o) for a, o in zip(args, orig)
                       if isinstance(a, np.ndarray)),
                   f"{label}|argument-changed-by-repeated-calls", case, None)
        self.check("reuse.earlier-result-kept", ok_kept,
                   f"{label}|earlier-result-overwritten-by-later-call", case, None)
        self.check("reuse.same-answer", same_result(keep, base, rtol, atol) and
                   same_result(r3, base, rtol, atol),
                   f"{label}|repeated-call-on-same-arguments-differs", case,
                   lambda: {"first": jsonable(truncate(jsonable(keep))),
                            "third": jsonable(truncate(jsonable(r3))),
                            "fresh": jsonable(truncate(jsonable(base)))})
        # the same call in a process that other code left in an unusual state (none of
        # it is an input of the function)
        try:
            with dirty_process_state():
                rd = fn(*args)
            okd, exd = same_result(rd, base, rtol, atol), None
        except Exception as e:
            okd, exd, rd = False, repr(e)[:300], None
        self.tag("dirty-process-state")
        self.api(label)
        self.check("reuse.process-state", okd,
                   f"{label}|result-depends-on-process-state", case,
                   lambda: {"exception": exd,
                            "result": jsonable(truncate(jsonable(rd))),
                            "fresh": jsonable(truncate(jsonable(base)))})
        # the caller refills its own arrays in place (a loop over sites re-using one
        # buffer) and calls again: the answer is the one for the new content, i.e. what
        # fresh copies of the same arrays give
        farr = [i for i, a in enumerate(args)
                if isinstance(a, np.ndarray) and a.dtype.kind == "f" and a.size]
        if not farr or not mutate:
            return
        try:
            for i in farr:
                mutate(args[i], i)
            cur = [np.array(a, copy=True) if isinstance(a, np.ndarray)
                   else _copy.deepcopy(a) for a in args]
            r4 = fn(*args)
            rf = fn(*cur)
        except Exception:
            self.extra[f"reuse-refill-refused:{label}"] += 1
            return
        self.tag("reuse-refilled:" + label)
        self.api(label, 2)
        self.check("reuse.refilled-arguments", same_result(r4, rf, rtol, atol),
                   f"{label}|stale-answer-after-arguments-were-refilled-in-place", case,
                   lambda: {"same_objects": jsonable(truncate(jsonable(r4))),
                            "fresh_copies": jsonable(truncate(jsonable(rf)))})
        # a result kept by the caller survives a later call on *other data of the same
        # shape* (a work area kept between calls would hand out the same memory twice)
        try:
            keep4 = _copy.deepcopy(r4)
            other = [np.array(a, copy=True) if isinstance(a, np.ndarray)
                     else _copy.deepcopy(a) for a in args]
            for i in farr:
                mutate(other[i], i + 1)
            r5 = fn(*other)
        except Exception:
            return
        self.check("reuse.kept-result-vs-other-data", same_result(r4, keep4),
                   f"{label}|earlier-result-overwritten-by-call-on-other-data", case,
                   lambda: {"kept": jsonable(truncate(jsonable(keep4))),
                            "now": jsonable(truncate(jsonable(r4)))})

    def concurrent(self, label, fn, argsets, case, rtol=1e-14, atol=0.0, nthreads=4,
                   repeats=6):
        """The same calls made at the same time from several threads (a web service, a
        thread pool scoring many sites): each call answers what it answers alone.
        argsets: list of argument tuples, one per thread (same shapes, other data)."""
        import threading
        try:
            alone = [fn(*[np.array(a, copy=True) if isinstance(a, np.ndarray) else a
                          for a in args]) for args in argsets]
        except Exception:
            return
        wrong, errors = [], []
        barrier = threading.Barrier(len(argsets))

        def work(i):
            try:
                barrier.wait(timeout=30)
                for _ in range(repeats):
                    r = fn(*[np.array(a, copy=True) if isinstance(a, np.ndarray) else a
                             for a in argsets[i]])
                    if not same_result(r, alone[i], rtol, atol):
                        wrong.append(i)
            except Exception as e:
                errors.append(repr(e)[:200])
        ths = [threading.Thread(target=work, args=(i,)) for i in range(len(argsets))]
        for t in ths:
            t.start()
        for t in ths:
            t.join(timeout=600)
        self.tag("concurrent-calls")
        self.api(label, len(argsets) * (repeats + 1))
        self.check("concurrent.same-as-alone", not wrong and not errors,
                   f"{label}|answer-differs-when-called-from-several-threads", case,
                   lambda: {"threads_with_wrong_answers": sorted(set(wrong)),
                            "n_wrong_calls": len(wrong), "errors": errors[:3]})

    def small_stack(self, label, imports, body, expected, case, rtol=1e-12):
        """the numbers `body` computes on a 192 KiB thread stack in a child interpreter
        equal the ones computed here (`expected`: dict of floats); a child that dies is
        a violation, one that cannot be started is not"""
        try:
            rc, res = on_small_stack(imports, body)
        except Exception as e:
            self.extra[f"small-stack-not-run:{label}"] += 1
            return
        self.tag("small-thread-stack")
        self.api(label)
        ok = rc == 0 and res is not None and set(res) == set(expected) and all(
            same_result(np.float64(res[k]), np.float64(expected[k]), rtol, 0.0)
            for k in expected)
        self.check("small-stack.same-answer", ok,
                   f"{label}|dies-or-differs-on-a-thread-with-a-small-stack", case,
                   lambda: {"returncode": rc, "child": res, "here": expected})

    def shapes(self, label, fn, x, base, case, rtol=1e-12, atol=0.0):
        """An element-wise function gives every element the same answer whatever the
        shape of the array it arrives in: [n] vs [1, n], [n, 1], [k, n/k] (rows mixing
        the values of different branches) and a 3-D block."""
        x = np.asarray(x)
        n = x.size
        if n < 2:
            return
        forms = [x.reshape((1, n)), x.reshape((n, 1))]
        for k in (2, 3, 5):
            if n % k == 0 and n // k >= 2:
                forms.append(x.reshape((k, n // k)))
                forms.append(x.reshape((n // k, k)))
                break
        if n % 4 == 0:
            forms.append(x.reshape((2, 2, n // 4)))
        for f in forms:
            self.tag("shape-variant")
            self.api(label)
            try:
                r = np.asarray(fn(np.ascontiguousarray(f)), dtype=float)
            except Exception as e:
                self.check("shape.accepted", False, f"{label}|raises-on-{f.ndim}d-input",
                           case, {"exc": repr(e)[:300], "shape": list(f.shape)})
                continue
            ok = r.shape == f.shape and same_result(r.ravel(), np.asarray(base).ravel(),
                                                    rtol, atol)
            self.check("shape.same-elements", ok,
                       f"{label}|result-depends-on-array-shape", case,
                       lambda: {"shape": list(f.shape), "result_shape": list(r.shape),
                                "first_diff": _first_diff(r.ravel(), np.asarray(base).ravel())})

    def risky(self, case):
        """synchronously record the case about to be executed (used before calls
        that a defect could turn into an endless loop, so that the driver can
        name the case when the watchdog fires)"""
        fd = getattr(self, "_hbfd", None)
        if fd is None:
            path = getattr(self, "hb_path", None)
            if not path:
                return
            fd = self._hbfd = os.open(path, os.O_WRONLY | os.O_CREAT, 0o644)
        rec = json.dumps({"t": time.time(), "case": jsonable(case)})[:3900]
        os.pwrite(fd, rec.encode().ljust(4000), 0)

    def out_of_time(self):
        return self.deadline is not None and time.time() > self.deadline

    # ---- predicates -----------------------------------------------------------
    def check(self, pred, ok, key=None, case=None, detail=None):
        """Record one evaluation of predicate `pred`; on failure record a violation
        under the mechanism key `key` (defaults to pred)."""
        self.predicates[pred] += 1
        if isinstance(case, dict):
            self._last_case = case
        if ok:
            return True
        self.violate(key or pred, pred, case, detail)
        return False

    def count(self, pred, n):
        self.predicates[pred] += n

    def violate(self, key, pred, case=None, detail=None):
        v = self.violations.setdefault(key, {"count": 0, "first": []})
        v["count"] += 1
        if len(v["first"]) < self.MAX_PER_KEY:
            # (what describes a violation is computed from what the code under test
            # returned: it must not be able to hide the violation by failing)
            try:
                if callable(case):
                    case = case()
            except Exception as e:
                case = {"case-not-available": repr(e)[:200]}
            try:
                if callable(detail):
                    detail = detail()
            except Exception as e:
                detail = {"detail-not-available": repr(e)[:200]}
            v["first"].append({"pred": pred, "case": jsonable(case),
                               "detail": jsonable(detail)})

    def result(self):
        if not self.samples and getattr(self, "_last_case", None) is not None:
            # the module's own sampling rule picked nothing on this shard: show the last
            # judged case rather than nothing
            self.sample(self._last_case)
        return {
            "prop": self.prop, "shard": self.shard,
            "evaluations": self.evaluations,
            "predicates": dict(self.predicates),
            "classes": dict(self.classes),
            "apis": dict(self.apis),
            "extra": dict(self.extra),
            "samples": self.samples,
            "violations": self.violations,
            "digests_capped": self.digests_capped,
            "notes": self.notes,
            "info": self.info,
            "wall_s": time.time() - self.t0,
        }


def ulp(x):
    x = abs(float(x))
    if not math.isfinite(x):
        return float("inf")
    return math.ulp(x)


def close(a, b, rel=1e-9, abs_=0.0):
    """NaN-aware closeness for scalars."""
    a = float(a)
    b = float(b)
    if math.isnan(a) or math.isnan(b):
        return math.isnan(a) and math.isnan(b)
    if math.isinf(a) or math.isinf(b):
        return a == b
    return abs(a - b) <= max(abs_, rel * max(abs(a), abs(b)))
