"""Worker entry point: python -m hyverif.worker <spec.json>

Runs one shard of one property's workload (or one replay case) against the real
code and writes a JSON result + digests (.npy)."""
import faulthandler
import importlib
import json
import os
import sys
import time
import traceback

import numpy as np


def main():
    spec = json.load(open(sys.argv[1]))
    faulthandler.enable()
    os.environ.setdefault("MPLBACKEND", "Agg")
    # marker channel for sanitizer attribution: a line on stderr before cases
    from hyverif.core import Ctx
    ctx = Ctx(spec["prop"], spec["tier"], spec["seed"], spec["shard"],
              spec["nshards"], replaying=bool(spec.get("replay")))
    ctx.spec = spec
    ctx.hb_path = spec["out"] + ".hb"
    if spec.get("budget_s"):
        ctx.deadline = time.time() + spec["budget_s"]
    if spec.get("quiet_stdout", True):
        # kernels fprintf progress to stdout
        devnull = os.open(os.devnull, os.O_WRONLY)
        os.dup2(devnull, 1)
    mod = importlib.import_module("hyverif.props." + spec["module"])
    status = "ok"
    err = None
    try:
        rp = spec.get("replay")
        if rp and isinstance(rp, dict) and rp.get("kind") == "rerun-shard":
            ctx.shard, ctx.nshards = int(rp["shard"]), int(rp["nshards"])
            ctx.tier = rp.get("tier", ctx.tier)
            mod.run(ctx)
        elif rp:
            mod.replay(ctx, rp)
        else:
            mod.run(ctx)
    except BaseException as e:
        err = "".join(traceback.format_exception(type(e), e, e.__traceback__))[-6000:]
        # An exception that escapes from the code under test on an input of the
        # property's domain means the promised result was not delivered: that is a
        # violation (generic safety net). An exception raised by the harness itself
        # is a harness error (inconclusive).
        repo_src = os.path.realpath(os.path.join(os.environ.get("VERIF_REPO", "/repo"),
                                                 "src"))
        frames = traceback.extract_tb(e.__traceback__)
        inner = frames[-1] if frames else None
        where = None
        for fr in reversed(frames):
            if os.path.realpath(fr.filename).startswith(repo_src):
                where = fr
                break
        from_repo = where is not None and inner is not None and (
            os.path.realpath(inner.filename).startswith(repo_src) or
            "site-packages" in inner.filename or inner.filename.startswith("<"))
        if from_repo and not isinstance(e, (KeyboardInterrupt, MemoryError)):
            key = (f"unexpected-exception|{os.path.basename(where.filename)}:"
                   f"{where.name}|{type(e).__name__}")
            ctx.violate(key, "no-exception-on-valid-input",
                        {"kind": "rerun-shard", "shard": ctx.shard,
                         "nshards": ctx.nshards, "tier": ctx.tier},
                        {"exception": repr(e)[:500], "traceback": err[-2500:]})
        else:
            status = "harness-error"
    res = ctx.result()
    res["status"] = status
    res["error"] = err
    import c_hydrodiy_data
    res["ext_path"] = os.path.dirname(c_hydrodiy_data.__file__)
    import hydrodiy
    res["py_path"] = os.path.dirname(hydrodiy.__file__)
    out = spec["out"]
    np.save(out + ".dig.npy", np.fromiter(ctx.digests, dtype=np.int64,
                                          count=len(ctx.digests)))
    with open(out + ".tmp", "w") as f:
        json.dump(res, f)
    os.replace(out + ".tmp", out)


if __name__ == "__main__":
    main()
