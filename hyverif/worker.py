"""Worker entry point: python -m hyverif.worker <spec.json>

Runs one shard of one property's workload (or one replay case) against the real
code and writes a JSON result + digests (.npy)."""
import faulthandler
import importlib
import json
import os
import sys
import time
import traceback

import numpy as np


def main():
    spec = json.load(open(sys.argv[1]))
    faulthandler.enable()
    os.environ.setdefault("MPLBACKEND", "Agg")
    # marker channel for sanitizer attribution: a line on stderr before cases
    from hyverif.core import Ctx
    ctx = Ctx(spec["prop"], spec["tier"], spec["seed"], spec["shard"],
              spec["nshards"], replaying=bool(spec.get("replay")))
    ctx.spec = spec
    ctx.hb_path = spec["out"] + ".hb"
    if spec.get("budget_s"):
        ctx.deadline = time.time() + spec["budget_s"]
    if spec.get("quiet_stdout", True):
        # kernels fprintf progress to stdout
        devnull = os.open(os.devnull, os.O_WRONLY)
        os.dup2(devnull, 1)
    mod = importlib.import_module("hyverif.props." + spec["module"])
    status = "ok"
    err = None
    try:
        if spec.get("replay"):
            mod.replay(ctx, spec["replay"])
        else:
            mod.run(ctx)
    except BaseException as e:  # the harness itself failed: inconclusive
        status = "harness-error"
        err = "".join(traceback.format_exception(type(e), e, e.__traceback__))[-6000:]
    res = ctx.result()
    res["status"] = status
    res["error"] = err
    import c_hydrodiy_data
    res["ext_path"] = os.path.dirname(c_hydrodiy_data.__file__)
    import hydrodiy
    res["py_path"] = os.path.dirname(hydrodiy.__file__)
    out = spec["out"]
    np.save(out + ".dig.npy", np.fromiter(ctx.digests, dtype=np.int64,
                                          count=len(ctx.digests)))
    with open(out + ".tmp", "w") as f:
        json.dump(res, f)
    os.replace(out + ".tmp", out)


if __name__ == "__main__":
    main()
