"""Rebuild the three hydrodiy extension modules from the working tree.

Flavours
  plain : production arithmetic (gcc, sysconfig flags: -O3 -fno-strict-overflow)
  san   : clang ASan+UBSan, kernels at -O0 so every source-level access is checked

Cython is not available offline, so the Cython-generated wrapper C that sits in the
working tree (git-ignored) is the starting point; hand-written kernels are always
compiled from the current working tree.  Objects are cached per (file hash, flags).
"""
import fcntl
import hashlib
import os
import re
import shutil
import subprocess
import sys
import sysconfig
import time
import gzip
from concurrent.futures import ThreadPoolExecutor
from pathlib import Path

VERIF = Path(__file__).resolve().parent.parent
REPO = Path(os.environ.get("VERIF_REPO", "/repo"))
BUILD = VERIF / ".build"

MODULES = {
    "c_hydrodiy_data": ("data", ["c_hydrodiy_data.c", "c_dateutils.c",
                                 "c_qualitycontrol.c", "c_dutils.c", "c_var2h.c",
                                 "c_baseflow.c"]),
    "c_hydrodiy_stat": ("stat", ["c_hydrodiy_stat.c", "c_crps.c", "c_dscore.c",
                                 "c_olsleverage.c", "c_armodels.c", "ADinf.c",
                                 "AnDarl.c", "c_andersondarling.c",
                                 "c_paretofront.c"]),
    "c_hydrodiy_gis": ("gis", ["c_hydrodiy_gis.c", "c_grid.c", "c_catchment.c",
                               "c_points_inside_polygon.c"]),
}

PYINC = sysconfig.get_paths()["include"]
EXT = sysconfig.get_config_var("EXT_SUFFIX")


def _npinc():
    import numpy
    return numpy.get_include()


def flags(flavour, generated):
    if flavour == "plain":
        base = ["gcc", "-fno-strict-overflow", "-DNDEBUG", "-g0", "-fPIC", "-w"]
        # wrapper glue at -O1 (faster compile), kernels exactly -O3 as production
        return base + (["-O1"] if generated else ["-O3"])
    if flavour == "san":
        base = ["clang", "-g", "-fno-omit-frame-pointer", "-fPIC", "-w", "-DNDEBUG"]
        if generated:
            return base + ["-O1", "-fsanitize=address",
                           "-fsanitize-recover=all"]
        return base + ["-O0", "-fsanitize=address,undefined",
                       "-fno-sanitize=float-cast-overflow",
                       "-fsanitize-recover=all"]
    raise ValueError(flavour)


def link_cmd(flavour):
    if flavour == "plain":
        return ["gcc", "-shared"]
    return ["clang", "-shared", "-fsanitize=address,undefined",
            "-shared-libasan"]


def asan_runtime():
    out = subprocess.run(["clang", "-print-file-name=libclang_rt.asan-x86_64.so"],
                         capture_output=True, text=True).stdout.strip()
    return out


def _sha(*parts):
    h = hashlib.sha256()
    for p in parts:
        h.update(p if isinstance(p, bytes) else str(p).encode())
        h.update(b"\0")
    return h.hexdigest()[:24]


def _headers_hash(d):
    h = hashlib.sha256()
    for f in sorted(d.glob("*.h")):
        h.update(f.name.encode())
        h.update(f.read_bytes())
    return h.hexdigest()[:16]


def _generated_source(sub, name):
    """Path of the Cython generated C file; falls back to the vendored copy."""
    p = REPO / "src" / "hydrodiy" / sub / name
    if p.exists():
        return p, False
    v = VERIF / "vendor" / (name + ".gz")
    if v.exists():
        out = BUILD / "vendor"
        out.mkdir(parents=True, exist_ok=True)
        q = out / name
        if not q.exists():
            q.write_bytes(gzip.decompress(v.read_bytes()))
        return q, True
    raise FileNotFoundError(str(p))


def pyx_stale():
    """Compare the pyx source echoes embedded in the generated C with the
    current .pyx (informational only: nobody can re-cythonize offline)."""
    res = {}
    for mod, (sub, srcs) in MODULES.items():
        try:
            gen, vend = _generated_source(sub, srcs[0])
        except FileNotFoundError:
            res[mod] = "generated C missing"
            continue
        pyx = REPO / "src" / "hydrodiy" / sub / (mod + ".pyx")
        if not pyx.exists():
            res[mod] = "pyx missing"
            continue
        lines = pyx.read_text(errors="replace").splitlines()
        txt = gen.read_text(errors="replace")
        stale = 0
        checked = 0
        for m in re.finditer(r'/\* "[^"]*%s\.pyx":(\d+)\n(.*?)\*/' % mod, txt, re.S):
            ln = int(m.group(1))
            body = m.group(2)
            cur = None
            for bl in body.splitlines():
                if "<<<<<<<<<<<<<<" in bl:
                    cur = bl.split("# <<<<<<")[0]
                    cur = re.sub(r"^ \* ", "", cur).rstrip()
                    break
            if cur is None or ln - 1 >= len(lines):
                continue
            checked += 1
            if cur.strip() != lines[ln - 1].strip():
                stale += 1
        res[mod] = {"echo_lines_checked": checked, "stale": stale,
                    "vendored_wrapper": vend}
    return res


def build(flavour="plain", verbose=False):
    """Build (if needed) and return the directory holding the three modules."""
    BUILD.mkdir(parents=True, exist_ok=True)
    npinc = _npinc()
    jobs = []   # (src, obj, cmd)
    mods = {}
    for mod, (sub, srcs) in MODULES.items():
        d = REPO / "src" / "hydrodiy" / sub
        hh = _headers_hash(d)
        objs = []
        for i, s in enumerate(srcs):
            generated = (i == 0)
            src = _generated_source(sub, s)[0] if generated else d / s
            fl = flags(flavour, generated)
            key = _sha(src.read_bytes(), hh, " ".join(fl), PYINC)
            obj = BUILD / "obj" / f"{s}.{flavour}.{key}.o"
            objs.append(obj)
            if not obj.exists():
                cmd = fl + ["-I", str(d), "-I", PYINC, "-I", npinc, "-c", str(src)]
                jobs.append((src, obj, cmd))
        mods[mod] = objs
    allkey = _sha(*[o.name for m in sorted(mods) for o in mods[m]], flavour)
    outdir = BUILD / f"{flavour}-{allkey}"
    if (outdir / ".ok").exists():
        return outdir
    lock = open(BUILD / f".lock-{flavour}", "w")
    fcntl.flock(lock, fcntl.LOCK_EX)
    try:
        if (outdir / ".ok").exists():
            return outdir
        (BUILD / "obj").mkdir(exist_ok=True)

        def comp(job):
            src, obj, cmd = job
            if obj.exists():
                return None
            tmp = obj.with_suffix(f".tmp{os.getpid()}.o")
            r = subprocess.run(cmd + ["-o", str(tmp)], capture_output=True, text=True)
            if r.returncode != 0:
                return f"compile failed: {src}\n{r.stderr[-3000:]}"
            os.replace(tmp, obj)
            return None

        with ThreadPoolExecutor(16) as ex:
            errs = [e for e in ex.map(comp, jobs) if e]
        if errs:
            raise RuntimeError("\n".join(errs))
        tmpdir = BUILD / f".tmp-{flavour}-{os.getpid()}"
        shutil.rmtree(tmpdir, ignore_errors=True)
        tmpdir.mkdir()
        for mod, objs in mods.items():
            cmd = link_cmd(flavour) + [str(o) for o in objs] + \
                ["-lm", "-o", str(tmpdir / (mod + EXT))]
            r = subprocess.run(cmd, capture_output=True, text=True)
            if r.returncode != 0:
                raise RuntimeError(f"link failed: {mod}\n{r.stderr[-3000:]}")
        (tmpdir / ".ok").write_text("ok")
        shutil.rmtree(outdir, ignore_errors=True)
        os.replace(tmpdir, outdir)
        # prune old builds / objects of this flavour: only things that have not been
        # touched for 6 hours (concurrent checks against other trees may be using
        # the recent ones), and never the 30 most recent
        now = time.time()
        olds = sorted([p for p in BUILD.glob(f"{flavour}-*") if p != outdir],
                      key=lambda p: p.stat().st_mtime)
        for p in olds[:-30]:
            if now - p.stat().st_mtime > 6 * 3600:
                shutil.rmtree(p, ignore_errors=True)
        keep = {o for m in mods.values() for o in m}
        objs_all = sorted((BUILD / "obj").glob(f"*.{flavour}.*.o"),
                          key=lambda p: p.stat().st_mtime)
        for p in [o for o in objs_all if o not in keep][:-300]:
            if now - p.stat().st_mtime > 6 * 3600:
                p.unlink(missing_ok=True)
        return outdir
    finally:
        fcntl.flock(lock, fcntl.LOCK_UN)
        lock.close()


def source_digest():
    """Digest of everything under src/hydrodiy that the checks execute."""
    h = hashlib.sha256()
    root = REPO / "src" / "hydrodiy"
    for f in sorted(root.rglob("*")):
        if f.suffix in (".py", ".c", ".h", ".pyx") and "tests" not in f.parts:
            h.update(str(f.relative_to(root)).encode())
            h.update(f.read_bytes())
    return h.hexdigest()[:16]


if __name__ == "__main__":
    for fl in (sys.argv[1:] or ["plain", "san"]):
        print(fl, build(fl))
    print(pyx_stale())
