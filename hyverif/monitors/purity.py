"""M-PURE: argument-immutability and repeat-call monitor.

Wrappers are installed from outside on every public function / public method of the
modules named by property C18. Before each call every array-like argument is
snapshotted (ndarray: dtype, shape, bytes; Series / DataFrame: values, index,
columns, dtypes, name; Grid / Catchment: cell values), after the call (also when it
raises) the snapshots are compared. `self` and parameters documented as outputs are
exempt. In repeat mode a top-level call of a whitelisted function is executed a
second time on deep copies of the original arguments under the same global RNG
state, and the two results are compared canonically; for plain functions the
second result is then edited in place (as a caller may) and a third call must still
return the first answer, which exposes results cached or shared between calls."""
import copy
import functools
import inspect
import threading
from collections import Counter

import numpy as np

MODULES = ["hydrodiy.stat.metrics", "hydrodiy.stat.sutils", "hydrodiy.stat.armodels",
           "hydrodiy.stat.transform", "hydrodiy.data.dutils",
           "hydrodiy.data.qualitycontrol", "hydrodiy.data.signatures",
           "hydrodiy.gis.grid", "hydrodiy.gis.gutils", "hydrodiy.plot.putils",
           "hydrodiy.plot.boxplot", "hydrodiy.plot.violinplot"]
# documented outputs / in-place contracts
EXEMPT_PARAMS = {("hydrodiy.gis.gutils.points_inside_polygon", "inside")}
# methods whose purpose is to change the object they are given (besides self)
SKIP = {"hydrodiy.plot.putils.set_mpl", "hydrodiy.plot.putils.blackwhite",
        "hydrodiy.data.dutils.cast"}
NO_REPEAT_PREFIX = ("hydrodiy.gis.grid.Grid.save", "hydrodiy.gis.grid.Grid.load",
                    "hydrodiy.gis.grid.Grid.fill", "hydrodiy.gis.grid.Grid.from_",
                    "hydrodiy.gis.grid.Grid.plot", "hydrodiy.plot.putils.line",
                    "hydrodiy.plot.putils.qqplot", "hydrodiy.plot.putils.ecdfplot",
                    "hydrodiy.plot.putils.scattercat", "hydrodiy.plot.putils.bivarnplot",
                    "hydrodiy.plot.putils.waterbalplot", "hydrodiy.plot.putils.cov_ellipse",
                    "hydrodiy.plot.boxplot.Boxplot.draw", "hydrodiy.plot.boxplot.Boxplot.show",
                    "hydrodiy.plot.violinplot.Violin.draw",
                    "hydrodiy.gis.grid.Catchment.delineate",
                    "hydrodiy.gis.grid.Catchment.compute_flowpathlengths",
                    "hydrodiy.gis.grid.Grid.set_parent_attributes",
                    "hydrodiy.gis.grid.Grid.apply",
                    "hydrodiy.gis.grid.get_grid")


class State:
    def __init__(self):
        self.calls = Counter()
        self.args_checked = Counter()
        self.repeats = Counter()
        self.violations = []       # dicts
        self.local = threading.local()
        self.repeat = False
        self.on_violation = None
        self.enabled = True


STATE = State()


def _depth():
    return getattr(STATE.local, "depth", 0)


# ------------------------------------------------------------------ snapshots ----
def snap(o, depth=0):
    try:
        import pandas as pd
    except Exception:          # pragma: no cover
        pd = None
    if isinstance(o, np.ndarray):
        if o.dtype == object:
            return ("nd-obj", o.shape, repr(o.tolist())[:2000])
        return ("nd", o.dtype.str, o.shape, o.strides, np.ascontiguousarray(o).tobytes())
    if pd is not None and isinstance(o, pd.DataFrame):
        return ("df", [str(c) for c in o.columns], [str(d) for d in o.dtypes],
                snap(np.asarray(o.index)), tuple(snap(np.asarray(o[c].values))
                                                 for c in o.columns))
    if pd is not None and isinstance(o, pd.Series):
        return ("se", str(o.name), str(o.dtype), snap(np.asarray(o.index)),
                snap(np.asarray(o.values)))
    if pd is not None and isinstance(o, pd.Index):
        return ("idx", snap(np.asarray(o)))
    cn = type(o).__name__
    if cn == "Grid" and hasattr(o, "_data"):
        d = np.asarray(o._data)
        return ("grid", d.shape, np.ascontiguousarray(d.astype(np.float64)
                                                      if d.dtype.kind in "iuf" else d)
                .tobytes())
    if cn == "Catchment" and hasattr(o, "_flowdir"):
        return ("catch", snap(o._flowdir))
    if depth < 2 and isinstance(o, (list, tuple)) and len(o) <= 50:
        if any(isinstance(v, (np.ndarray,)) or type(v).__name__ in
               ("Series", "DataFrame", "Grid") for v in o):
            return ("seq", tuple(snap(v, depth + 1) for v in o))
        return None
    if depth < 2 and isinstance(o, dict) and len(o) <= 50:
        s = {k: snap(v, depth + 1) for k, v in o.items()}
        if any(v is not None for v in s.values()):
            return ("dict", tuple(sorted((str(k), v) for k, v in s.items()
                                         if v is not None)))
        return None
    return None


def describe(o):
    if isinstance(o, np.ndarray):
        return {"type": "ndarray", "dtype": o.dtype.str, "shape": list(o.shape),
                "c_contiguous": bool(o.flags["C_CONTIGUOUS"]),
                "head": np.asarray(o).ravel()[:6].tolist()}
    return {"type": type(o).__name__}


# ------------------------------------------------------------ result compare ----
def canon(r, depth=0):
    try:
        import pandas as pd
    except Exception:        # pragma: no cover
        pd = None
    if isinstance(r, np.ndarray):
        return snap(r)
    if pd is not None and isinstance(r, (pd.Series, pd.DataFrame, pd.Index)):
        return snap(r)
    if isinstance(r, (float, np.floating)):
        return ("f", "nan") if r != r else ("f", float(r))
    if isinstance(r, (int, bool, str, type(None), np.integer, np.bool_)):
        return ("s", r if not isinstance(r, (np.integer, np.bool_)) else r.item())
    if isinstance(r, (list, tuple)) and depth < 4:
        return ("seq", tuple(canon(v, depth + 1) for v in r))
    if isinstance(r, dict) and depth < 4:
        return ("dict", tuple(sorted((str(k), canon(v, depth + 1))
                                     for k, v in r.items())))
    if type(r).__name__ == "Grid":
        return snap(r)
    return ("obj", type(r).__name__)


def scramble(r, depth=0):
    """what a caller may do with a result it owns: edit it in place. Returns the number
    of array leaves that were edited."""
    try:
        import pandas as pd
    except Exception:        # pragma: no cover
        pd = None
    n = 0
    if isinstance(r, np.ndarray):
        if r.size and r.flags.writeable and r.dtype.kind in "fiu":
            with np.errstate(all="ignore"):
                if r.dtype.kind == "f":
                    r *= -3.0
                    r += 7.0
                else:
                    r += 113
            return 1
        return 0
    if pd is not None and isinstance(r, (pd.Series, pd.DataFrame)):
        try:
            v = r.values
            if isinstance(v, np.ndarray) and v.flags.writeable:
                return scramble(v, depth + 1)
        except Exception:
            pass
        return 0
    if isinstance(r, (list, tuple)) and depth < 3:
        for v in r:
            n += scramble(v, depth + 1)
    elif isinstance(r, dict) and depth < 3:
        for v in r.values():
            n += scramble(v, depth + 1)
    return n


# -------------------------------------------------------------------- wrapper ----
def make_wrapper(fn, qual, is_method):
    try:
        sig = inspect.signature(fn)
        pnames = list(sig.parameters)
    except (TypeError, ValueError):
        pnames = []

    @functools.wraps(fn)
    def wrapper(*args, **kwargs):
        if not STATE.enabled:
            return fn(*args, **kwargs)
        STATE.calls[qual] += 1
        depth = _depth()
        items = []
        for i, a in enumerate(args):
            if is_method and i == 0:
                continue
            nm = pnames[i] if i < len(pnames) else f"arg{i}"
            items.append((nm, a))
        items += list(kwargs.items())
        snaps = []
        for nm, a in items:
            if (qual, nm) in EXEMPT_PARAMS:
                continue
            s = snap(a)
            if s is not None:
                snaps.append((nm, a, s))
        do_repeat = STATE.repeat and depth == 0 and not qual.startswith(NO_REPEAT_PREFIX) \
            and not (is_method and not qual.split(".")[-1] in
                     ("forward", "backward", "jacobian", "backward_censored",
                      "coord2cell", "cell2coord", "cell2rowcol", "neighbours", "slice",
                      "cells_inside_polygon", "upstream", "downstream", "clip",
                      "clone", "to_dict", "same_geometry", "intersect", "isin",
                      "extent", "params_logprior"))
        saved = saved3 = None
        if do_repeat:
            try:
                saved = (copy.deepcopy(args), copy.deepcopy(kwargs),
                         np.random.get_state())
                saved3 = (copy.deepcopy(args), copy.deepcopy(kwargs)) \
                    if not is_method else None
            except Exception:
                saved = None
        STATE.local.depth = depth + 1
        raised = None
        try:
            res = fn(*args, **kwargs)
        except BaseException as e:
            raised = e
            res = None
        finally:
            STATE.local.depth = depth
        for nm, a, s in snaps:
            STATE.args_checked[qual] += 1
            try:
                s2 = snap(a)
            except Exception:
                s2 = None
            if s2 != s:
                v = {"function": qual, "param": nm, "kind": "argument-mutated",
                     "arg": describe(a), "raised": repr(raised) if raised else None}
                STATE.violations.append(v)
                if STATE.on_violation:
                    STATE.on_violation(v)
        if raised is not None:
            raise raised
        if saved is not None:
            a2, k2, rs = saved
            after = np.random.get_state()
            STATE.enabled = False
            try:
                np.random.set_state(rs)
                try:
                    res2 = fn(*a2, **k2)
                    c1, c2 = canon(res), canon(res2)
                    STATE.repeats[qual] += 1
                    if c1 != c2:
                        v = {"function": qual, "param": None,
                             "kind": "result-not-repeatable",
                             "first": repr(res)[:300], "second": repr(res2)[:300]}
                        STATE.violations.append(v)
                        if STATE.on_violation:
                            STATE.on_violation(v)
                    elif saved3 is not None:
                        # the caller edits the result it was given (in place), then
                        # asks again: a result cached or shared between calls shows
                        if scramble(res2):
                            np.random.set_state(rs)
                            res3 = fn(*saved3[0], **saved3[1])
                            STATE.repeats[qual + "#after-edit"] += 1
                            if canon(res3) != c1:
                                v = {"function": qual, "param": None,
                                     "kind": "result-shared-between-calls",
                                     "first": repr(res)[:300], "third": repr(res3)[:300]}
                                STATE.violations.append(v)
                                if STATE.on_violation:
                                    STATE.on_violation(v)
                except Exception as e:
                    v = {"function": qual, "param": None,
                         "kind": "second-call-raises", "exc": repr(e)[:300]}
                    STATE.violations.append(v)
                    if STATE.on_violation:
                        STATE.on_violation(v)
            finally:
                STATE.enabled = True
                np.random.set_state(after)
        return res

    wrapper.__hyverif_wrapped__ = True
    return wrapper


def install():
    """wrap public functions and public methods of the monitored modules; returns
    the list of qualified names that were wrapped"""
    import importlib
    wrapped = []
    for mn in MODULES:
        mod = importlib.import_module(mn)
        for name, obj in list(vars(mod).items()):
            if name.startswith("_"):
                continue
            # (decorated functions - functools.lru_cache and the like - are callables
            # with __wrapped__, not functions)
            if (inspect.isfunction(obj) or (callable(obj) and not inspect.isclass(obj)
                                            and hasattr(obj, "__wrapped__"))) \
                    and getattr(obj, "__module__", None) == mn:
                qual = f"{mn}.{name}"
                if qual in SKIP or getattr(obj, "__hyverif_wrapped__", False):
                    continue
                setattr(mod, name, make_wrapper(obj, qual, False))
                wrapped.append(qual)
            elif inspect.isclass(obj) and obj.__module__ == mn:
                for mname, m in list(vars(obj).items()):
                    if mname.startswith("_") and mname != "__init__":
                        continue
                    if mname == "__init__" and obj.__name__ not in ("Boxplot", "Violin"):
                        continue
                    qual = f"{mn}.{obj.__name__}.{mname}"
                    if inspect.isfunction(m):
                        if getattr(m, "__hyverif_wrapped__", False):
                            continue
                        setattr(obj, mname, make_wrapper(m, qual, True))
                        wrapped.append(qual)
                    elif isinstance(m, property) and m.fset is not None and \
                            not mname.startswith("_"):
                        # property setters take data too (e.g. Grid.data = array)
                        f = m.fset
                        if getattr(f, "__hyverif_wrapped__", False):
                            continue
                        q2 = qual + ".setter"
                        setattr(obj, mname, property(m.fget, make_wrapper(f, q2, True),
                                                     m.fdel, m.__doc__))
                        wrapped.append(q2)
                    elif isinstance(m, classmethod):
                        f = m.__func__
                        if getattr(f, "__hyverif_wrapped__", False):
                            continue
                        setattr(obj, mname, classmethod(make_wrapper(f, qual, True)))
                        wrapped.append(qual)
    return wrapped
